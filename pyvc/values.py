"""Symbolic values of Engine A (pyvc).  See DESIGN.md section 3.1 for the encodings.

  SInt / SBool      z3 Int / Bool (Python ints are mathematical)
  SNone             the constant None
  SChar             a one-character string taken from a scanned string: its code point (Int); code == -1 encodes
                    None for variables of type Optional[char]
  SSlice            a substring of a *scanned* base string: (base, lo, hi) with base = (Array Int Int, length)
  SStr              a z3 String (concatenated / compared strings, names, permissions)
  SRef              an object reference (Int; 0 is None) with an optional static class
  SList / SDict     references to mutable containers; contents live in the heap (aliasing is visible)
  STuple            a Python tuple of values
  SConst            a Python literal (str / tuple of str) not yet committed to an encoding
"""
from __future__ import annotations
import z3
from dataclasses import dataclass, field
from typing import Any, Optional


class EngineError(Exception):
    """construct outside the supported subset / missing contract: the function is out of reach"""


class Val:
    pass


@dataclass
class SInt(Val):
    t: Any


@dataclass
class SBool(Val):
    t: Any


class SNone(Val):
    def __repr__(self):
        return "SNone"


@dataclass
class BaseStr:
    """a scanned string: array of code points + length"""
    name: str
    arr: Any
    n: Any


@dataclass
class SChar(Val):
    code: Any
    base: Optional[BaseStr] = None
    idx: Any = None          # position in base, when known


@dataclass
class SSlice(Val):
    base: BaseStr
    lo: Any
    hi: Any
    maxlen: Optional[int] = None     # static upper bound of the length when the slice came from constant bounds

    @property
    def length(self):
        return self.hi - self.lo


@dataclass
class SLower(Val):
    """s.lower() of a scanned slice (ASCII assumption); only comparisons with constants are interpreted"""
    s: SSlice


@dataclass
class SSeqStr(Val):
    """a string built character by character (io.StringIO buffer contents): a z3 Seq Int of code points"""
    seq: Any


SEQID = z3.Function("SEQID", z3.SeqSort(z3.IntSort()), z3.IntSort())      # interning of built strings stored in lists
SEQ_OF = z3.Function("SEQ_OF", z3.IntSort(), z3.SeqSort(z3.IntSort()))


@dataclass
class SStr(Val):
    t: Any


@dataclass
class SRef(Val):
    t: Any
    cls: Optional[str] = None


@dataclass
class SList(Val):
    id: Any
    elem: str                # 'ref' | 'str' | 'slice:<base name>' | 'int' | 'char'
    base: Optional[BaseStr] = None


@dataclass
class SDict(Val):
    id: Any
    key: str = "str"
    val: str = "ref"         # 'ref' | 'str' | 'strlist'
    dflt: Optional[str] = None   # 'list' for a collections.defaultdict(list)


@dataclass
class STuple(Val):
    items: list


@dataclass
class SConst(Val):
    py: Any


@dataclass
class SSet(Val):
    """a set of references: container reference; contents (Array Int Bool) live in the heap; len() is the uninterpreted CARD of the contents"""
    id: Any


CARD = z3.Function("CARD", z3.ArraySort(z3.IntSort(), z3.BoolSort()), z3.IntSort())


@dataclass
class SFunc(Val):
    """a function defined inside the function under contract (a closure): calls are executed in line"""
    node: Any


@dataclass
class SDictSlot(Val):
    """d[k] of a defaultdict(list) whose lists are modelled by value (dict kind str -> 'vlist'): a view that append() updates in place"""
    d: Any
    key: Any


@dataclass
class SMatch(Val):
    """result of PATTERN.match(s): truthiness = MATCHES_<pattern>(s); groups are uninterpreted functions of s"""
    rx: str
    s: Any


@dataclass
class SSplit(Val):
    """s.split(sep, 1): one or two parts depending on whether sep occurs in s"""
    s: Any
    sep: Any
    exact: bool = False        # split(sep) without maxsplit: unpacking into two names needs exactly one occurrence


@dataclass
class SOpaque(Val):
    """a value the engine does not interpret (e.g. a compiled regex object, a project)"""
    tag: str
    t: Any = None


def PairSort():
    if not hasattr(PairSort, "_s"):
        P = z3.Datatype("Slice")
        P.declare("mk", ("lo", z3.IntSort()), ("hi", z3.IntSort()))
        PairSort._s = P.create()
    return PairSort._s


SID = z3.Function("SID", z3.StringSort(), z3.IntSort())        # interned string id (lists of strings are Seq Int: nested sequences
STR_OF = z3.Function("STR_OF", z3.IntSort(), z3.StringSort())   # are beyond z3's sequence solver); STR_OF(SID(s)) == s makes SID injective


RSTRIPCH = z3.Function("RSTRIPCH", z3.StringSort(), z3.StringSort(), z3.StringSort())      # str.rstrip(chars)
STRJOIN = z3.Function("STRJOIN", z3.StringSort(), z3.SeqSort(z3.IntSort()), z3.StringSort())      # sep.join(list of interned strings)
PATH_JOIN = z3.Function("PATH_JOIN", z3.StringSort(), z3.StringSort(), z3.StringSort())     # pathlib.PurePath.__truediv__ on string forms


def sid(path, s):
    t = SID(s)
    path.assume(STR_OF(t) == s)
    return t


def elem_sort(kind: str):
    if kind in ("ref", "int", "char", "str", "seqstr") or kind.startswith("dict:"):
        return z3.IntSort()
    if kind.startswith("slice"):
        return PairSort()
    raise EngineError(f"element kind {kind}")


def const_to_str(c) -> Any:
    return z3.StringVal(c)


def as_bool(v: Val):
    """Python truthiness"""
    if isinstance(v, SBool):
        return v.t
    if isinstance(v, SInt):
        return v.t != 0
    if isinstance(v, SNone):
        return z3.BoolVal(False)
    if isinstance(v, SStr):
        return z3.Length(v.t) > 0
    if isinstance(v, SSlice):
        return v.hi > v.lo
    if isinstance(v, SRef):
        return v.t != 0
    if isinstance(v, SConst):
        return z3.BoolVal(bool(v.py))
    if isinstance(v, SChar):
        return v.code >= 0
    raise EngineError(f"truthiness of {type(v).__name__}")

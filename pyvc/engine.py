"""Engine A (pyvc): forward symbolic execution of the Python AST of a real function against a sidecar contract,
producing one verification condition per path and per contract conjunct.  Loops are cut at their invariants;
calls are replaced by callee contracts (never by callee bodies); everything outside the subset raises
EngineError, which makes the function 'out of reach' (UNDECIDED), never a verdict.

Python semantics assumed by the encoding are listed in ASSUMPTIONS and emitted into every evidence file.
"""
from __future__ import annotations
import ast, copy, itertools, time
import z3
from dataclasses import dataclass, field
from typing import Any, Callable, Optional
from .values import *

ASSUMPTIONS = [
    "pyvc: Python ints are mathematical integers (exact)",
    "pyvc: a scanned str is a finite sequence of code points, encoded as (Array Int Int, length); s[i] reads the array, "
    "s[a:b] is the index triple with CPython's clamping; str is immutable",
    "pyvc: evaluation order and short-circuiting of and/or/if follow CPython; walrus assigns in evaluation order",
    "pyvc: mutable containers (list/dict) are references; contents live in a global map so aliasing is visible",
    "pyvc: print/warn/progress calls are effect-free and dropped; type annotations and docstrings dropped",
    "pyvc: attribute reads are defined (no AttributeError) except where the code itself uses hasattr/getattr-with-default",
    "pyvc: no threads, no __getattr__ magic (FortranSpoof excluded), no reflection beyond constant-name getattr/hasattr/setattr",
    "pyvc: recursive spec functions are uninterpreted with ground unfolding instances at the loop index (no quantifier instantiation heuristics are trusted for proofs of False: sat models are replayed)",
]

_ctr = itertools.count()


def map_or(a, b):
    return z3.Map(z3.Or(z3.Bool("x!"), z3.Bool("y!")).decl(), a, b)


def map_ite(c, a, b):
    vs = a.sort().range()
    x, y = z3.Const("x!v", vs), z3.Const("y!v", vs)
    return z3.Map(z3.If(z3.Bool("c!"), x, y).decl(), c, a, b)


def fresh(prefix, sort):
    return z3.Const(f"{prefix}!{next(_ctr)}", sort)


@dataclass
class VC:
    id: str
    role: str
    hyps: list
    goal: Any
    desc: str = ""
    env: dict = None      # snapshot of inputs (for model extraction)


class Heap:
    def __init__(self):
        self.f: dict[str, Any] = {}        # field arrays (current)
        self.f0: dict[str, Any] = {}       # field arrays (initial)
        self.has: dict[str, Any] = {}      # hasattr predicates (current): Array Int Bool
        self.lists: dict[str, Any] = {}    # elem kind -> Array Int (Seq elem)
        self.lists0: dict[str, Any] = {}
        self.dh: dict[str, Any] = {}       # dict kind -> Array Int (Array K Bool)
        self.dv: dict[str, Any] = {}       # dict kind -> Array Int (Array K V)
        self.dh0: dict[str, Any] = {}
        self.dv0: dict[str, Any] = {}
        self.sets = z3.Const("SETC", z3.ArraySort(z3.IntSort(), z3.ArraySort(z3.IntSort(), z3.BoolSort())))
        self.sets0 = self.sets
        self.alloc0 = z3.Int("alloc0")
        self.alloc_base = self.alloc0     # current base (advanced past callee allocations)
        self.nalloc = 0

    def clone(self):
        h = Heap.__new__(Heap)
        h.f, h.f0, h.has = dict(self.f), self.f0, dict(self.has)
        h.lists, h.lists0 = dict(self.lists), self.lists0
        h.dh, h.dv, h.dh0, h.dv0 = dict(self.dh), dict(self.dv), self.dh0, self.dv0
        h.alloc0, h.nalloc, h.alloc_base = self.alloc0, self.nalloc, self.alloc_base
        h.sets, h.sets0 = self.sets, self.sets0
        return h

    def set_get(self, st):
        return z3.Select(self.sets, st.id)

    def set_put(self, st, content):
        self.sets = z3.Store(self.sets, st.id, content)

    def new_id(self):
        self.nalloc += 1
        return self.alloc_base + self.nalloc

    def alloc_now(self):
        """every id allocated so far is <= this term"""
        return self.alloc_base + self.nalloc

    # ---- lists
    def _lmap(self, kind):
        k = "slice" if kind.startswith("slice") else kind
        if k not in self.lists:
            a = z3.Const(f"LC_{k}", z3.ArraySort(z3.IntSort(), z3.SeqSort(elem_sort(kind))))
            self.lists[k] = a
            self.lists0[k] = a
        return k

    def list_get(self, lst: SList):
        k = self._lmap(lst.elem)
        return z3.Select(self.lists[k], lst.id)

    def list_get0(self, lst: SList):
        k = self._lmap(lst.elem)
        return z3.Select(self.lists0[k], lst.id)

    def list_set(self, lst: SList, seq):
        k = self._lmap(lst.elem)
        self.lists[k] = z3.Store(self.lists[k], lst.id, seq)

    # ---- dicts
    def _dsorts(self, d: SDict):
        ks = z3.StringSort() if d.key == "str" else z3.IntSort()
        vs = {"ref": z3.IntSort(), "str": z3.StringSort(), "int": z3.IntSort(), "list": z3.IntSort(), "vlist": z3.SeqSort(z3.IntSort())}.get(d.val, z3.IntSort())
        return ks, vs

    def _dmap(self, d: SDict):
        k = f"{d.key}_{d.val}".replace(":", "-")
        if k not in self.dh:
            ks, vs = self._dsorts(d)
            self.dh[k] = self.dh0[k] = z3.Const(f"DH_{k}", z3.ArraySort(z3.IntSort(), z3.ArraySort(ks, z3.BoolSort())))
            self.dv[k] = self.dv0[k] = z3.Const(f"DV_{k}", z3.ArraySort(z3.IntSort(), z3.ArraySort(ks, vs)))
        return k

    def dict_has(self, d):
        return z3.Select(self.dh[self._dmap(d)], d.id)

    def dict_val(self, d):
        return z3.Select(self.dv[self._dmap(d)], d.id)

    def dict_has0(self, d):
        return z3.Select(self.dh0[self._dmap(d)], d.id)

    def dict_val0(self, d):
        return z3.Select(self.dv0[self._dmap(d)], d.id)

    def dict_set(self, d, has, val):
        k = self._dmap(d)
        self.dh[k] = z3.Store(self.dh[k], d.id, has)
        self.dv[k] = z3.Store(self.dv[k], d.id, val)


class Path:
    def __init__(self):
        self.env: dict[str, Val] = {}
        self.pc: list = []
        self.heap = Heap()
        self.trace: list[str] = []
        self.catch: list = []          # stack of exception class names caught by enclosing handlers

    def clone(self):
        p = Path.__new__(Path)
        p.env = dict(self.env)
        p.pc = list(self.pc)
        p.heap = self.heap.clone()
        p.trace = list(self.trace)
        p.catch = list(self.catch)
        if hasattr(self, "noraise"):
            p.noraise = set(self.noraise)
        return p

    def assume(self, c):
        self.pc.append(c)


@dataclass
class Outcome:
    kind: str            # normal | return | break | continue | raise
    path: Path
    value: Any = None    # return value / exception class name
    extra: Any = None


@dataclass
class LoopSpec:
    invariants: list = field(default_factory=list)       # (name, fn(V) -> Bool)
    types: dict = field(default_factory=dict)            # var -> type ctor  fn(engine, path, name) -> Val
    variant: Optional[Callable] = None                   # fn(V) -> Int term
    unfold: Optional[Callable] = None                    # fn(V) -> list of ground axiom instances to assume at head
    havoc_fields: list = field(default_factory=list)     # extra heap fields to havoc
    havoc_lists: list = field(default_factory=list)


class V:
    """accessor handed to contract lambdas: attribute access yields raw z3 terms of the current state"""

    def __init__(self, eng, path, extra=None):
        object.__setattr__(self, "_e", eng)
        object.__setattr__(self, "_p", path)
        object.__setattr__(self, "_x", extra or {})

    def __getattr__(self, name):
        if name in self._x:
            return self._x[name]
        if name not in self._p.env:
            raise EngineError(f"contract refers to unknown variable '{name}'")
        return self._e.raw(self._p, self._p.env[name])

    def val(self, name):
        return self._p.env[name]

    def has(self, name):
        return name in self._p.env

    @property
    def heap(self):
        return self._p.heap

    @property
    def path(self):
        return self._p


class Engine:
    def __init__(self, contract, fn_ast: ast.FunctionDef, callee_contracts=None, model=None):
        self.c = contract
        self.fn = fn_ast
        self.vcs: list[VC] = []
        self.callees = callee_contracts or {}
        self.model = model            # class/field model (heap typing)
        self.loop_ord = 0
        self.loop_ids: dict[int, int] = {}
        self.feas_solver_timeout = 2000
        self.ghost_axioms: list = []
        self.notes: list[str] = []
        # stable labels: ordinal of each node among nodes of its type inside the function (robust against edits elsewhere)
        self.ordinal: dict[int, str] = {}
        counts: dict[str, int] = {}
        for n in ast.walk(fn_ast):
            tn = type(n).__name__
            counts[tn] = counts.get(tn, 0) + 1
            self.ordinal[id(n)] = f"{tn.lower()}{counts[tn] - 1}"

    def lab(self, node):
        return self.ordinal.get(id(node), f"l{getattr(node, 'lineno', 0)}")

    # ------------------------------------------------------------------ utilities
    def raw(self, path, v: Val):
        if isinstance(v, (SInt, SBool, SStr, SRef)):
            return v.t
        if isinstance(v, SChar):
            return v.code
        if isinstance(v, SList):
            return path.heap.list_get(v)
        if isinstance(v, SNone):
            return None
        return v

    def oblige(self, path, goal, oid, role, desc=""):
        self.vcs.append(VC(id=oid, role=role, hyps=list(path.pc), goal=goal, desc=desc))

    def feasible(self, path, cond) -> bool:
        s = z3.Solver()
        s.set("timeout", self.feas_solver_timeout)
        for h in path.pc:
            s.add(h)
        s.add(cond)
        return s.check() != z3.unsat

    def valid(self, path, cond) -> bool:
        s = z3.Solver()
        s.set("timeout", self.feas_solver_timeout)
        for h in path.pc:
            s.add(h)
        s.add(z3.Not(cond))
        return s.check() == z3.unsat

    def truth(self, path, v):
        if isinstance(v, SMatch):
            return self.c.regex_matches(v.rx, v.s)
        if isinstance(v, SOpaque):
            return fresh("opaque_truth", z3.BoolSort())
        if isinstance(v, SList):
            return z3.Length(path.heap.list_get(v)) > 0
        if isinstance(v, SDict):
            raise EngineError("truthiness of a dict")
        return as_bool(v)

    def callee_effects(self, path, fields=(), keep=None, ground=(), allocates=True, keep_lists=True, list_kinds=("ref",)):
        """apply the frame of a callee contract: havoc `fields` except on objects satisfying keep(o) (instantiated on `ground`
        terms and as a pattern-guarded quantifier); advance the allocation base; existing containers keep their contents."""
        h = path.heap
        o = z3.Int("o!frame")
        for f in fields:
            old = self.field_array(path, f)
            new = fresh(f"H_{f}", old.sort())
            if keep is not None:
                path.assume(z3.ForAll([o], z3.Implies(keep(o), z3.Select(new, o) == z3.Select(old, o)), patterns=[z3.Select(new, o)]))
                for g in ground:
                    path.assume(z3.Implies(keep(g), z3.Select(new, g) == z3.Select(old, g)))
            h.f[f] = new
        if allocates:
            before = h.alloc_now()
            nb = fresh("alloc", z3.IntSort())
            path.assume(nb >= before)
            h.alloc_base, h.nalloc = nb, 0
            if keep_lists:
                i = z3.Int("i!frame")
                for k in list(h.lists):
                    if k not in list_kinds:
                        continue
                    old = h.lists[k]
                    new = fresh(f"LC_{k}", old.sort())
                    path.assume(z3.ForAll([i], z3.Implies(i <= before, z3.Select(new, i) == z3.Select(old, i)), patterns=[z3.Select(new, i)]))
                    h.lists[k] = new

    # ------------------------------------------------------------------ coercions
    def to_char_code(self, path, v):
        if isinstance(v, SChar):
            return v.code
        if isinstance(v, SConst) and isinstance(v.py, str) and len(v.py) == 1:
            return z3.IntVal(ord(v.py))
        if isinstance(v, SNone):
            return z3.IntVal(-1)
        if isinstance(v, SSlice):
            return None
        raise EngineError(f"not a character: {v}")

    def to_str(self, path, v):
        if isinstance(v, SStr):
            return v.t
        if isinstance(v, SConst) and isinstance(v.py, str):
            return z3.StringVal(v.py)
        raise EngineError(f"not a z3 string: {type(v).__name__}")

    def eq(self, path, a: Val, b: Val):
        """Python == as a z3 Bool"""
        if isinstance(a, SConst) and not isinstance(b, SConst):
            a, b = b, a
        if isinstance(a, SInt) and isinstance(b, SInt):
            return a.t == b.t
        if isinstance(a, SInt) and isinstance(b, SConst) and isinstance(b.py, int):
            return a.t == b.py
        if isinstance(a, SBool) and isinstance(b, SBool):
            return a.t == b.t
        if isinstance(a, SChar):
            if isinstance(b, SConst) and isinstance(b.py, str) and len(b.py) != 1:
                return z3.BoolVal(False)
            if isinstance(b, (SChar, SConst, SNone)):
                return a.code == self.to_char_code(path, b)
            if isinstance(b, SSlice):
                return z3.And(b.hi - b.lo == 1, z3.Select(b.base.arr, b.lo) == a.code)
        if isinstance(b, SChar):
            return self.eq(path, b, a)
        if isinstance(a, SNone) and isinstance(b, SNone):
            return z3.BoolVal(True)
        if isinstance(a, SStr) and isinstance(b, (SStr, SConst)):
            return a.t == self.to_str(path, b)
        if isinstance(a, SStr) and isinstance(b, SNone):
            return z3.BoolVal(False)
        if isinstance(a, SRef) and isinstance(b, SRef):
            return a.t == b.t
        if isinstance(a, SRef) and isinstance(b, SNone):
            return a.t == 0
        if isinstance(a, SNone) and isinstance(b, SRef):
            return b.t == 0
        if isinstance(a, SSlice) and isinstance(b, SConst) and isinstance(b.py, str):
            conj = [a.hi - a.lo == len(b.py)]
            for k, ch in enumerate(b.py):
                conj.append(z3.Select(a.base.arr, a.lo + k) == ord(ch))
            return z3.And(*conj)
        if isinstance(a, SConst) and isinstance(b, SConst):
            return z3.BoolVal(a.py == b.py)
        if isinstance(a, SSeqStr) and isinstance(b, SConst) and isinstance(b.py, str):
            lit_ = z3.Empty(z3.SeqSort(z3.IntSort()))
            for ch in b.py:
                lit_ = z3.Concat(lit_, z3.Unit(z3.IntVal(ord(ch))))
            return a.seq == lit_
        if isinstance(a, SSeqStr) and isinstance(b, SSeqStr):
            return a.seq == b.seq
        if isinstance(a, SLower) and isinstance(b, SConst) and isinstance(b.py, str):
            if b.py != b.py.lower():
                return z3.BoolVal(False)
            sl = a.s
            conj = [sl.hi - sl.lo == len(b.py)]
            for k, ch in enumerate(b.py):
                c = z3.Select(sl.base.arr, sl.lo + k)
                conj.append(z3.Or(c == ord(ch), c == ord(ch.upper())) if ch.upper() != ch else c == ord(ch))
            return z3.And(*conj)
        if isinstance(a, SOpaque) or isinstance(b, SOpaque):
            return fresh("opaque_eq", z3.BoolSort())
        if isinstance(a, SList) and isinstance(b, SList):
            return path.heap.list_get(a) == path.heap.list_get(b)
        if isinstance(a, SOpaque) and isinstance(b, SOpaque) and a.t is not None and b.t is not None:
            return a.t == b.t
        raise EngineError(f"== between {type(a).__name__} and {type(b).__name__}")

    # ------------------------------------------------------------------ expressions
    def ev(self, path: Path, e: ast.AST) -> Val:
        m = getattr(self, "ev_" + type(e).__name__, None)
        if m is None:
            raise EngineError(f"expression {type(e).__name__} not supported (line {getattr(e, 'lineno', '?')})")
        return m(path, e)

    def ev_Constant(self, path, e):
        v = e.value
        if v is None:
            return SNone()
        if isinstance(v, bool):
            return SBool(z3.BoolVal(v))
        if isinstance(v, int):
            return SInt(z3.IntVal(v))
        if isinstance(v, str):
            return SConst(v)
        raise EngineError(f"constant {v!r}")

    def ev_Name(self, path, e):
        if e.id in path.env:
            return path.env[e.id]
        if e.id in ("True", "False"):
            return SBool(z3.BoolVal(e.id == "True"))
        g = self.c.globals.get(e.id)
        if g is not None:
            return g
        raise EngineError(f"unbound name '{e.id}' (line {e.lineno})")

    def ev_Tuple(self, path, e):
        items = [self.ev(path, x) for x in e.elts]
        if all(isinstance(i, SConst) for i in items):
            return SConst(tuple(i.py for i in items))
        return STuple(items)

    def ev_List(self, path, e):
        items = [self.ev(path, x) for x in e.elts]
        if all(isinstance(i, SConst) for i in items) and items:
            return SConst(tuple(i.py for i in items))
        return self.new_list(path, items, e)

    def new_list(self, path, items, e=None, elem=None, base=None):
        if elem is None:
            if not items:
                elem = self.c.list_elem_hint(getattr(e, "lineno", None)) if e is not None else None
                elem = elem or "ref"
            elif isinstance(items[0], SRef):
                elem = "ref"
            elif isinstance(items[0], (SStr,)):
                elem = "str"
            elif isinstance(items[0], SSlice):
                elem, base = f"slice:{items[0].base.name}", items[0].base
            elif isinstance(items[0], SInt):
                elem = "int"
            elif isinstance(items[0], SConst) and isinstance(items[0].py, str):
                elem = "str"
            else:
                raise EngineError(f"list of {type(items[0]).__name__}")
        lst = SList(path.heap.new_id(), elem, base)
        seq = z3.Empty(z3.SeqSort(elem_sort(elem)))
        for it in items:
            seq = z3.Concat(seq, z3.Unit(self.elem_term(path, lst, it)))
        path.heap.list_set(lst, seq)
        return lst

    def elem_term(self, path, lst: SList, v: Val):
        if lst.elem == "ref":
            if isinstance(v, SRef):
                return v.t
            if isinstance(v, SNone):
                return z3.IntVal(0)
        if lst.elem == "int" and isinstance(v, SInt):
            return v.t
        if lst.elem.startswith("dict:") and isinstance(v, SDict):
            return v.id
        if lst.elem == "seqstr" and isinstance(v, SSeqStr):
            t = SEQID(v.seq)
            path.assume(SEQ_OF(t) == v.seq)
            return t
        if lst.elem == "char" and isinstance(v, SChar):
            return v.code
        if lst.elem == "str":
            return sid(path, self.to_str(path, v))
        if lst.elem.startswith("slice") and isinstance(v, SSlice):
            if lst.base is None:
                lst.base = v.base
            return PairSort().mk(v.lo, v.hi)
        if lst.elem.startswith("slice") and isinstance(v, SChar) and v.base is not None and v.idx is not None:
            return PairSort().mk(v.idx, v.idx + 1)
        raise EngineError(f"cannot store {type(v).__name__} in list of {lst.elem}")

    def elem_val(self, path, lst: SList, t):
        if lst.elem == "ref":
            return SRef(t, self.c.list_class_hint(lst))
        if lst.elem == "int":
            return SInt(t)
        if lst.elem.startswith("dict:"):
            _, k2, v2 = lst.elem.split(":", 2)
            return SDict(t, k2, v2)
        if lst.elem == "seqstr":
            return SSeqStr(SEQ_OF(t))
        if lst.elem == "char":
            return SChar(t)
        if lst.elem == "str":
            path.assume(SID(STR_OF(t)) == t)      # every element of a list of strings is the id of some string
            return SStr(STR_OF(t))
        if lst.elem.startswith("slice"):
            P = PairSort()
            return SSlice(lst.base, P.lo(t), P.hi(t))
        raise EngineError(lst.elem)

    def ev_Dict(self, path, e):
        if not e.keys:
            return self.new_dict(path, e)
        if all(k is None for k in e.keys):
            # {**a, **b, ...}: a new dict, later operands win
            parts = [self.ev(path, x) for x in e.values]
            if not all(isinstance(p, SDict) for p in parts):
                raise EngineError("dict unpacking of non-dict")
            d = SDict(path.heap.new_id(), parts[0].key, parts[0].val)
            path.heap.dict_set(d, path.heap.dict_has(parts[0]), path.heap.dict_val(parts[0]))
            for o in parts[1:]:
                self._dict_update(path, d, o)
            return d
        raise EngineError("non-empty dict display")

    def _dict_update(self, path, d, o):
        if (o.key, o.val) != (d.key, d.val):
            raise EngineError("dict.update kind mismatch")
        ks, vs = path.heap._dsorts(d)
        k = z3.Const("k!upd", ks)
        oh, ov = path.heap.dict_has(o), path.heap.dict_val(o)
        h, v = path.heap.dict_has(d), path.heap.dict_val(d)
        nh, nv = map_or(h, oh), map_ite(oh, ov, v)     # combinatory array logic: complete, gives models
        path.heap.dict_set(d, nh, nv)

    def new_dict(self, path, e=None, key="str", val=None):
        val = val or (self.c.dict_val_hint(getattr(e, "lineno", None)) if e is not None else None) or "ref"
        d = SDict(path.heap.new_id(), key, val)
        ks, vs = path.heap._dsorts(d)
        dflt = z3.StringVal("") if vs == z3.StringSort() else (z3.Empty(vs) if z3.is_seq(z3.Const("x!", vs)) else z3.IntVal(0))
        path.heap.dict_set(d, z3.K(ks, z3.BoolVal(False)), z3.K(ks, dflt))   # canonical empty dict
        return d

    def ev_ListComp(self, path, e):
        """[elt for x in it if cond]  ==  tmp = []; for x in it: if cond: tmp.append(elt)   (one generator, pure cond/elt).
        The synthetic loop takes its invariant from the contract like any other loop (ordinal in execution order)."""
        if len(e.generators) != 1 or e.generators[0].is_async:
            raise EngineError("comprehension with several generators")
        g = e.generators[0]
        key = id(e)
        if not hasattr(self, "_lc_cache"):
            self._lc_cache = {}
        if key not in self._lc_cache:
            name = f"_lc{len(self._lc_cache)}"
            app = ast.Expr(ast.Call(ast.Attribute(ast.Name(name, ast.Load()), "append", ast.Load()), [e.elt], []))
            body = [app]
            for c in reversed(g.ifs):
                body = [ast.If(c, body, [])]
            loop = ast.For(g.target, g.iter, body, [], None)
            for n in [loop] + body + [app]:
                ast.copy_location(n, e)
            ast.fix_missing_locations(loop)
            for n in ast.walk(loop):
                if id(n) not in self.ordinal:
                    self.ordinal[id(n)] = f"lc{len(self._lc_cache)}.{type(n).__name__.lower()}"
            self._lc_cache[key] = (name, loop)
        name, loop = self._lc_cache[key]
        itv = self.ev(path, g.iter) if not (isinstance(g.iter, ast.Call)) else None
        elem, base = None, None
        if isinstance(itv, SList) and isinstance(e.elt, ast.Name) and isinstance(g.target, ast.Name) and e.elt.id == g.target.id:
            elem, base = itv.elem, itv.base
        else:
            elem = self.c.hints.get(("listcomp", name)) or self.c.hints.get("listcomp")
        path.env[name] = self.new_list(path, [], e, elem=elem, base=base)
        outs = self.loop(loop, path, "for")
        normal = [o for o in outs if o.kind == "normal"]
        if len(normal) != 1 or len(outs) != 1:
            raise EngineError("comprehension whose body can raise/branch out")
        o = normal[0]
        path.env, path.pc, path.heap, path.trace = o.path.env, o.path.pc, o.path.heap, o.path.trace
        return path.env.pop(name)

    def ev_JoinedStr(self, path, e):
        parts = []
        for v in e.values:
            if isinstance(v, ast.Constant):
                parts.append(SConst(v.value))
            elif isinstance(v, ast.FormattedValue):
                if v.format_spec is not None or v.conversion not in (-1, 115):
                    return SOpaque("str")
                x = self.ev(path, v.value)
                if isinstance(x, SInt):
                    x = SStr(z3.IntToStr(x.t))
                parts.append(x)
        res = SConst("")
        for p_ in parts:
            if isinstance(p_, SOpaque) or not isinstance(p_, (SStr, SConst)):
                return SOpaque("str")
            res = self.concat(path, res, p_, e)
        return res

    def ev_NamedExpr(self, path, e):
        v = self.ev(path, e.value)
        path.env[e.target.id] = v
        return v

    def ev_UnaryOp(self, path, e):
        v = self.ev(path, e.operand)
        if isinstance(e.op, ast.Not):
            return SBool(z3.Not(self.truth(path, v)))
        if isinstance(e.op, ast.USub) and isinstance(v, SInt):
            return SInt(-v.t)
        raise EngineError("unary op")

    def ev_BoolOp(self, path, e):
        # short-circuit: operand k is evaluated under the assumption about operands < k
        saved = len(path.pc)
        terms = []
        vals = []
        for sub in e.values:
            v = self.ev(path, sub)
            vals.append(v)
            b = self.truth(path, v)
            terms.append(b)
            path.pc.append(b if isinstance(e.op, ast.And) else z3.Not(b))
        del path.pc[saved:]
        allbool = all(isinstance(v, SBool) for v in vals)
        t = z3.And(*terms) if isinstance(e.op, ast.And) else z3.Or(*terms)
        if allbool:
            return SBool(t)
        # value semantics: `a or b` is a if a is truthy else b; `a and b` is a if a is falsy else b
        try:
            res = vals[-1]
            for v, b in zip(reversed(vals[:-1]), reversed(terms[:-1])):
                res = self.ite(path, b, v, res) if isinstance(e.op, ast.Or) else self.ite(path, b, res, v)
            return res
        except EngineError:
            return SBool(t)      # used for its truth value only

    def ev_IfExp(self, path, e):
        c = self.truth(path, self.ev(path, e.test))
        saved = len(path.pc)
        path.pc.append(c)
        a = self.ev(path, e.body)
        del path.pc[saved:]
        path.pc.append(z3.Not(c))
        b = self.ev(path, e.orelse)
        del path.pc[saved:]
        try:
            return self.ite(path, c, a, b)
        except EngineError:
            # two values of different kinds (`e.args if len(e.args) == 0 else e.args[0]`): a value the engine does not interpret - whatever reads it later is
            # either indifferent to it (an f-string, an argument of an uninterpreted call) or out of reach there
            return SOpaque("value")

    def ite(self, path, c, a, b):
        if isinstance(a, SConst) and isinstance(a.py, int) and not isinstance(a.py, bool):
            a = SInt(z3.IntVal(a.py))
        if isinstance(b, SConst) and isinstance(b.py, int) and not isinstance(b.py, bool):
            b = SInt(z3.IntVal(b.py))
        if isinstance(a, SInt) and isinstance(b, SInt):
            return SInt(z3.If(c, a.t, b.t))
        if isinstance(a, SBool) and isinstance(b, SBool):
            return SBool(z3.If(c, a.t, b.t))
        if isinstance(a, (SStr, SConst)) and isinstance(b, (SStr, SConst)):
            return SStr(z3.If(c, self.to_str(path, a), self.to_str(path, b)))
        if isinstance(a, (SRef, SNone)) and isinstance(b, (SRef, SNone)):
            ta = a.t if isinstance(a, SRef) else z3.IntVal(0)
            tb = b.t if isinstance(b, SRef) else z3.IntVal(0)
            return SRef(z3.If(c, ta, tb), getattr(a, "cls", None) or getattr(b, "cls", None))
        if isinstance(a, SDict) and isinstance(b, SDict) and (a.key, a.val) == (b.key, b.val):
            return SDict(z3.If(c, a.id, b.id), a.key, a.val)
        if isinstance(a, SList) and isinstance(b, SList) and a.elem == b.elem:
            return SList(z3.If(c, a.id, b.id), a.elem, a.base or b.base)
        def as_slice(x, other):
            if isinstance(x, SSlice):
                return x
            if isinstance(x, SChar) and x.base is not None:
                return SSlice(x.base, x.idx, x.idx + 1, 1)
            if isinstance(x, SConst) and x.py == "":
                ob = other.base if isinstance(other, (SSlice, SChar)) else None
                if ob is not None:
                    return SSlice(ob, z3.IntVal(0), z3.IntVal(0), 0)
            return None
        sa, sb = as_slice(a, b), as_slice(b, a)
        if sa is not None and sb is not None and sa.base is sb.base:
            ml = None if sa.maxlen is None or sb.maxlen is None else max(sa.maxlen, sb.maxlen)
            return SSlice(sa.base, z3.If(c, sa.lo, sb.lo), z3.If(c, sa.hi, sb.hi), ml)
        if isinstance(a, SOpaque) or isinstance(b, SOpaque):
            return SOpaque("str")
        raise EngineError(f"conditional expression over {type(a).__name__}/{type(b).__name__}")

    def ev_BinOp(self, path, e):
        a, b = self.ev(path, e.left), self.ev(path, e.right)
        op = e.op
        if isinstance(a, SInt) and isinstance(b, SInt):
            if isinstance(op, ast.Add):
                return SInt(a.t + b.t)
            if isinstance(op, ast.Sub):
                return SInt(a.t - b.t)
            if isinstance(op, ast.Mult):
                return SInt(a.t * b.t)
            if isinstance(op, ast.FloorDiv):
                self.oblige(path, b.t != 0, f"safety.div.{self.lab(e)}", "pre", "no ZeroDivisionError")
                return SInt(a.t / b.t)   # z3 int division floors for positive divisor; asserted below
        if isinstance(op, ast.Add):
            r = self.concat(path, a, b, e)
            if r is not None:
                return r
        if isinstance(op, ast.Div) and isinstance(a, (SStr, SConst)) and isinstance(b, (SStr, SConst)):
            # pathlib: base / relative.  Paths are modelled by their string form; `/` is an uninterpreted pure function (library contract)
            return SStr(PATH_JOIN(self.to_str(path, a), self.to_str(path, b)))
        raise EngineError(f"binary op {type(op).__name__} on {type(a).__name__},{type(b).__name__} (line {e.lineno})")

    def concat(self, path, a, b, e):
        if isinstance(a, (SOpaque, SLower)) or isinstance(b, (SOpaque, SLower)):
            return SOpaque("str")
        # strings built by concatenation
        if isinstance(a, (SStr, SConst)) and isinstance(b, (SStr, SConst)):
            if isinstance(a, SConst) and isinstance(b, SConst):
                return SConst(a.py + b.py)
            return SStr(z3.Concat(self.to_str(path, a), self.to_str(path, b)))
        # slice + adjacent char / slice of the same scanned string
        if isinstance(a, SConst) and a.py == "" and isinstance(b, SChar) and b.base is not None:
            return SSlice(b.base, b.idx, b.idx + 1)
        if isinstance(a, SConst) and a.py == "" and isinstance(b, SSlice):
            return b
        if isinstance(a, SSlice) and isinstance(b, SConst) and b.py == "":
            return a
        if isinstance(a, SSlice) and isinstance(b, SChar) and b.base is a.base:
            adj = z3.Or(a.hi == b.idx, a.hi == a.lo)
            if self.valid(path, adj):
                return SSlice(a.base, z3.If(a.hi == a.lo, b.idx, a.lo), b.idx + 1)
            return SOpaque("str")
        if isinstance(a, SSlice) and isinstance(b, SSlice) and b.base is a.base:
            adj = z3.Or(a.hi == b.lo, a.hi == a.lo, b.hi == b.lo)
            if self.valid(path, adj):
                return SSlice(a.base, z3.If(a.hi == a.lo, b.lo, a.lo), z3.If(b.hi == b.lo, z3.If(a.hi == a.lo, b.lo, a.hi), b.hi))
            return SOpaque("str")
        if isinstance(a, SList) and isinstance(b, SList) and a.elem == b.elem:
            lst = SList(path.heap.new_id(), a.elem, a.base or b.base)
            path.heap.list_set(lst, z3.Concat(path.heap.list_get(a), path.heap.list_get(b)))
            return lst
        strish = (SSlice, SChar, SConst, SOpaque, SLower)
        if isinstance(a, strish) and isinstance(b, strish) and not (isinstance(a, SConst) and not isinstance(a.py, str)) \
                and not (isinstance(b, SConst) and not isinstance(b.py, str)):
            return SOpaque("str")     # a built string the engine does not track
        return None

    def ev_Compare(self, path, e):
        left = self.ev(path, e.left)
        terms = []
        saved = len(path.pc)
        for op, rhs_e in zip(e.ops, e.comparators):
            right = self.ev(path, rhs_e)
            t = self.compare(path, op, left, right, e)
            terms.append(t)
            path.pc.append(t)
            left = right
        del path.pc[saved:]
        return SBool(z3.And(*terms) if len(terms) > 1 else terms[0])

    def compare(self, path, op, a, b, e):
        if isinstance(op, ast.Eq):
            return self.eq(path, a, b)
        if isinstance(op, ast.NotEq):
            return z3.Not(self.eq(path, a, b))
        if isinstance(op, ast.Is):
            if isinstance(b, SNone):
                return self.is_none(path, a)
            if isinstance(a, SBool) and isinstance(b, SBool):
                return a.t == b.t
            if isinstance(a, SRef) and isinstance(b, SRef):
                return a.t == b.t
            if isinstance(a, SOpaque) and isinstance(b, SOpaque):
                return a.t == b.t
            raise EngineError("'is' on non-None operands")
        if isinstance(op, ast.IsNot):
            return z3.Not(self.compare(path, ast.Is(), a, b, e))
        if isinstance(op, (ast.Lt, ast.LtE, ast.Gt, ast.GtE)):
            if isinstance(a, SConst) and isinstance(a.py, int):
                a = SInt(z3.IntVal(a.py))
            if isinstance(a, SInt) and isinstance(b, SInt):
                return {ast.Lt: a.t < b.t, ast.LtE: a.t <= b.t, ast.Gt: a.t > b.t, ast.GtE: a.t >= b.t}[type(op)]
            if isinstance(a, (SStr, SConst)) and isinstance(b, (SStr, SConst)):
                x, y = self.to_str(path, a), self.to_str(path, b)
                return {ast.Lt: x < y, ast.LtE: x <= y, ast.Gt: y < x, ast.GtE: y <= x}[type(op)]
            raise EngineError(f"ordering comparison on {type(a).__name__}")
        if isinstance(op, ast.In):
            return self.contains(path, b, a, e)
        if isinstance(op, ast.NotIn):
            return z3.Not(self.contains(path, b, a, e))
        raise EngineError(f"comparison {type(op).__name__}")

    def is_none(self, path, a):
        if isinstance(a, SNone):
            return z3.BoolVal(True)
        if isinstance(a, SChar):
            return a.code == -1
        if isinstance(a, SRef):
            return a.t == 0
        if isinstance(a, (SInt, SBool, SStr, SSlice, SList, SDict, SConst, STuple)):
            return z3.BoolVal(False)
        if isinstance(a, SOpaque):
            if a.t is not None:
                return a.t == 0
        raise EngineError(f"is None on {type(a).__name__}")

    def contains(self, path, container, item, e):
        if isinstance(container, SOpaque):
            t = self.c.opaque_contains(self, path, container, item, e)
            if t is not None:
                return t
        if isinstance(container, SConst) and isinstance(container.py, tuple):
            return z3.Or(*[self.eq(path, item, SConst(x)) for x in container.py]) if container.py else z3.BoolVal(False)
        if isinstance(container, STuple):
            return z3.Or(*[self.eq(path, item, x) for x in container.items])
        if isinstance(container, SConst) and isinstance(container.py, str):
            # substring / membership of a char in a literal string
            if isinstance(item, SChar):
                return z3.Or(*[item.code == ord(ch) for ch in container.py]) if container.py else z3.BoolVal(False)
            if isinstance(item, SSlice):
                subs = {container.py[i:j] for i in range(len(container.py) + 1) for j in range(i, len(container.py) + 1)}
                return z3.Or(*[self.eq(path, item, SConst(w)) for w in sorted(subs)])
            if isinstance(item, SOpaque):
                return fresh("opaque_in", z3.BoolSort())
            return z3.Contains(z3.StringVal(container.py), self.to_str(path, item))
        if isinstance(container, SSlice) and isinstance(item, SConst) and isinstance(item.py, str) and len(item.py) == 1:
            if container.maxlen is None:
                raise EngineError(f"'in' on a slice of unbounded length (line {e.lineno})")
            return z3.Or(*[z3.And(container.lo + j < container.hi, z3.Select(container.base.arr, container.lo + j) == ord(item.py))
                           for j in range(container.maxlen)]) if container.maxlen else z3.BoolVal(False)
        if isinstance(container, SOpaque):
            return fresh("opaque_in", z3.BoolSort())
        if isinstance(container, SStr):
            return z3.Contains(container.t, self.to_str(path, item))
        if isinstance(container, SList):
            seq = path.heap.list_get(container)
            try:
                return z3.Contains(seq, z3.Unit(self.elem_term(path, container, item)))
            except EngineError:
                # an item of another kind than the list's elements: certainly absent from an empty list, unknown otherwise
                return z3.And(z3.Length(seq) > 0, fresh("in_other_kind", z3.BoolSort()))
        if isinstance(container, SDict):
            return z3.Select(path.heap.dict_has(container), self.key_term(path, container, item))
        if isinstance(container, SSet) and isinstance(item, SRef):
            return z3.Select(path.heap.set_get(container), item.t)
        raise EngineError(f"'in' on {type(container).__name__} (line {e.lineno})")

    def key_term(self, path, d: SDict, k: Val):
        if d.key == "str":
            if isinstance(k, SNone):
                return z3.StringVal("\x00None")      # None used as a dict key next to str keys
            return self.to_str(path, k)
        if isinstance(k, SInt):
            return k.t
        if isinstance(k, SRef):
            return k.t
        raise EngineError("dict key")

    def ev_Subscript(self, path, e):
        base = self.ev(path, e.value)
        if isinstance(e.slice, ast.Slice):
            return self.slice_of(path, base, e.slice, e)
        idx = self.ev(path, e.slice)
        return self.index(path, base, idx, e)

    def _int(self, v, e=None):
        if isinstance(v, SInt):
            return v.t
        if isinstance(v, SConst) and isinstance(v.py, int):
            return z3.IntVal(v.py)
        raise EngineError(f"expected int, got {type(v).__name__}")

    def index(self, path, base, idx, e):
        if isinstance(base, (SOpaque, SRef)):
            # subscripting an opaque value, or an object the heap model treats as a record (e.g. a `[module, only, renames]` use entry)
            v = self.c.opaque_index(self, path, base, idx, e)
            if v is not None:
                return v
        if isinstance(base, SSplit) and not base.exact and isinstance(idx, SInt) and z3.is_int_value(z3.simplify(idx.t)):
            # s.split(sep, 1)[0 | -1]: the part before / after the first occurrence of sep (the whole string when sep does not occur)
            i = z3.simplify(idx.t).as_long()
            found, at = z3.Contains(base.s, base.sep), z3.IndexOf(base.s, base.sep, 0)
            if i == 0:
                return SStr(z3.If(found, z3.SubString(base.s, 0, at), base.s))
            if i == -1:
                return SStr(z3.If(found, z3.SubString(base.s, at + z3.Length(base.sep), z3.Length(base.s) - at - z3.Length(base.sep)), base.s))
            raise EngineError("index of split(sep, 1) other than 0 / -1")
        if isinstance(base, SSlice):
            i = self._int(idx)
            n = base.hi - base.lo
            self.oblige(path, z3.And(i >= -n, i < n), f"safety.index.{self.lab(e)}", "pre", "string index in range (no IndexError)")
            pos = base.lo + z3.If(i < 0, i + n, i)
            code = z3.Select(base.base.arr, pos)
            path.assume(z3.And(code >= 0, code <= 0x10FFFF))
            return SChar(code, base.base, pos)
        if isinstance(base, SList):
            i = self._int(idx)
            seq = path.heap.list_get(base)
            n = z3.Length(seq)
            self.oblige(path, z3.And(i >= -n, i < n), f"safety.index.{self.lab(e)}", "pre", "list index in range (no IndexError)")
            return self.elem_val(path, base, seq[z3.If(i < 0, i + n, i)])
        if isinstance(base, SDict) and base.val == "vlist":
            return SDictSlot(base, self.key_term(path, base, idx))
        if isinstance(base, SDict) and base.dflt == "list":
            # collections.defaultdict(list): a missing key is inserted with a new empty list
            k = self.key_term(path, base, idx)
            h, vv = path.heap.dict_has(base), path.heap.dict_val(base)
            present = z3.Select(h, k)
            fresh_l = self.new_list(path, [], elem=self.c.dict_list_elem(base))
            lid = z3.If(present, z3.Select(vv, k), fresh_l.id)
            path.heap.dict_set(base, z3.Store(h, k, z3.BoolVal(True)), z3.Store(vv, k, lid))
            return SList(lid, self.c.dict_list_elem(base))
        if isinstance(base, SDict):
            k = self.key_term(path, base, idx)
            present = z3.Select(path.heap.dict_has(base), k)
            if "KeyError" in path.catch:
                raise _Fork(present, "KeyError")
            self.oblige(path, present, f"safety.key.{self.lab(e)}", "pre", "dict key present (no KeyError)")
            return self.dict_value(path, base, z3.Select(path.heap.dict_val(base), k))
        if isinstance(base, SStr):
            i = self._int(idx)
            n = z3.Length(base.t)
            self.oblige(path, z3.And(i >= -n, i < n), f"safety.index.{self.lab(e)}", "pre", "string index in range")
            return SStr(z3.SubString(base.t, z3.If(i < 0, i + n, i), 1))
        if isinstance(base, STuple) and isinstance(idx, SInt) and z3.is_int_value(idx.t):
            return base.items[idx.t.as_long()]
        raise EngineError(f"subscript on {type(base).__name__} (line {e.lineno})")

    def dict_value(self, path, d: SDict, t):
        if d.val == "ref":
            return SRef(t, self.c.dict_class_hint(d))
        if d.val == "str":
            return SStr(t)
        if d.val == "int":
            return SInt(t)
        if d.val == "list":
            return SList(t, self.c.dict_list_elem(d))
        if d.val.startswith("dict:"):
            _, k2, v2 = d.val.split(":", 2)
            return SDict(t, k2, v2)
        raise EngineError(d.val)

    def slice_of(self, path, base, sl: ast.Slice, e):
        if sl.step is not None:
            raise EngineError("slice step")
        if isinstance(base, SSlice):
            n = base.hi - base.lo

            def clamp(x, default):
                if x is None:
                    return default
                t = self._int(self.ev(path, x))
                t = z3.If(t < 0, t + n, t)
                return z3.If(t < 0, 0, z3.If(t > n, n, t))
            a = clamp(sl.lower, z3.IntVal(0))
            b = clamp(sl.upper, n)
            ml = None
            lo_c = sl.lower.value if isinstance(sl.lower, ast.Constant) else (0 if sl.lower is None else None)
            up_c = sl.upper.value if isinstance(sl.upper, ast.Constant) else None
            if isinstance(lo_c, int) and isinstance(up_c, int) and lo_c >= 0 and up_c >= 0:
                ml = max(0, up_c - lo_c)
            if base.maxlen is not None:
                ml = base.maxlen if ml is None else min(ml, base.maxlen)
            return SSlice(base.base, base.lo + a, base.lo + z3.If(b < a, a, b), ml)
        if isinstance(base, (SStr, SConst)):
            s = self.to_str(path, base)
            n = z3.Length(s)

            def clamp(x, default):
                if x is None:
                    return default
                t = self._int(self.ev(path, x))
                t = z3.If(t < 0, t + n, t)
                return z3.If(t < 0, 0, z3.If(t > n, n, t))
            a = clamp(sl.lower, z3.IntVal(0))
            b = clamp(sl.upper, n)
            return SStr(z3.SubString(s, a, z3.If(b < a, 0, b - a)))
        if isinstance(base, SList):
            seq = path.heap.list_get(base)
            n = z3.Length(seq)

            def clamp(x, default):
                if x is None:
                    return default
                t = self._int(self.ev(path, x))
                t = z3.If(t < 0, t + n, t)
                return z3.If(t < 0, 0, z3.If(t > n, n, t))
            a = clamp(sl.lower, z3.IntVal(0))
            b = clamp(sl.upper, n)
            lst = SList(path.heap.new_id(), base.elem, base.base)
            path.heap.list_set(lst, z3.SubSeq(seq, a, z3.If(b < a, 0, b - a)))
            return lst
        if isinstance(base, SOpaque):
            return SOpaque("str")
        raise EngineError(f"slice of {type(base).__name__}")

    def ev_Attribute(self, path, e):
        obj = self.ev(path, e.value)
        return self.getfield(path, obj, e.attr, e)

    def getfield(self, path, obj, name, e=None):
        if isinstance(obj, SOpaque):
            v = self.c.opaque_attr(self, path, obj, name)
            if v is not None:
                return v
        if isinstance(obj, SStr):
            v = self.c.str_attr(self, path, obj, name)
            if v is not None:
                return v
        if not isinstance(obj, SRef):
            raise EngineError(f"attribute .{name} of {type(obj).__name__} (line {getattr(e, 'lineno', '?')})")
        prop = self.c.property_contract(obj, name)
        if prop is not None:
            return prop(self, path, obj)
        return self.read_field(path, obj.t, name)

    def field_kind(self, name):
        k = self.c.fields.get(name)
        if k is None:
            raise EngineError(f"field '{name}' is not declared in the contract's heap model")
        return k

    def field_array(self, path, name):
        h = path.heap
        if name not in h.f:
            kind = self.field_kind(name)
            sort = {"int": z3.IntSort(), "bool": z3.BoolSort(), "str": z3.StringSort(), "ref": z3.IntSort()}.get(kind.split(":")[0], z3.IntSort())
            a = z3.Const(f"H_{name}", z3.ArraySort(z3.IntSort(), sort))
            h.f[name] = a
            h.f0[name] = a
        return h.f[name]

    def read_field(self, path, o, name):
        kind = self.field_kind(name)
        arr = self.field_array(path, name)
        t = z3.Select(arr, o)
        return self.wrap_field(path, kind, t, name, o)

    def wrap_field(self, path, kind, t, name=None, o=None):
        parts = kind.split(":")
        k = parts[0]
        if k == "int":
            return SInt(t)
        if k == "bool":
            return SBool(t)
        if k == "str":
            return SStr(t)
        if k == "ref":
            return SRef(t, parts[1] if len(parts) > 1 else None)
        if k in ("list", "dict") and name is not None and o is not None:
            # well-formedness of the initial heap, instantiated on this object: containers stored in the initial heap
            # were allocated before the call
            base = path.heap.f0[name]
            path.assume(z3.And(z3.Select(base, o) < path.heap.alloc0, z3.Select(base, o) > 0))
        if k == "list":
            return SList(t, ":".join(parts[1:]) if len(parts) > 1 else "ref")
        if k == "dict":
            return SDict(t, parts[1] if len(parts) > 1 else "str", ":".join(parts[2:]) if len(parts) > 2 else "ref")
        if k == "ddict":
            base0 = path.heap.f0[name] if name in path.heap.f0 else None
            if base0 is not None and o is not None:
                path.assume(z3.And(z3.Select(base0, o) < path.heap.alloc0, z3.Select(base0, o) > 0))
            return SDict(t, parts[1] if len(parts) > 1 else "str", ":".join(parts[2:]) if len(parts) > 2 else "list", dflt="list")
        if k == "set":
            if name is not None and o is not None and name in path.heap.f0:
                path.assume(z3.And(z3.Select(path.heap.f0[name], o) < path.heap.alloc0, z3.Select(path.heap.f0[name], o) > 0))
            return SSet(t)
        if k == "opaque":
            return SOpaque(parts[1] if len(parts) > 1 else name, t)
        raise EngineError(f"field kind {kind}")

    def unwrap_for_field(self, path, kind, v):
        k = kind.split(":")[0]
        if k == "int":
            return self._int(v)
        if k == "bool":
            return self.truth(path, v)
        if k == "str":
            if isinstance(v, SNone):
                raise EngineError("None stored into str field")
            return self.to_str(path, v)
        if k == "ref":
            if isinstance(v, SNone):
                return z3.IntVal(0)
            if isinstance(v, SRef):
                return v.t
        if k == "list" and isinstance(v, SList):
            want = kind.split(":", 1)[1] if ":" in kind else "ref"
            if v.elem != want and elem_sort(v.elem) == elem_sort(want if not want.startswith("slice") else "slice"):
                # e.g. `self.x = []`: the literal's element kind is only known from the field it is stored in
                nv = SList(v.id, want, v.base)
                path.heap.list_set(nv, path.heap.list_get(v))
                return nv.id
            return v.id
        if k == "list" and isinstance(v, SConst) and isinstance(v.py, tuple):
            return self.new_list(path, [SConst(x) for x in v.py], elem=kind.split(":", 1)[1] if ":" in kind else "str").id
        if k in ("dict", "ddict") and isinstance(v, SDict):
            return v.id
        if k == "set" and isinstance(v, SSet):
            return v.id
        if k == "opaque":
            if isinstance(v, SOpaque) and v.t is not None:
                return v.t
            return fresh("opaque_store", z3.IntSort())
        raise EngineError(f"cannot store {type(v).__name__} into field of kind {kind}")

    def write_field(self, path, o, name, v):
        kind = self.field_kind(name)
        arr = self.field_array(path, name)
        path.heap.f[name] = z3.Store(arr, o, self.unwrap_for_field(path, kind, v))
        if name in path.heap.has:
            path.heap.has[name] = z3.Store(path.heap.has[name], o, z3.BoolVal(True))

    def has_array(self, path, name):
        if name not in path.heap.has:
            path.heap.has[name] = z3.Const(f"HAS_{name}", z3.ArraySort(z3.IntSort(), z3.BoolSort()))
        return path.heap.has[name]

    # ------------------------------------------------------------------ calls
    def ev_Call(self, path, e):
        f = e.func
        # builtin functions
        if isinstance(f, ast.Name):
            name = f.id
            bm = getattr(self, "bi_" + name, None)
            if bm is not None and name not in path.env:
                return bm(path, e)
            cc = self.c.call_contract(name)
            if cc is not None:
                return cc(self, path, e, [self.ev(path, a) for a in e.args], None)
            raise EngineError(f"call to '{name}' has no contract (line {e.lineno})")
        if isinstance(f, ast.Attribute):
            # dotted module function with a contract, e.g. ford.utils.paren_split
            dotted = _dotted(f)
            if dotted is not None:
                cc = self.c.call_contract(dotted)
                if cc is not None:
                    return cc(self, path, e, [self.ev(path, a) for a in e.args], None)
                if dotted in ("warn", "print", "warnings.warn"):
                    return SNone()
            recv = self.ev(path, f.value)
            mm = getattr(self, f"m_{type(recv).__name__}_{f.attr}", None)
            if mm is not None:
                return mm(path, recv, e)
            cc = self.c.method_contract(recv, f.attr)
            if cc is not None:
                return cc(self, path, e, [self.ev(path, a) for a in e.args], recv)
            raise EngineError(f"method .{f.attr} on {type(recv).__name__} has no model/contract (line {e.lineno})")
        raise EngineError(f"call form not supported (line {e.lineno})")

    def _unrolled_quantifier(self, path, e, op):
        """any(elt for x in (c1, .., cn) [if cond]) / all(..) over a literal tuple / list of constants: the BoolOp of the n instances of elt (Python evaluates them in
        this order and stops early exactly like `or` / `and`)"""
        if len(e.args) != 1 or e.keywords or not isinstance(e.args[0], (ast.GeneratorExp, ast.ListComp)):
            raise EngineError(f"{'any' if isinstance(op, ast.Or) else 'all'}() of something other than a generator expression (line {e.lineno})")
        g = e.args[0]
        if len(g.generators) != 1 or g.generators[0].is_async or not isinstance(g.generators[0].target, ast.Name):
            raise EngineError(f"quantifier over a nested generator (line {e.lineno})")
        it = g.generators[0].iter
        if not (isinstance(it, (ast.Tuple, ast.List)) and all(isinstance(x, ast.Constant) for x in it.elts)):
            raise EngineError(f"quantifier over a non-literal iterable (line {e.lineno})")
        var = g.generators[0].target.id

        class _Sub(ast.NodeTransformer):
            def __init__(self, const):
                self.const = const

            def visit_Name(self, n):
                return ast.copy_location(ast.Constant(self.const.value), n) if n.id == var and isinstance(n.ctx, ast.Load) else n
        import copy as _copy
        inst = []
        for cst in it.elts:
            elt = _Sub(cst).visit(_copy.deepcopy(g.elt))
            for cond in g.generators[0].ifs:
                cnd = _Sub(cst).visit(_copy.deepcopy(cond))
                elt = ast.BoolOp(ast.And(), [cnd, elt]) if isinstance(op, ast.Or) else ast.BoolOp(ast.Or(), [ast.UnaryOp(ast.Not(), cnd), elt])
            inst.append(elt)
        if not inst:
            return SBool(z3.BoolVal(isinstance(op, ast.And)))
        node = inst[0] if len(inst) == 1 else ast.BoolOp(op, inst)
        ast.copy_location(node, e)
        ast.fix_missing_locations(node)
        return SBool(self.truth(path, self.ev(path, node)))

    def _minmax(self, path, e, is_max):
        vals = [self.ev(path, a) for a in e.args]
        if len(vals) < 2 or e.keywords or not all(isinstance(v, SInt) for v in vals):
            raise EngineError(f"{'max' if is_max else 'min'}() of something other than two or more integers (line {e.lineno})")
        r = vals[0].t
        for v in vals[1:]:
            r = z3.If(v.t > r, v.t, r) if is_max else z3.If(v.t < r, v.t, r)
        return SInt(r)

    def bi_max(self, path, e):
        return self._minmax(path, e, True)

    def bi_min(self, path, e):
        return self._minmax(path, e, False)

    def bi_any(self, path, e):
        return self._unrolled_quantifier(path, e, ast.Or())

    def bi_all(self, path, e):
        return self._unrolled_quantifier(path, e, ast.And())

    def bi_len(self, path, e):
        v = self.ev(path, e.args[0])
        if isinstance(v, SSlice):
            return SInt(v.hi - v.lo)
        if isinstance(v, SStr):
            return SInt(z3.Length(v.t))
        if isinstance(v, SConst):
            return SInt(z3.IntVal(len(v.py)))
        if isinstance(v, SList):
            return SInt(z3.Length(path.heap.list_get(v)))
        if isinstance(v, SChar):
            return SInt(z3.IntVal(1))
        if isinstance(v, SSet):
            c = CARD(path.heap.set_get(v))
            path.assume(c >= 0)
            return SInt(c)
        raise EngineError(f"len of {type(v).__name__}")

    def bi_str(self, path, e):
        v = self.ev(path, e.args[0])
        if isinstance(v, SInt):
            return SStr(z3.IntToStr(v.t))
        if isinstance(v, (SStr, SConst)):
            return SStr(self.to_str(path, v))
        raise EngineError("str() of " + type(v).__name__)

    def bi_set(self, path, e):
        if e.args:
            raise EngineError("set(iterable)")
        st = SSet(path.heap.new_id())
        empty = z3.K(z3.IntSort(), z3.BoolVal(False))
        path.heap.set_put(st, empty)
        path.assume(CARD(empty) == 0)
        return st

    def m_SSet_add(self, path, st, e):
        v = self.ev(path, e.args[0])
        if not isinstance(v, SRef):
            raise EngineError("set.add of a non-object")
        old = path.heap.set_get(st)
        new = z3.Store(old, v.t, z3.BoolVal(True))
        path.assume(CARD(new) == CARD(old) + z3.If(z3.Select(old, v.t), 0, 1))
        path.heap.set_put(st, new)
        return SNone()

    def m_SSet_update(self, path, st, e):
        o = self.ev(path, e.args[0])
        if not isinstance(o, SSet):
            raise EngineError("set.update with a non-set")
        a, b = path.heap.set_get(st), path.heap.set_get(o)
        new = map_or(a, b)
        path.assume(z3.And(CARD(new) >= CARD(a), CARD(new) >= CARD(b), CARD(new) <= CARD(a) + CARD(b)))
        path.heap.set_put(st, new)
        return SNone()

    def bi_sorted(self, path, e):
        v = self.ev(path, e.args[0])
        if isinstance(v, SSet):
            # some enumeration of the set: a fresh sequence of its members (every element read carries membership)
            lst = SList(path.heap.new_id(), "ref")
            seq = fresh("sorted", z3.SeqSort(z3.IntSort()))
            path.heap.list_set(lst, seq)
            path.assume(z3.Length(seq) == CARD(path.heap.set_get(v)))
            lst.members_of = v
            return lst
        if isinstance(v, SList):
            lst = SList(path.heap.new_id(), v.elem, v.base)
            path.heap.list_set(lst, fresh("sorted", z3.SeqSort(elem_sort(v.elem))))
            path.assume(z3.Length(path.heap.list_get(lst)) == z3.Length(path.heap.list_get(v)))
            return lst
        raise EngineError("sorted() of " + type(v).__name__)

    def ev_DictComp(self, path, e):
        return SOpaque("dict")       # a pure comprehension whose value the contracts never inspect

    def bi_StringIO(self, path, e):
        """io.StringIO() used as a character accumulator: modelled as a list of code points"""
        if e.args:
            raise EngineError("StringIO(initial)")
        return self.new_list(path, [], e, elem="char")

    def bi_print(self, path, e):
        return self._message_call(path, e)

    def bi_warn(self, path, e):
        return self._message_call(path, e)

    def _message_call(self, path, e):
        """print / warn: dropped by the extraction, unless the contract asks for the safety obligations of building the message (indexing, keys)"""
        if getattr(self.c, "check_message_args", False):
            for a in e.args:
                try:
                    self.ev(path, a)
                except EngineError:
                    pass          # the text itself is outside the subset; obligations emitted while evaluating its parts stay
        return SNone()

    def bi_bool(self, path, e):
        return SBool(self.truth(path, self.ev(path, e.args[0])))

    def bi_isinstance(self, path, e):
        v = self.ev(path, e.args[0])
        if isinstance(e.args[1], ast.Name) and isinstance(self.c.globals.get(e.args[1].id), SConst):
            clsnames = list(self.c.globals[e.args[1].id].py)       # a module-level tuple of classes
        else:
            clsnames = _class_names(e.args[1])
        if isinstance(v, SRef):
            return SBool(self.c.isinstance_term(self, path, v, clsnames))
        if isinstance(v, (SStr, SConst)) and clsnames == ["str"]:
            return SBool(z3.BoolVal(True))
        if clsnames == ["str"]:
            return SBool(z3.BoolVal(False))
        if clsnames == ["bool"]:
            return SBool(z3.BoolVal(isinstance(v, SBool)))
        raise EngineError(f"isinstance on {type(v).__name__}")

    def bi_hasattr(self, path, e):
        v = self.ev(path, e.args[0])
        name = e.args[1].value
        if isinstance(v, SRef):
            return SBool(z3.And(v.t != 0, z3.Select(self.has_array(path, name), v.t)))
        raise EngineError("hasattr on non-object")

    def bi_getattr(self, path, e):
        v = self.ev(path, e.args[0])
        if isinstance(e.args[1], ast.Constant):
            name = e.args[1].value
        else:
            nv = self.ev(path, e.args[1])
            if not (isinstance(nv, SConst) and isinstance(nv.py, str)):
                raise EngineError("getattr with non-constant name")
            name = nv.py
        if len(e.args) == 2:
            return self.getfield(path, v, name, e)
        default = self.ev(path, e.args[2])
        if isinstance(v, SNone):
            return default
        if not isinstance(v, SRef):
            raise EngineError("getattr on non-object")
        c = z3.And(v.t != 0, z3.Select(self.has_array(path, name), v.t))
        kind = self.field_kind(name)
        fv = self.read_field(path, v.t, name)
        if isinstance(default, SConst) and default.py == () and isinstance(fv, SList):
            default = self.new_list(path, [], elem=fv.elem)
        if isinstance(default, SNone) and isinstance(fv, SList):
            raise EngineError("getattr default None for list")
        if isinstance(default, SDict) and isinstance(fv, SDict):
            default.key, default.val = fv.key, fv.val
        if isinstance(default, SList) and isinstance(fv, SList) and default.elem != fv.elem:
            default = self.new_list(path, [], elem=fv.elem)
        if isinstance(fv, SBool) and isinstance(default, SBool):
            return SBool(z3.If(c, fv.t, default.t))
        return self.ite(path, c, fv, default)

    def bi_list(self, path, e):
        if not e.args:
            return self.new_list(path, [], e)
        v = self.ev(path, e.args[0])
        if isinstance(v, SList):
            lst = SList(path.heap.new_id(), v.elem, v.base)
            path.heap.list_set(lst, path.heap.list_get(v))
            return lst
        raise EngineError("list() of non-list")

    def bi_dict(self, path, e):
        if not e.args:
            return self.new_dict(path, e)
        v = self.ev(path, e.args[0])
        if isinstance(v, SDict):
            d = SDict(path.heap.new_id(), v.key, v.val)
            path.heap.dict_set(d, path.heap.dict_has(v), path.heap.dict_val(v))
            return d
        raise EngineError("dict() of non-dict")

    # ---- list methods
    def m_SList_append(self, path, lst, e):
        v = self.ev(path, e.args[0])
        path.heap.list_set(lst, z3.Concat(path.heap.list_get(lst), z3.Unit(self.elem_term(path, lst, v))))
        return SNone()

    def m_SList_extend(self, path, lst, e):
        v = self.ev(path, e.args[0])
        if isinstance(v, SList) and v.elem == lst.elem:
            path.heap.list_set(lst, z3.Concat(path.heap.list_get(lst), path.heap.list_get(v)))
            return SNone()
        raise EngineError("extend with non-list")

    def m_SList_write(self, path, lst, e):
        if lst.elem != "char":
            raise EngineError("write on a non-buffer")
        v = self.ev(path, e.args[0])
        if not isinstance(v, SChar):
            raise EngineError("StringIO.write of a non-character")
        path.heap.list_set(lst, z3.Concat(path.heap.list_get(lst), z3.Unit(v.code)))
        return SNone()

    def m_SList_getvalue(self, path, lst, e):
        if lst.elem != "char":
            raise EngineError("getvalue on a non-buffer")
        return SSeqStr(path.heap.list_get(lst))

    def m_SList_copy(self, path, lst, e):
        n = SList(path.heap.new_id(), lst.elem, lst.base)
        path.heap.list_set(n, path.heap.list_get(lst))
        return n

    def m_SList_remove(self, path, lst, e):
        """list.remove(x): removes the first occurrence; ValueError if absent"""
        v = self.ev(path, e.args[0])
        x = self.elem_term(path, lst, v)
        seq = path.heap.list_get(lst)
        present = z3.Contains(seq, z3.Unit(x))
        if "ValueError" in path.catch:
            raise _Fork(present, "ValueError")
        self.oblige(path, present, f"safety.remove.{self.lab(e)}", "pre", "list.remove(x): x in list (no ValueError)")
        i = z3.IndexOf(seq, z3.Unit(x), 0)
        path.heap.list_set(lst, z3.Concat(z3.SubSeq(seq, 0, i), z3.SubSeq(seq, i + 1, z3.Length(seq) - i - 1)))
        return SNone()

    def m_SList_insert(self, path, lst, e):
        i = self._int(self.ev(path, e.args[0]))
        v = self.ev(path, e.args[1])
        seq = path.heap.list_get(lst)
        n = z3.Length(seq)
        j = z3.If(i < 0, z3.If(i + n < 0, 0, i + n), z3.If(i > n, n, i))
        path.heap.list_set(lst, z3.Concat(z3.SubSeq(seq, 0, j), z3.Unit(self.elem_term(path, lst, v)), z3.SubSeq(seq, j, n - j)))
        return SNone()

    def m_SList_pop(self, path, lst, e):
        seq = path.heap.list_get(lst)
        n = z3.Length(seq)
        if e.args:
            i = self._int(self.ev(path, e.args[0]))
        else:
            i = n - 1
        self.oblige(path, z3.And(n > 0, i >= -n, i < n), f"safety.pop.{self.lab(e)}", "pre", "pop from non-empty list / index in range")
        j = z3.If(i < 0, i + n, i)
        val = self.elem_val(path, lst, seq[j])
        path.heap.list_set(lst, z3.Concat(z3.SubSeq(seq, 0, j), z3.SubSeq(seq, j + 1, n - j - 1)))
        return val

    def m_SDictSlot_append(self, path, slot, e):
        v = self.ev(path, e.args[0])
        d = slot.d
        h, vv = path.heap.dict_has(d), path.heap.dict_val(d)
        cur = z3.If(z3.Select(h, slot.key), z3.Select(vv, slot.key), z3.Empty(z3.SeqSort(z3.IntSort())))
        path.heap.dict_set(d, z3.Store(h, slot.key, z3.BoolVal(True)), z3.Store(vv, slot.key, z3.Concat(cur, z3.Unit(sid(path, self.to_str(path, v))))))
        return SNone()

    def bi_defaultdict(self, path, e):
        return SDict(self._fresh_dict_id(path, "str", "vlist"), "str", "vlist", dflt="list")

    def _fresh_dict_id(self, path, key, val):
        d = SDict(path.heap.new_id(), key, val)
        ks, vs = path.heap._dsorts(d)
        path.heap.dict_set(d, z3.K(ks, z3.BoolVal(False)), z3.K(ks, z3.Empty(vs) if val == "vlist" else z3.IntVal(0)))
        return d.id

    # ---- regex objects (opaque): PATTERN.match(s) -> SMatch
    def m_SOpaque_match(self, path, rx, e):
        if rx.tag != "regex":
            raise EngineError("match on a non-regex")
        return SMatch(rx.t, self.to_str(path, self.ev(path, e.args[0])))

    def m_SMatch_start(self, path, m, e):
        g = e.args[0].value if e.args and isinstance(e.args[0], ast.Constant) else 0
        return SInt(self.c.regex_start(m.rx, g, m.s))

    def m_SMatch_group(self, path, m, e):
        g = e.args[0].value if e.args and isinstance(e.args[0], ast.Constant) else 0
        return SStr(self.c.regex_group(m.rx, g, m.s))

    # ---- dict methods
    def m_SDict_get(self, path, d, e):
        k = self.key_term(path, d, self.ev(path, e.args[0]))
        present = z3.Select(path.heap.dict_has(d), k)
        val = self.dict_value(path, d, z3.Select(path.heap.dict_val(d), k))
        default = self.ev(path, e.args[1]) if len(e.args) > 1 else SNone()
        return self.ite(path, present, val, default)

    def m_SDict_setdefault(self, path, d, e):
        kv = self.ev(path, e.args[0])
        k = self.key_term(path, d, kv)
        default = self.ev(path, e.args[1]) if len(e.args) > 1 else SNone()
        present = z3.Select(path.heap.dict_has(d), k)
        dt = self.dict_store_term(path, d, default)
        h, v = path.heap.dict_has(d), path.heap.dict_val(d)
        path.heap.dict_set(d, z3.Store(h, k, z3.BoolVal(True)), z3.If(present, v, z3.Store(v, k, dt)))
        return self.dict_value(path, d, z3.Select(path.heap.dict_val(d), k))

    def m_SDict_copy(self, path, d, e):
        n = SDict(path.heap.new_id(), d.key, d.val)
        path.heap.dict_set(n, path.heap.dict_has(d), path.heap.dict_val(d))
        return n

    def m_SDict_update(self, path, d, e):
        o = self.ev(path, e.args[0])
        if not isinstance(o, SDict):
            raise EngineError("dict.update with non-dict")
        self._dict_update(path, d, o)
        return SNone()

    # ---- str methods (z3 String)
    def m_SStr_lower(self, path, s, e):
        return SStr(self.c.lower(s.t))

    def m_SConst_join(self, path, s, e):
        """sep.join(list of str) for a list whose length is determined on this path (built by a literal and appends): exact concatenation"""
        v = self.ev(path, e.args[0])
        if not (isinstance(v, SList) and v.elem == "str" and isinstance(s.py, str)):
            raise EngineError("join of other than a list of str")
        seq = path.heap.list_get(v)
        n = z3.simplify(z3.Length(seq))
        if not z3.is_int_value(n) or n.as_long() > 8:
            # length not fixed on the path: the uninterpreted STRJOIN, whose defining equations the contract instantiates where it needs them
            return SStr(STRJOIN(z3.StringVal(s.py), seq))
        parts = []
        for i in range(n.as_long()):
            if i:
                parts.append(z3.StringVal(s.py))
            parts.append(STR_OF(z3.simplify(seq[i])))
        if not parts:
            return SConst("")
        return SStr(z3.Concat(*parts) if len(parts) > 1 else parts[0])

    def m_SConst_lower(self, path, s, e):
        return SConst(s.py.lower())

    def m_SStr_replace(self, path, s, e):
        a, b = self.to_str(path, self.ev(path, e.args[0])), self.to_str(path, self.ev(path, e.args[1]))
        return SStr(self.c.replace_all(s.t, a, b))

    def m_SStr_startswith(self, path, s, e):
        return SBool(z3.PrefixOf(self.to_str(path, self.ev(path, e.args[0])), s.t))

    def m_SStr_endswith(self, path, s, e):
        return SBool(z3.SuffixOf(self.to_str(path, self.ev(path, e.args[0])), s.t))

    def m_SStr_rstrip(self, path, s, e):
        if e.args:
            # rstrip(chars): uninterpreted, with ground facts true of str.rstrip: a prefix of the subject that does not end in a stripped character
            ch = self.ev(path, e.args[0])
            r = RSTRIPCH(s.t, self.to_str(path, ch))
            path.assume(z3.PrefixOf(r, s.t))
            if isinstance(ch, SConst) and isinstance(ch.py, str):
                for c1 in ch.py:
                    path.assume(z3.Not(z3.SuffixOf(z3.StringVal(c1), r)))
            return SStr(r)
        return SStr(self.c.rstrip(s.t))

    def m_SStr_split(self, path, s, e):
        if len(e.args) == 2 and isinstance(e.args[1], ast.Constant) and e.args[1].value == 1:
            return SSplit(s.t, self.to_str(path, self.ev(path, e.args[0])))
        if len(e.args) == 1:
            return SSplit(s.t, self.to_str(path, self.ev(path, e.args[0])), exact=True)
        raise EngineError("str.split form not supported (only split(sep[, 1]))")

    def m_SStr_lstrip(self, path, s, e):
        if e.args:
            raise EngineError("lstrip(chars)")
        return SStr(self.c.lstrip(s.t))

    def m_SStr_strip(self, path, s, e):
        if e.args:
            return SStr(self.c.strip_chars(s.t, self.to_str(path, self.ev(path, e.args[0]))))
        r = self.c.strip(s.t)
        # ground instances of facts true of str.strip: it never lengthens, and is idempotent
        path.assume(z3.And(z3.Length(r) <= z3.Length(s.t), self.c.strip(r) == r))
        return SStr(r)

    # ---- scanned-slice methods
    def m_SSlice_lower(self, path, s, e):
        return SLower(s)

    def _opaque_str(self, path, s, e):
        for a in e.args:
            self.ev(path, a)
        return SOpaque("str")
    m_SSlice_strip = m_SSlice_rstrip = m_SSlice_upper = m_SSlice_ljust = _opaque_str

    def m_SSlice_lstrip(self, path, s, e):
        """s.lstrip() without arguments on a scanned string: the slice that starts at the first character that is not white space.  The start index is the uninterpreted
        FIRST_NONBLANK(arr, lo, hi) (library contract of str.lstrip) with the ground facts lo <= r <= hi, r < hi => arr[r] is not white space, and - for a short
        statically bounded prefix - the characters before r are white space"""
        if e.args:
            return self._opaque_str(path, s, e)
        from .contract import FIRST_NONBLANK
        r = FIRST_NONBLANK(s.base.arr, s.lo, s.hi)
        path.assume(z3.And(s.lo <= r, r <= s.hi, z3.Implies(r < s.hi, z3.Not(self.c.isspace_char(z3.Select(s.base.arr, r))))))
        for j in range(8):
            path.assume(z3.Implies(s.lo + j < r, self.c.isspace_char(z3.Select(s.base.arr, s.lo + j))))
        return SSlice(s.base, r, s.hi)
    m_SOpaque_strip = m_SOpaque_rstrip = m_SOpaque_lstrip = m_SOpaque_lower = m_SOpaque_upper = m_SOpaque_ljust = _opaque_str
    m_SLower_strip = m_SLower_rstrip = _opaque_str

    def m_SOpaque_isspace(self, path, s, e):
        return SBool(fresh("opaque_isspace", z3.BoolSort()))

    def m_SSlice_isspace(self, path, s, e):
        if s.maxlen is None or s.maxlen > 8:
            return SBool(fresh("isspace", z3.BoolSort()))
        n = s.hi - s.lo
        conj = [n >= 1]
        for j in range(s.maxlen):
            conj.append(z3.Implies(j < n, self.c.isspace_char(z3.Select(s.base.arr, s.lo + j))))
        return SBool(z3.And(*conj))

    def m_SChar_isspace(self, path, ch, e):
        return SBool(self.c.isspace_char(ch.code))

    # ---- char methods
    def m_SChar_isalpha(self, path, ch, e):
        c = ch.code
        # ASCII letters exactly; for non-ASCII code points isalpha is left uninterpreted
        return SBool(z3.If(c < 128, z3.Or(z3.And(c >= 65, c <= 90), z3.And(c >= 97, c <= 122)), self.c.isalpha_hi(c)))

    # ------------------------------------------------------------------ statements
    def exec_block(self, stmts, path) -> list[Outcome]:
        outs = [Outcome("normal", path)]
        for st in stmts:
            nxt = []
            for o in outs:
                if o.kind != "normal":
                    nxt.append(o)
                    continue
                nxt.extend(self.exec_stmt(st, o.path))
            outs = nxt
            if len([o for o in outs if o.kind == "normal"]) > 400:
                raise EngineError("path explosion (>400 live paths)")
        return outs

    def exec_stmt(self, st, path) -> list[Outcome]:
        try:
            m = getattr(self, "st_" + type(st).__name__, None)
            if m is None:
                raise EngineError(f"statement {type(st).__name__} not supported (line {st.lineno})")
            return m(st, path)
        except _Raise as rz:
            outs = []
            if self.feasible(path, z3.Not(rz.cond)):
                bad = path.clone()
                bad.assume(z3.Not(rz.cond))
                outs.append(Outcome("raise", bad, rz.exc))
            if self.feasible(path, rz.cond):
                ok = path.clone()
                ok.assume(rz.cond)
                ok.noraise = getattr(ok, "noraise", set()) | {rz.exc}
                res = self.exec_stmt(st, ok)
                for o in res:
                    if hasattr(o.path, "noraise"):
                        o.path.noraise = set(o.path.noraise) - {rz.exc}
                outs.extend(res)
            return outs
        except _Fork as fk:
            # an implicit exception inside a handler context: fork on its condition, re-execute the statement on the
            # 'no exception' side with the condition assumed
            outs = []
            ok = path.clone()
            ok.assume(fk.cond)
            bad = path.clone()
            bad.assume(z3.Not(fk.cond))
            if self.feasible(path, fk.cond):
                saved = ok.catch
                ok.catch = [c for c in ok.catch if c != fk.exc] + ["!" + fk.exc]
                outs.extend(self.exec_stmt_assuming(st, ok, fk))
                for o in outs:
                    o.path.catch = [c for c in o.path.catch if c != "!" + fk.exc]
                    if fk.exc not in o.path.catch and fk.exc in saved:
                        o.path.catch = list(saved)
            if self.feasible(path, z3.Not(fk.cond)):
                outs.append(Outcome("raise", bad, fk.exc))
            return outs

    def exec_stmt_assuming(self, st, path, fk):
        # re-run the statement; the key/element is now known to be present, so the safety obligation is trivially true
        m = getattr(self, "st_" + type(st).__name__)
        return m(st, path)

    def st_Expr(self, st, path):
        if isinstance(st.value, ast.Constant):
            return [Outcome("normal", path)]
        self.ev(path, st.value)
        return [Outcome("normal", path)]

    def st_FunctionDef(self, st, path):
        if st.name in getattr(self.c, "closure_contracts", ()):
            # this helper has a contract of its own (verified separately): calls go through the contract's call hook, the body is not inlined
            return [Outcome("normal", path)]
        path.env[st.name] = SFunc(st)
        return [Outcome("normal", path)]

    def _local_call(self, path, e):
        """(func, args) if e is a call of a closure defined in the function under contract"""
        if isinstance(e, ast.Call) and isinstance(e.func, ast.Name) and isinstance(path.env.get(e.func.id), SFunc):
            return path.env[e.func.id], e
        return None

    def call_local(self, path, func: SFunc, call):
        """execute a closure in line; returns [(kind, path, value)] with kind in value | raise"""
        args = [self.ev(path, a) for a in call.args]
        outer = dict(path.env)
        params = [a.arg for a in func.node.args.args]
        for pn, av in zip(params, args):
            path.env[pn] = av
        res = []
        for o in self.exec_block(func.node.body, path):
            env_after = dict(outer)
            # nonlocal effects are not supported: names of the enclosing function keep their values
            o.path.env = env_after
            if o.kind == "return":
                res.append(("value", o.path, o.value))
            elif o.kind == "normal":
                res.append(("value", o.path, SNone()))
            elif o.kind == "raise":
                res.append(("raise", o.path, o.value))
            else:
                raise EngineError("break/continue leaving a closure")
        return res

    def st_Pass(self, st, path):
        return [Outcome("normal", path)]

    def st_Assign(self, st, path):
        lc = self._local_call(path, st.value)
        if lc is not None:
            outs = []
            for kind, p2, val in self.call_local(path, *lc):
                if kind == "raise":
                    outs.append(Outcome("raise", p2, val))
                else:
                    for tgt in st.targets:
                        self.assign(p2, tgt, val)
                    outs.append(Outcome("normal", p2))
            return outs
        v = self.ev(path, st.value)
        for tgt in st.targets:
            self.assign(path, tgt, v)
        return [Outcome("normal", path)]

    def st_AnnAssign(self, st, path):
        if st.value is None:
            return [Outcome("normal", path)]
        v = self.ev(path, st.value)
        self.assign(path, st.target, v, ann=st.annotation)
        return [Outcome("normal", path)]

    def st_AugAssign(self, st, path):
        cur = self.ev(path, st.target)
        rhs = self.ev(path, st.value)
        if isinstance(cur, SList) and isinstance(st.op, ast.Add) and isinstance(rhs, SList):
            path.heap.list_set(cur, z3.Concat(path.heap.list_get(cur), path.heap.list_get(rhs)))
            return [Outcome("normal", path)]
        fake = ast.BinOp(left=st.target, op=st.op, right=st.value)
        ast.copy_location(fake, st)
        fake.left = _as_load(st.target)
        v = self.ev(path, fake)
        self.assign(path, st.target, v)
        return [Outcome("normal", path)]

    def assign(self, path, tgt, v, ann=None):
        if isinstance(tgt, ast.Name):
            decl = self.c.local_types.get(tgt.id)
            if decl is not None:
                v = decl.coerce(self, path, v)
            path.env[tgt.id] = v
            return
        if isinstance(tgt, ast.Attribute):
            obj = self.ev(path, tgt.value)
            if not isinstance(obj, SRef):
                raise EngineError("attribute assignment on non-object")
            setter = self.c.property_setter(obj, tgt.attr)
            if setter is not None:
                setter(self, path, obj, v)
                return
            self.write_field(path, obj.t, tgt.attr, v)
            return
        if isinstance(tgt, ast.Subscript):
            base = self.ev(path, tgt.value)
            if isinstance(base, SDict):
                k = self.key_term(path, base, self.ev(path, tgt.slice))
                h, val = path.heap.dict_has(base), path.heap.dict_val(base)
                vt = self.dict_store_term(path, base, v)
                path.heap.dict_set(base, z3.Store(h, k, z3.BoolVal(True)), z3.Store(val, k, vt))
                return
            if isinstance(base, SList) and not isinstance(tgt.slice, ast.Slice):
                i = self._int(self.ev(path, tgt.slice))
                seq = path.heap.list_get(base)
                n = z3.Length(seq)
                self.oblige(path, z3.And(i >= -n, i < n), f"safety.setitem.{self.lab(tgt)}", "pre", "list assignment index in range")
                j = z3.If(i < 0, i + n, i)
                path.heap.list_set(base, z3.Concat(z3.SubSeq(seq, 0, j), z3.Unit(self.elem_term(path, base, v)), z3.SubSeq(seq, j + 1, n - j - 1)))
                return
            raise EngineError("subscript assignment form")
        if isinstance(tgt, (ast.Tuple, ast.List)) and isinstance(v, SSplit):
            if len(tgt.elts) != 2:
                raise EngineError("unpacking split(sep, 1) into other than two names")
            found = z3.Contains(v.s, v.sep)
            if v.exact:
                i0 = z3.IndexOf(v.s, v.sep, 0)
                rest = z3.SubString(v.s, i0 + z3.Length(v.sep), z3.Length(v.s))
                found = z3.And(found, z3.Not(z3.Contains(rest, v.sep)))
            if "ValueError" in path.catch:
                raise _Fork(found, "ValueError")
            if "!ValueError" not in path.catch:
                self.oblige(path, found, f"safety.unpack.{self.lab(tgt)}", "pre", "split(sep, 1) yields two parts (no ValueError on unpacking)")
            i = z3.IndexOf(v.s, v.sep, 0)
            self.assign(path, tgt.elts[0], SStr(z3.SubString(v.s, 0, i)))
            self.assign(path, tgt.elts[1], SStr(z3.SubString(v.s, i + z3.Length(v.sep), z3.Length(v.s) - i - z3.Length(v.sep))))
            return
        if isinstance(tgt, (ast.Tuple, ast.List)):
            if isinstance(v, STuple) and len(v.items) == len(tgt.elts):
                for t, x in zip(tgt.elts, v.items):
                    self.assign(path, t, x)
                return
            raise EngineError("tuple unpacking of non-tuple")
        raise EngineError(f"assignment target {type(tgt).__name__}")

    def dict_store_term(self, path, d, v):
        if d.val == "ref":
            if isinstance(v, SRef):
                return v.t
            if isinstance(v, SNone):
                return z3.IntVal(0)
        if d.val == "str":
            return self.to_str(path, v)
        if d.val == "int":
            return self._int(v)
        if d.val == "list" and isinstance(v, SList):
            return v.id
        if d.val.startswith("dict:") and isinstance(v, SDict):
            _, k2, v2 = d.val.split(":", 2)
            v.key, v.val = k2, v2
            # re-home the freshly created empty dict in the right content map
            ks, vs = path.heap._dsorts(v)
            dflt = z3.StringVal("") if vs == z3.StringSort() else z3.IntVal(0)
            path.heap.dict_set(v, z3.K(ks, z3.BoolVal(False)), z3.K(ks, dflt))
            return v.id
        raise EngineError(f"dict of {d.val} <- {type(v).__name__}")

    def st_Delete(self, st, path):
        for tgt in st.targets:
            if isinstance(tgt, ast.Attribute):
                obj = self.ev(path, tgt.value)
                ha = self.has_array(path, tgt.attr)
                path.heap.has[tgt.attr] = z3.Store(ha, obj.t, z3.BoolVal(False))
            elif isinstance(tgt, ast.Subscript):
                base = self.ev(path, tgt.value)
                if not isinstance(base, SDict):
                    raise EngineError("del on non-dict subscript")
                k = self.key_term(path, base, self.ev(path, tgt.slice))
                present = z3.Select(path.heap.dict_has(base), k)
                if "KeyError" in path.catch:
                    raise _Fork(present, "KeyError")
                if "!KeyError" not in path.catch:
                    self.oblige(path, present, f"safety.delkey.{self.lab(st)}", "pre", "del d[k]: key present")
                path.heap.dict_set(base, z3.Store(path.heap.dict_has(base), k, z3.BoolVal(False)), path.heap.dict_val(base))
            elif isinstance(tgt, ast.Name):
                path.env.pop(tgt.id, None)
            else:
                raise EngineError("del target")
        return [Outcome("normal", path)]

    def st_Return(self, st, path):
        lc = self._local_call(path, st.value) if st.value is not None else None
        if lc is not None:
            return [Outcome("raise", p2, val) if kind == "raise" else Outcome("return", p2, val) for kind, p2, val in self.call_local(path, *lc)]
        v = self.ev(path, st.value) if st.value is not None else SNone()
        return [Outcome("return", path, v)]

    def st_Raise(self, st, path):
        name = "Exception"
        if st.exc is not None:
            ex = st.exc
            if isinstance(ex, ast.Call):
                ex = ex.func
            if isinstance(ex, ast.Name):
                name = ex.id
            elif isinstance(ex, ast.Attribute):
                name = ex.attr
        return [Outcome("raise", path, name)]

    def st_Break(self, st, path):
        return [Outcome("break", path)]

    def st_Continue(self, st, path):
        return [Outcome("continue", path)]

    def st_If(self, st, path):
        cv = self.ev(path, st.test)
        c = z3.simplify(self.truth(path, cv))
        outs = []
        tf = self.feasible(path, c)
        ff = self.feasible(path, z3.Not(c))
        if tf:
            p1 = path.clone() if ff else path
            p1.assume(c)
            p1.trace.append(f"{self.lab(st)}:T")
            outs.extend(self.exec_block(st.body, p1))
        if ff:
            p2 = path
            p2.assume(z3.Not(c))
            p2.trace.append(f"{self.lab(st)}:F")
            outs.extend(self.exec_block(st.orelse, p2) if st.orelse else [Outcome("normal", p2)])
        return outs

    def st_With(self, st, path):
        # only `with suppress(Exc, ...)` is supported
        if len(st.items) == 1 and isinstance(st.items[0].context_expr, ast.Call) and \
                getattr(st.items[0].context_expr.func, "id", None) == "suppress":
            names = [a.id for a in st.items[0].context_expr.args if isinstance(a, ast.Name)]
            path.catch = path.catch + names
            outs = self.exec_block(st.body, path)
            res = []
            for o in outs:
                for n in names:
                    if n in o.path.catch:
                        o.path.catch = list(o.path.catch)
                        o.path.catch.remove(n)
                if o.kind == "raise" and o.value in names:
                    res.append(Outcome("normal", o.path))
                else:
                    res.append(o)
            return res
        raise EngineError(f"with-statement form not supported (line {st.lineno})")

    def st_Try(self, st, path):
        if st.finalbody:
            raise EngineError("try/finally")
        names = []
        for h in st.handlers:
            if h.type is None:
                raise EngineError("bare except")
            names.extend(_class_names(h.type))
        path.catch = path.catch + names
        outs = self.exec_block(st.body, path)
        res = []
        for o in outs:
            o.path.catch = [c for c in o.path.catch]
            for n in names:
                if n in o.path.catch:
                    o.path.catch.remove(n)
            if o.kind == "raise":
                handled = False
                for h in st.handlers:
                    hn = _class_names(h.type)
                    if o.value in hn or "Exception" in hn or self.c.exc_subclass(o.value, hn):
                        if h.name:
                            o.path.env[h.name] = SOpaque("exception")
                        res.extend(self.exec_block(h.body, o.path))
                        handled = True
                        break
                if not handled:
                    res.append(o)
            elif o.kind == "normal" and st.orelse:
                res.extend(self.exec_block(st.orelse, o.path))
            else:
                res.append(o)
        return res

    # ---- loops
    def st_While(self, st, path):
        return self.loop(st, path, kind="while")

    def st_For(self, st, path):
        return self.loop(st, path, kind="for")

    def loop(self, st, path, kind):
        if kind == "for":
            lit = self.literal_items(path, st.iter)
            if lit is not None:
                # iteration over a literal tuple/list/dict display: finite, unrolled exactly (takes no loop ordinal)
                outs = [Outcome("normal", path)]
                for item in lit:
                    nxt = []
                    for o in outs:
                        if o.kind != "normal":
                            nxt.append(o)
                            continue
                        self.assign(o.path, st.target, item)
                        for o2 in self.exec_block(st.body, o.path):
                            if o2.kind == "continue":
                                o2 = Outcome("normal", o2.path)
                            if o2.kind == "break":
                                o2 = Outcome("_done", o2.path)
                            nxt.append(o2)
                    outs = nxt
                return [Outcome("normal", o.path) if o.kind == "_done" else o for o in outs]
        key = id(st)
        if key not in self.loop_ids:
            self.loop_ids[key] = self.loop_ord
            self.loop_ord += 1
        ordn = self.loop_ids[key]
        spec: LoopSpec = self.c.loops.get(ordn)
        if spec is None:
            raise EngineError(f"loop #{ordn} (line {st.lineno}) has no invariant in the contract")
        kname = f"_k{ordn}"
        it = None
        if kind == "for":
            it = self.iter_source(path, st.iter, ordn)
            path.env[kname] = SInt(z3.IntVal(0))
        # 1. invariant holds on entry
        self.check_inv(path, spec, ordn, "init", it)
        # 2. havoc
        head = path.clone()
        mod = _assigned_names(st.body) | ({kname} if kind == "for" else set())
        if kind == "for":
            mod |= _target_names(st.target)
        for name in sorted(mod):
            decl = spec.types.get(name) or self.c.local_types.get(name)
            if name in head.env or decl is not None:
                cur = head.env.get(name)
                head.env[name] = decl.fresh(self, head, name) if decl is not None else self.fresh_like(head, cur, name)
            # names first bound inside the body are not live at the head
        if kind == "for":
            for tn in _target_names(st.target):
                head.env.pop(tn, None)
        self.havoc_heap(head, st.body, spec, path)
        if kind == "for":
            k = head.env[kname].t
            head.assume(z3.And(k >= 0, k <= it.length(head)))
        # 3. assume invariant (+ ground unfolding instances)
        xs = {"k": head.env[kname].t} if kind == "for" else {}
        if it is not None:
            xs["it"] = it
        v = V(self, head, xs)
        for nm, fn in spec.invariants:
            head.assume(fn(v))
        if spec.unfold:
            for ax in spec.unfold(v):
                head.assume(ax)
        # 4. guard (the variant is measured at the loop head, before the test is evaluated: the test may have effects)
        outs = []
        var0_head = spec.variant(V(self, head, xs)) if spec.variant else None
        if kind == "while":
            try:
                g = z3.simplify(self.truth(head, self.ev(head, st.test)))
            except _Raise as rz:
                # the loop test itself may raise (e.g. next() on an exhausted stream): split the head state
                bad = head.clone()
                bad.assume(z3.Not(rz.cond))
                if self.feasible(head, z3.Not(rz.cond)):
                    outs.append(Outcome("raise", bad, rz.exc))
                head.assume(rz.cond)
                head.noraise = getattr(head, "noraise", set()) | {rz.exc}
                g = z3.simplify(self.truth(head, self.ev(head, st.test)))
        else:
            g = head.env[kname].t < it.length(head)
        # exit path
        if self.feasible(head, z3.Not(g)):
            ex = head.clone()
            ex.assume(z3.Not(g))
            ex.trace.append(f"loop{ordn}:exit")
            if st.orelse:
                outs.extend(self.exec_block(st.orelse, ex))
            else:
                outs.append(Outcome("normal", ex))
        # body path
        if self.feasible(head, g):
            body = head.clone()
            body.assume(g)
            body.trace.append(f"loop{ordn}:iter")
            var0 = var0_head
            if kind == "for":
                self.assign(body, st.target, it.element(self, body, body.env[kname].t))
            for o in self.exec_block(st.body, body):
                if o.kind in ("normal", "continue"):
                    if kind == "for":
                        o.path.env[kname] = SInt(o.path.env[kname].t + 1)
                    xs2 = {"k": o.path.env[kname].t} if kind == "for" else {}
                    if it is not None:
                        xs2["it"] = it
                    self.check_inv(o.path, spec, ordn, "step[" + ",".join(o.path.trace[len(head.trace):]) + "]", it, xs2)
                    if var0 is not None:
                        var1 = spec.variant(V(self, o.path, xs2))
                        self.oblige(o.path, z3.And(var0 >= 0, var1 < var0), f"loop{ordn}.variant[" + ",".join(o.path.trace[len(head.trace):]) + "]", "inv", "variant decreases and is bounded")
                elif o.kind == "break":
                    outs.append(Outcome("normal", o.path))
                else:
                    outs.append(o)
        return outs

    def check_inv(self, path, spec, ordn, when, it, xs=None):
        if xs is None:
            xs = {"k": path.env[f"_k{ordn}"].t} if f"_k{ordn}" in path.env else {}
            if it is not None:
                xs["it"] = it
        v = V(self, path, xs)
        saved = len(path.pc)
        if spec.unfold:
            for ax in spec.unfold(v):
                path.pc.append(ax)
        for nm, fn in spec.invariants:
            self.oblige(path, fn(v), f"loop{ordn}.{when}.{nm}", "inv", f"invariant '{nm}' {when}")
        del path.pc[saved:]

    def fresh_like(self, path, cur, name):
        if isinstance(cur, SInt):
            return SInt(fresh(name, z3.IntSort()))
        if isinstance(cur, SBool):
            return SBool(fresh(name, z3.BoolSort()))
        if isinstance(cur, SStr):
            return SStr(fresh(name, z3.StringSort()))
        if isinstance(cur, SRef):
            return SRef(fresh(name, z3.IntSort()), cur.cls)
        if isinstance(cur, SChar):
            c = fresh(name, z3.IntSort())
            path.assume(z3.And(c >= -1, c <= 0x10FFFF))
            return SChar(c)
        if isinstance(cur, SSlice):
            lo, hi = fresh(name + "_lo", z3.IntSort()), fresh(name + "_hi", z3.IntSort())
            path.assume(z3.And(0 <= lo, lo <= hi, hi <= cur.base.n))
            return SSlice(cur.base, lo, hi)
        if isinstance(cur, SList):
            # identity is kept, contents are havoc'd by havoc_heap if the body mutates it
            return cur
        if isinstance(cur, (SDict, SOpaque)):
            return cur
        raise EngineError(f"loop-carried variable '{name}' of kind {type(cur).__name__} needs a declared type in the contract")

    def havoc_heap(self, head, body, spec, entry_path):
        fields, list_recv, dict_recv, all_lists, calls = _heap_writes(body)
        for f in sorted(set(fields) | set(spec.havoc_fields)):
            kind = self.field_kind(f)
            arr = self.field_array(head, f)
            head.heap.f[f] = fresh(f"H_{f}", arr.sort())
        # container mutations: receiver evaluated at loop head if it is loop-invariant
        modnames = _assigned_names(body)
        for recv in list_recv + dict_recv:
            names = {n.id for n in ast.walk(recv) if isinstance(n, ast.Name)}
            try:
                if names & modnames:
                    raise EngineError("receiver depends on loop-modified names")
                val = self.ev(head.clone(), recv)
            except EngineError:
                val = None
            if isinstance(val, SList):
                head.heap.list_set(val, fresh("lst", z3.SeqSort(elem_sort(val.elem))))
            elif isinstance(val, SDict):
                ks, vs = head.heap._dsorts(val)
                head.heap.dict_set(val, fresh("dh", z3.ArraySort(ks, z3.BoolSort())), fresh("dv", z3.ArraySort(ks, vs)))
            else:
                # unknown receiver: havoc every container map
                for k in list(head.heap.lists):
                    head.heap.lists[k] = fresh(f"LC_{k}", head.heap.lists[k].sort())
                for k in list(head.heap.dh):
                    head.heap.dh[k] = fresh(f"DH_{k}", head.heap.dh[k].sort())
                    head.heap.dv[k] = fresh(f"DV_{k}", head.heap.dv[k].sort())
        for cname in calls:
            self.c.havoc_for_call(self, head, cname)

    def literal_items(self, path, it_e):
        """items of an iteration over a display of constants: (a, b), [a, b], {k: v}.items()"""
        if isinstance(it_e, (ast.Tuple, ast.List)) and all(isinstance(x, ast.Constant) for x in it_e.elts):
            return [SConst(x.value) for x in it_e.elts]
        if isinstance(it_e, ast.Call) and isinstance(it_e.func, ast.Attribute) and it_e.func.attr == "items" and isinstance(it_e.func.value, ast.Dict):
            d = it_e.func.value
            if all(isinstance(k, ast.Constant) and isinstance(v, ast.Constant) for k, v in zip(d.keys, d.values)):
                return [STuple([SConst(k.value), SConst(v.value)]) for k, v in zip(d.keys, d.values)]
        return None

    # ---- iteration sources
    def iter_source(self, path, it_e, ordn):
        # range(n) / range(a, b)
        if isinstance(it_e, ast.Call) and isinstance(it_e.func, ast.Name):
            fn = it_e.func.id
            if fn == "range":
                args = [self._int(self.ev(path, a)) for a in it_e.args]
                if len(args) == 1:
                    return RangeIter(z3.IntVal(0), args[0])
                if len(args) == 2:
                    return RangeIter(args[0], args[1])
                raise EngineError("range with step")
            if fn == "enumerate":
                inner = self.iter_source(path, it_e.args[0], ordn)
                return EnumIter(inner)
            if fn == "reversed":
                inner = self.iter_source(path, it_e.args[0], ordn)
                return RevIter(inner)
            if fn == "chain" and it_e.args and not it_e.keywords and not any(isinstance(a, ast.Starred) for a in it_e.args):
                # itertools.chain over lists of one element kind: iteration over their concatenation (as the lists were at loop entry)
                parts = [self.ev(path, a) for a in it_e.args]
                if all(isinstance(x, SList) and x.elem == parts[0].elem for x in parts):
                    seqs = [path.heap.list_get(x) for x in parts]
                    return ListIter(parts[0], z3.Concat(*seqs) if len(seqs) > 1 else seqs[0])
                raise EngineError("chain() over other than lists of one element kind")
        if isinstance(it_e, ast.Call) and isinstance(it_e.func, ast.Attribute) and it_e.func.attr in ("items", "keys", "values") and not it_e.args:
            d = self.ev(path, it_e.func.value)
            if isinstance(d, SDict):
                return DictIter(self, path, d, it_e.func.attr, ordn)
        v = self.ev(path, it_e)
        if isinstance(v, SDict):
            return DictIter(self, path, v, "keys", ordn)
        if isinstance(v, SSlice):
            return StrIter(v)
        if isinstance(v, SList):
            return ListIter(v, path.heap.list_get(v))
        if isinstance(v, SConst) and isinstance(v.py, (tuple, str)):
            return ConstIter(v.py)
        cu = self.c.custom_iter(self, path, v, it_e)
        if cu is not None:
            return cu
        raise EngineError(f"iteration over {type(v).__name__} (line {it_e.lineno})")

    # ------------------------------------------------------------------ driver
    def run(self):
        path = Path()
        self.c.setup(self, path)
        entry = path.clone()
        self.entry = entry
        outs = self.exec_block(self.fn.body, path)
        for o in outs:
            if o.kind == "normal":
                o.kind, o.value = "return", SNone()
            if o.kind in ("break", "continue") and self.c.block_select is None:
                raise EngineError("break/continue outside loop")
            self.c.check_post(self, entry, o)
        return self.vcs


class _Fork(Exception):
    def __init__(self, cond, exc):
        self.cond, self.exc = cond, exc


class _Raise(Exception):
    """raised by a call contract: the call raises `exc` unless `cond` holds"""

    def __init__(self, cond, exc):
        self.cond, self.exc = cond, exc


# ---------------------------------------------------------------------- iteration helpers
class RangeIter:
    def __init__(self, a, b):
        self.a, self.b = a, b

    def length(self, path):
        return z3.If(self.b > self.a, self.b - self.a, 0)

    def element(self, eng, path, k):
        return SInt(self.a + k)


class StrIter:
    def __init__(self, s: SSlice):
        self.s = s

    def length(self, path):
        return self.s.hi - self.s.lo

    def element(self, eng, path, k):
        pos = self.s.lo + k
        code = z3.Select(self.s.base.arr, pos)
        path.assume(z3.And(code >= 0, code <= 0x10FFFF))
        return SChar(code, self.s.base, pos)


class ListIter:
    """iteration over the list *as it was when the loop started* (mutation of the iterated list inside the body is only
    sound when followed by break; the engine checks that syntactically in _heap_writes callers)"""

    def __init__(self, lst: SList, seq):
        self.lst, self.seq = lst, seq

    def length(self, path):
        return z3.Length(self.seq)

    def element(self, eng, path, k):
        return eng.elem_val(path, self.lst, self.seq[k])


class DictIter:
    """iteration over a dict: an arbitrary sequence KS of keys of the dict *as it was when the loop started*; every element read
    carries the ground fact has[KS[k]].  (That KS enumerates every key exactly once is Python's semantics of dict iteration;
    contracts state results as folds over KS.)"""

    def __init__(self, eng, path, d, what, ordn):
        ks, vs = path.heap._dsorts(d)
        self.d, self.what = d, what
        self.seq = fresh(f"KS{ordn}", z3.SeqSort(ks))
        self.has0, self.val0 = path.heap.dict_has(d), path.heap.dict_val(d)

    def length(self, path):
        return z3.Length(self.seq)

    def element(self, eng, path, k):
        key = self.seq[k]
        path.assume(z3.Select(self.has0, key))
        kv = SStr(key) if self.d.key == "str" else SRef(key)
        vv = eng.dict_value(path, self.d, z3.Select(self.val0, key))
        if self.what == "items":
            return STuple([kv, vv])
        return kv if self.what == "keys" else vv


class ConstIter:
    def __init__(self, items):
        self.items = items

    def length(self, path):
        return z3.IntVal(len(self.items))

    def element(self, eng, path, k):
        raise EngineError("iteration over a literal tuple needs unrolling (not supported)")


class EnumIter:
    def __init__(self, inner):
        self.inner = inner

    def length(self, path):
        return self.inner.length(path)

    def element(self, eng, path, k):
        return STuple([SInt(k), self.inner.element(eng, path, k)])


class RevIter:
    def __init__(self, inner):
        self.inner = inner

    def length(self, path):
        return self.inner.length(path)

    def element(self, eng, path, k):
        return self.inner.element(eng, path, self.inner.length(path) - 1 - k)


# ---------------------------------------------------------------------- AST helpers
def _dotted(f: ast.Attribute):
    parts = []
    n = f
    while isinstance(n, ast.Attribute):
        parts.append(n.attr)
        n = n.value
    if isinstance(n, ast.Name) and n.id in ("ford", "os", "re", "warnings", "pathlib", "toposort", "copy", "shutil", "json", "urllib"):
        parts.append(n.id)
        return ".".join(reversed(parts))
    return None


def _class_names(e):
    if isinstance(e, ast.Tuple):
        out = []
        for x in e.elts:
            out.extend(_class_names(x))
        return out
    if isinstance(e, ast.Name):
        return [e.id]
    if isinstance(e, ast.Attribute):
        return [e.attr]
    raise EngineError("class expression")


def _as_load(t):
    t2 = copy.deepcopy(t)
    for n in ast.walk(t2):
        if hasattr(n, "ctx"):
            n.ctx = ast.Load()
    return t2


def _target_names(t):
    if isinstance(t, ast.Name):
        return {t.id}
    if isinstance(t, (ast.Tuple, ast.List)):
        s = set()
        for x in t.elts:
            s |= _target_names(x)
        return s
    return set()


def _assigned_names(stmts):
    names = set()
    for st in stmts:
        for n in ast.walk(st):
            if isinstance(n, (ast.Assign,)):
                for t in n.targets:
                    names |= _target_names(t)
            elif isinstance(n, (ast.AugAssign, ast.AnnAssign)):
                names |= _target_names(n.target)
            elif isinstance(n, ast.NamedExpr):
                names.add(n.target.id)
            elif isinstance(n, (ast.For,)):
                names |= _target_names(n.target)
            elif isinstance(n, ast.Delete):
                for t in n.targets:
                    names |= _target_names(t)
    return names


MUT_LIST = {"append", "extend", "remove", "pop", "insert", "sort", "clear", "reverse"}
MUT_DICT = {"update", "setdefault", "clear", "pop", "popitem"}


def _heap_writes(stmts):
    fields, list_recv, dict_recv, calls = [], [], [], []
    for st in stmts:
        for n in ast.walk(st):
            tg = []
            if isinstance(n, ast.Assign):
                tg = n.targets
            elif isinstance(n, (ast.AugAssign, ast.AnnAssign)):
                tg = [n.target]
            elif isinstance(n, ast.Delete):
                tg = n.targets
            for t in tg:
                for t2 in ([t] if not isinstance(t, (ast.Tuple, ast.List)) else t.elts):
                    if isinstance(t2, ast.Attribute):
                        fields.append(t2.attr)
                    elif isinstance(t2, ast.Subscript):
                        dict_recv.append(t2.value)
            if isinstance(n, ast.Call) and isinstance(n.func, ast.Attribute):
                if n.func.attr in MUT_LIST | MUT_DICT:
                    list_recv.append(n.func.value)
                else:
                    calls.append(n.func.attr)
            elif isinstance(n, ast.Call) and isinstance(n.func, ast.Name):
                calls.append(n.func.id)
    return fields, list_recv, dict_recv, None, calls

"""Class hierarchy of a repo module, extracted mechanically from its AST on every run; used for isinstance()."""
from __future__ import annotations
import ast
import z3
from harness import loader
from .values import EngineError


class ClassModel:
    def __init__(self, modname: str):
        _, tree = loader.module_source(modname)
        self.bases: dict[str, list[str]] = {}
        for n in tree.body:
            if isinstance(n, ast.ClassDef):
                self.bases[n.name] = [b.id for b in n.bases if isinstance(b, ast.Name)]
        self.names = sorted(self.bases)
        self.tag = {n: i + 1 for i, n in enumerate(self.names)}
        self.CLS = z3.Function("CLS", z3.IntSort(), z3.IntSort())   # dynamic class tag of an object (immutable)

    def ancestors(self, c):
        out, todo = set(), [c]
        while todo:
            x = todo.pop()
            if x in out:
                continue
            out.add(x)
            todo.extend(self.bases.get(x, []))
        return out

    def subclasses(self, c):
        return [n for n in self.names if c in self.ancestors(n)]

    def isinstance_term(self, eng, path, v, clsnames):
        tags = set()
        for c in clsnames:
            if c not in self.bases:
                raise EngineError(f"isinstance: class {c} not in the extracted hierarchy")
            tags |= {self.tag[s] for s in self.subclasses(c)}
        return z3.And(v.t != 0, z3.Or(*[self.CLS(v.t) == t for t in sorted(tags)]))

    def is_a(self, o, c):
        return z3.Or(*[self.CLS(o) == self.tag[s] for s in self.subclasses(c)])

    def exact(self, o, c):
        return self.CLS(o) == self.tag[c]

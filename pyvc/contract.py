"""Sidecar contracts for Engine A and the discharge loop (z3 primary, optional cvc5 re-discharge)."""
from __future__ import annotations
import ast, time, os
import z3
from dataclasses import dataclass, field
from typing import Any, Callable, Optional
from .values import *
from .engine import Engine, LoopSpec, V, VC, Path, Outcome, fresh, ASSUMPTIONS
from harness.core import OR, PROVED, REFUTED, UNKNOWN, ERROR, MISSING
from harness import loader

RLIMIT = int(os.environ.get("PYVC_RLIMIT", "40000000"))
TIMEOUT_MS = int(os.environ.get("PYVC_TIMEOUT_MS", "30000"))


# ------------------------------------------------------------------------------- type declarators
class T:
    def fresh(self, eng, path, name):
        raise NotImplementedError

    def coerce(self, eng, path, v):
        return v


class TInt(T):
    def fresh(self, eng, path, name):
        return SInt(fresh(name, z3.IntSort()))


class TBool(T):
    def fresh(self, eng, path, name):
        return SBool(fresh(name, z3.BoolSort()))


class TStr(T):
    def fresh(self, eng, path, name):
        return SStr(fresh(name, z3.StringSort()))

    def coerce(self, eng, path, v):
        if isinstance(v, SConst) and isinstance(v.py, str):
            return SStr(z3.StringVal(v.py))
        return v


class TOptChar(T):
    """Optional[one-character str]: code point, -1 for None"""

    def fresh(self, eng, path, name):
        c = fresh(name, z3.IntSort())
        path.assume(z3.And(c >= -1, c <= 0x10FFFF))
        return SChar(c)

    def coerce(self, eng, path, v):
        if isinstance(v, SNone):
            return SChar(z3.IntVal(-1))
        if isinstance(v, SConst) and isinstance(v.py, str) and len(v.py) == 1:
            return SChar(z3.IntVal(ord(v.py)))
        return v


class TChar(TOptChar):
    def fresh(self, eng, path, name):
        c = fresh(name, z3.IntSort())
        path.assume(z3.And(c >= 0, c <= 0x10FFFF))
        return SChar(c)


class TScan(T):
    """a scanned input string"""

    def fresh(self, eng, path, name):
        arr = z3.Const(f"{name}_a", z3.ArraySort(z3.IntSort(), z3.IntSort()))
        n = z3.Const(f"{name}_n", z3.IntSort())
        path.assume(n >= 0)
        b = BaseStr(name, arr, n)
        eng.c.bases[name] = b
        return SSlice(b, z3.IntVal(0), n)


class TSliceOf(T):
    def __init__(self, basename):
        self.basename = basename

    def fresh(self, eng, path, name):
        b = eng.c.bases[self.basename]
        lo, hi = fresh(name + "_lo", z3.IntSort()), fresh(name + "_hi", z3.IntSort())
        path.assume(z3.And(0 <= lo, lo <= hi, hi <= b.n))
        return SSlice(b, lo, hi)

    def coerce(self, eng, path, v):
        if isinstance(v, SConst) and v.py == "":
            b = eng.c.bases[self.basename]
            return SSlice(b, z3.IntVal(0), z3.IntVal(0))
        if isinstance(v, SChar) and v.base is not None:
            return SSlice(v.base, v.idx, v.idx + 1)
        return v


class TRef(T):
    def __init__(self, cls=None, nonnull=True):
        self.cls, self.nonnull = cls, nonnull

    def fresh(self, eng, path, name):
        r = fresh(name, z3.IntSort())
        path.assume(r > 0 if self.nonnull else r >= 0)
        path.assume(r < path.heap.alloc0)
        return SRef(r, self.cls)

    def coerce(self, eng, path, v):
        if isinstance(v, SNone):
            return SRef(z3.IntVal(0), self.cls)
        return v


class TList(T):
    def __init__(self, elem="ref", base=None):
        self.elem, self.base = elem, base

    def fresh(self, eng, path, name):
        i = fresh(name, z3.IntSort())
        path.assume(z3.And(i > 0, i < path.heap.alloc0))
        return SList(i, self.elem, eng.c.bases.get(self.base) if self.base else None)


class TDict(T):
    def __init__(self, key="str", val="ref"):
        self.key, self.val = key, val

    def fresh(self, eng, path, name):
        i = fresh(name, z3.IntSort())
        path.assume(z3.And(i > 0, i < path.heap.alloc0))
        return SDict(i, self.key, self.val)


class TOpaque(T):
    def __init__(self, tag):
        self.tag = tag

    def fresh(self, eng, path, name):
        return SOpaque(self.tag, fresh(name, z3.IntSort()))


class TConst(T):
    def __init__(self, py):
        self.py = py

    def fresh(self, eng, path, name):
        return SConst(self.py)


# ------------------------------------------------------------------------------- contract
LOWER = z3.Function("LOWER", z3.StringSort(), z3.StringSort())
STRIP = z3.Function("STRIP", z3.StringSort(), z3.StringSort())
STRIPCH = z3.Function("STRIPCH", z3.StringSort(), z3.StringSort(), z3.StringSort())
RSTRIP = z3.Function("RSTRIP", z3.StringSort(), z3.StringSort())
LSTRIP = z3.Function("LSTRIP", z3.StringSort(), z3.StringSort())
REPLACE_ALL = z3.Function("REPLACE_ALL", z3.StringSort(), z3.StringSort(), z3.StringSort(), z3.StringSort())
ISSPACE_HI = z3.Function("ISSPACE_HI", z3.IntSort(), z3.BoolSort())
# str.lstrip() on an array-encoded string: index of the first character of arr[lo:hi] that is not white space (hi when there is none)
FIRST_NONBLANK = z3.Function("FIRST_NONBLANK", z3.ArraySort(z3.IntSort(), z3.IntSort()), z3.IntSort(), z3.IntSort(), z3.IntSort())
ISALPHA_HI = z3.Function("ISALPHA_HI", z3.IntSort(), z3.BoolSort())


class Contract:
    def __init__(self, module: str, qualname: str, prop: str = ""):
        self.module, self.qualname, self.prop = module, qualname, prop
        self.params: dict[str, T] = {}
        self.local_types: dict[str, T] = {}
        self.requires_: list = []
        self.ensures_: list = []          # (name, fn(V0, result, V1) -> Bool, role)
        self.raises_: list = []           # (name, fn(V0, excname, V1) -> Bool)
        self.loops: dict[int, LoopSpec] = {}
        self.fields: dict[str, str] = {}
        self.globals: dict[str, Val] = {}
        self.bases: dict[str, BaseStr] = {}
        self.calls: dict[str, Callable] = {}
        self.methods: dict[str, Callable] = {}
        self.props: dict[str, Callable] = {}
        self.setters: dict[str, Callable] = {}
        self.classes = None               # ClassModel
        self.hints: dict = {}
        self.lower_facts: list = []
        self.extra_setup: list = []
        self.call_havoc: dict[str, Callable] = {}
        self.iters: list = []
        self.assumed: list[str] = []      # assumed callee/library contracts, reported as assumptions
        self.dropped: list[str] = []
        self.block_select = None          # for block contracts: fn(FunctionDef) -> list[stmt]
        self.replay_fn = None             # fn(model_env: dict) -> replay dict
        self.search_fn = None             # bounded search for a concrete failing input: fn() -> replay dict | None
        self.no_raise = False             # ensures: the function never raises
        self.z3_timeout_ms = None         # per-contract z3 budget (string-heavy contracts hand over to cvc5 early)
        self.cvc5_on_unknown = False      # re-discharge z3's unknowns with cvc5 --strings-exp in every tier
        self.allowed_raises: Optional[set] = None
        self.post_facts = None            # fn(V0) -> ground instances of spec definitions (base cases) assumed at the post-state

    # -- DSL
    def param(self, name, t: T):
        self.params[name] = t
        return self

    def local(self, name, t: T):
        self.local_types[name] = t
        return self

    def requires(self, name, fn):
        self.requires_.append((name, fn))
        return self

    def ensures(self, name, fn, role="post"):
        self.ensures_.append((name, fn, role))
        return self

    def raises(self, name, fn):
        self.raises_.append((name, fn))
        return self

    def loop(self, ordn, invariants, types=None, variant=None, unfold=None, havoc_fields=None):
        self.loops[ordn] = LoopSpec(invariants=list(invariants), types=types or {}, variant=variant, unfold=unfold,
                                    havoc_fields=havoc_fields or [])
        return self

    # -- hooks used by the engine
    def list_elem_hint(self, lineno):
        return self.hints.get(("list", lineno)) or self.hints.get("list")

    def dict_val_hint(self, lineno):
        return self.hints.get(("dict", lineno)) or self.hints.get("dict")

    def list_class_hint(self, lst):
        return None

    def dict_class_hint(self, d):
        return None

    def dict_list_elem(self, d):
        return self.hints.get("dict_list_elem", "str")

    def opaque_attr(self, eng, path, obj, name):
        return None

    def str_attr(self, eng, path, obj, name):
        """attribute of a value modelled as a string (a pathlib.Path by its string form): a value, or None"""
        return None

    def opaque_contains(self, eng, path, container, item, e):
        """`item in <opaque>`: a z3 Bool, or None when the contract gives no meaning to it"""
        return None

    def opaque_index(self, eng, path, container, idx, e):
        """`<opaque>[idx]`: a value, or None"""
        return None

    def property_contract(self, obj, name):
        return self.props.get(name)

    def property_setter(self, obj, name):
        return self.setters.get(name)

    def call_contract(self, name):
        return self.calls.get(name)

    def method_contract(self, recv, name):
        return self.methods.get(name)

    def isinstance_term(self, eng, path, v: SRef, clsnames):
        if self.classes is None:
            raise EngineError("isinstance needs a class model")
        return self.classes.isinstance_term(eng, path, v, clsnames)

    def exc_subclass(self, exc, handler_names):
        """is the raised exception class a subclass of one of the handler's classes?  Decided on CPython's real classes."""
        def cls(name):
            import builtins, json, urllib.error, http.client
            for ns in (builtins, json, urllib.error, http.client):
                k = getattr(ns, name.split(".")[-1], None)
                if isinstance(k, type) and issubclass(k, BaseException):
                    return k
            return None
        k = cls(exc)
        if k is None:
            return False
        return any(cls(h) is not None and issubclass(k, cls(h)) for h in handler_names)

    def lower(self, t):
        return LOWER(t)

    def strip(self, t):
        return STRIP(t)

    def regex_matches(self, rx, s):
        return z3.Function(f"MATCHES_{rx}", z3.StringSort(), z3.BoolSort())(s)

    def regex_start(self, rx, g, s):
        return z3.Function(f"MATCH_START_{g}", z3.StringSort(), z3.IntSort())(s)

    def regex_group(self, rx, g, s):
        return z3.Function(f"GROUP_{rx}_{g}", z3.StringSort(), z3.StringSort())(s)

    def strip_chars(self, t, chars):
        return STRIPCH(t, chars)

    def rstrip(self, t):
        return RSTRIP(t)

    def lstrip(self, t):
        return LSTRIP(t)

    def isspace_char(self, c):
        """str.isspace() of one character: exact on ASCII, uninterpreted above"""
        asc = z3.Or(z3.And(c >= 9, c <= 13), z3.And(c >= 28, c <= 32))
        return z3.If(c < 128, asc, ISSPACE_HI(c))

    def replace_all(self, s, a, b):
        return REPLACE_ALL(s, a, b)

    def isalpha_hi(self, c):
        return ISALPHA_HI(c)

    def havoc_for_call(self, eng, head, cname):
        fn = self.call_havoc.get(cname)
        if fn:
            fn(eng, head)

    def custom_iter(self, eng, path, v, it_e):
        for f in self.iters:
            r = f(eng, path, v, it_e)
            if r is not None:
                return r
        return None

    # -- execution
    def setup(self, eng, path: Path):
        for name, t in self.params.items():
            path.env[name] = t.fresh(eng, path, name)
        for f in self.extra_setup:
            f(eng, path)
        v = V(eng, path)
        for nm, fn in self.requires_:
            path.assume(fn(v))

    def check_post(self, eng, entry: Path, o: Outcome):
        tr = ",".join(o.path.trace) or "-"
        v0 = V(eng, entry)
        v1 = V(eng, o.path)
        if self.post_facts is not None:
            import inspect
            facts = self.post_facts(v0, v1) if len(inspect.signature(self.post_facts).parameters) >= 2 else self.post_facts(v0)
            for ax in facts:
                o.path.assume(ax)
        if o.kind == "return":
            res = o.value
            for nm, fn, role in self.ensures_:
                g = fn(v0, res, v1)
                if g is None:
                    continue
                eng.oblige(o.path, g, f"post.{nm}[{tr}]", role, f"ensures '{nm}' on return path {tr}")
        elif o.kind in ("continue", "break"):
            hooks = getattr(self, "on_" + o.kind, None)
            if hooks is None:
                raise EngineError(f"{o.kind} leaves the block but the contract has no on_{o.kind} clause")
            for nm, fn in hooks:
                g = fn(v0, v1)
                if g is not None:
                    eng.oblige(o.path, g, f"{o.kind}.{nm}[{tr}]", "post", f"block exit by {o.kind}: '{nm}' on path {tr}")
        elif o.kind == "raise":
            if self.no_raise or (self.allowed_raises is not None and o.value not in self.allowed_raises):
                eng.oblige(o.path, z3.BoolVal(False), f"post.no_raise[{tr}]", "post", f"no {o.value} escapes (path {tr})")
            for nm, fn in self.raises_:
                g = fn(v0, o.value, v1)
                if g is None:
                    continue
                eng.oblige(o.path, g, f"raises.{nm}[{tr}]", "post", f"exceptional postcondition '{nm}' for {o.value} on path {tr}")

    def target(self):
        return f"{self.module}.{self.qualname}"


# ------------------------------------------------------------------------------- discharge
def _check(hyps, goal, timeout_ms=TIMEOUT_MS, rlimit=RLIMIT):
    s = z3.Solver()
    s.set("timeout", timeout_ms)
    s.set("rlimit", rlimit)
    for h in hyps:
        s.add(h)
    s.add(z3.Not(goal))
    t0 = time.time()
    # z3's own timeout is not always honoured (observed: a check that sits for minutes at 0% CPU past its 30 s budget); a watchdog thread interrupts the
    # context a little after the budget, which turns such a check into `unknown`
    import threading
    wd = threading.Timer(timeout_ms / 1000.0 + 5.0, lambda: s.ctx.interrupt())
    wd.daemon = True
    wd.start()
    try:
        r = s.check()
    except z3.Z3Exception:
        r = z3.unknown
    finally:
        wd.cancel()
    dt = time.time() - t0
    return r, s, dt


def _has_quant(t) -> bool:
    seen = set()
    todo = [t]
    while todo:
        x = todo.pop()
        if x.get_id() in seen:
            continue
        seen.add(x.get_id())
        if z3.is_quantifier(x):
            return True
        todo.extend(x.children())
    return False


def _cvc5_check(smt2: str, timeout_s=60):
    import subprocess, tempfile
    with tempfile.NamedTemporaryFile("w", suffix=".smt2", delete=False, dir=os.environ.get("VERIF_TMP", None)) as f:
        f.write("(set-logic ALL)\n" + smt2 + "\n(check-sat)\n")
        p = f.name
    try:
        out = subprocess.run(["/usr/bin/cvc5", "--strings-exp", f"--tlimit={timeout_s*1000}", p], capture_output=True, text=True,
                             timeout=timeout_s + 10)
        return out.stdout.strip().splitlines()[-1] if out.stdout.strip() else "unknown"
    except Exception as e:
        return "unknown"
    finally:
        os.unlink(p)


def model_value(m, t):
    v = m.eval(t, model_completion=True)
    if z3.is_int_value(v):
        return v.as_long()
    if z3.is_true(v):
        return True
    if z3.is_false(v):
        return False
    if z3.is_string_value(v):
        return v.as_string()
    return str(v)


def model_scan_string(m, base: BaseStr, maxlen=64):
    n = model_value(m, base.n)
    if not isinstance(n, int) or n > maxlen:
        return None
    chars = []
    for i in range(n):
        c = model_value(m, z3.Select(base.arr, i))
        if not isinstance(c, int) or c < 0 or c > 0x10FFFF:
            c = 63
        chars.append(chr(c))
    return "".join(chars)


def verify(contract: Contract, tier="quick", callee_contracts=None) -> list[OR]:
    """Symbolically execute the *current* source of the target against its contract and discharge every VC."""
    target = contract.target()
    fn = loader.find_def(contract.module, contract.qualname)
    if contract.block_select is not None:
        stmts = contract.block_select(fn)
        fn2 = ast.FunctionDef(name=fn.name, args=fn.args, body=stmts, decorator_list=[], lineno=fn.lineno)
        fn = fn2
    eng = Engine(contract, fn, callee_contracts)
    t0 = time.time()
    try:
        try:
            vcs = eng.run()
        except EngineError:
            raise
        except (AttributeError, KeyError, TypeError, IndexError) as ex:
            # a contract clause was evaluated against a program state it was not written for (e.g. the loop now iterates another kind of source):
            # the contract no longer fits the shape of the code - undecided, and the bounded stand-in takes over; never a checker fault, never a violation
            import traceback
            where = traceback.extract_tb(ex.__traceback__)[-1]
            raise EngineError(f"the contract does not fit the current shape of the code ({type(ex).__name__}: {ex} at {where.filename.split('/')[-1]}:{where.lineno})")
    except EngineError as e:
        out = [OR(id=f"{contract.prop}.A.{contract.qualname}.subset", status=UNKNOWN, kind="A", target=target, role="guard",
                  desc="function within Engine A's subset", detail=f"out of reach: {e}")]
        # the function left the verifier's reach: the bounded stand-in takes over (it can refute, it cannot prove)
        if contract.search_fn is not None:
            t1 = time.time()
            try:
                hit = contract.search_fn()
            except Exception as ex:
                hit = None
            if hit:
                out.append(OR(id=f"{contract.prop}.Bd.{contract.qualname}.standin", status=REFUTED, kind="Bd", target=target, role="bounded",
                              desc="bounded stand-in (function out of Engine A's reach): real function vs executable contract",
                              witness=hit.get("input"), replay=hit, seconds=time.time() - t1, backend="enumeration",
                              bound="see contract search_fn"))
        return out
    gen_s = time.time() - t0
    results: list[OR] = []
    prefix = f"{contract.prop}.A.{contract.qualname}"
    seen = {}
    for vc in vcs:
        oid = f"{prefix}.{vc.id}"
        seen[oid] = seen.get(oid, 0) + 1
        if seen[oid] > 1:
            oid = f"{oid}#{seen[oid]}"
        r, s, dt = _check(vc.hyps, vc.goal, timeout_ms=contract.z3_timeout_ms or TIMEOUT_MS)
        o = OR(id=oid, status=UNKNOWN, kind="A", target=target, desc=vc.desc, role=vc.role, seconds=dt, backend="z3")
        o.smt = s.sexpr() if len(results) % 7 == 0 else ""
        if r == z3.unsat:
            o.status = PROVED
        elif r == z3.sat:
            o.status = REFUTED
            m = s.model()
            # prefer a small model: scanned strings of length <= 6, then <= 12
            for bound in (6, 12):
                if not contract.bases:
                    break
                s.push()
                for b in contract.bases.values():
                    s.add(b.n <= bound)
                    j = z3.Int("j!small")
                    s.add(z3.ForAll([j], z3.Implies(z3.And(j >= 0, j < b.n), z3.And(z3.Select(b.arr, j) >= 32, z3.Select(b.arr, j) < 127))))
                s.set("timeout", 5000)
                if s.check() == z3.sat:
                    m = s.model()
                    s.pop()
                    break
                s.pop()
            wit = {}
            for bname, b in contract.bases.items():
                wit[bname] = model_scan_string(m, b)
            for pname in contract.params:
                val = eng.entry.env.get(pname)
                if isinstance(val, (SInt, SBool, SStr, SRef)):
                    wit[pname] = model_value(m, val.t)
                elif isinstance(val, SChar):
                    c = model_value(m, val.code)
                    wit[pname] = chr(c) if isinstance(c, int) and c >= 0 else None
            o.witness = wit
            o.detail = f"counter-model for {vc.id}"
            if contract.replay_fn is not None:
                try:
                    o.replay = contract.replay_fn(wit)
                except Exception as ex:
                    o.replay = {"confirmed": False, "error": f"{type(ex).__name__}: {ex}"}
            if not (o.replay and o.replay.get("confirmed")) and contract.search_fn is not None:
                # counterexample-to-induction or partial model: bounded search for a real failing input
                try:
                    hit = contract.search_fn()
                except Exception as ex:
                    hit = None
                if hit:
                    o.replay = hit
                    o.witness = hit.get("input", o.witness)
        else:
            o.detail = f"z3: {s.reason_unknown()}"
            # refutation mode (DESIGN 4.2): drop quantified hypotheses (their ground instances are already among the
            # hypotheses); a model of the rest is only a *candidate*, reported if a real failing input is found
            ground = [h for h in vc.hyps if not _has_quant(h)]
            if len(ground) < len(vc.hyps) or True:
                r2, s2, dt2 = _check(ground, vc.goal, timeout_ms=min(contract.z3_timeout_ms or TIMEOUT_MS, 20000))
                if r2 == z3.sat and contract.search_fn is not None:
                    try:
                        hit = contract.search_fn()
                    except Exception as ex:
                        hit = None
                    if hit:
                        o.status, o.replay, o.witness = REFUTED, hit, hit.get("input")
                        o.detail = "candidate model (quantifier-free hypotheses) confirmed by bounded search on the real code"
            if o.status == UNKNOWN and (tier == "thorough" or contract.cvc5_on_unknown):
                t5 = time.time()
                fresh = z3.Solver()          # a solver that has run carries (model-del ..) lines in its dump
                for h in vc.hyps:
                    fresh.add(h)
                fresh.add(z3.Not(vc.goal))
                res = _cvc5_check(fresh.sexpr())
                if res == "unsat":
                    o.status, o.backend, o.detail = PROVED, "cvc5", o.detail + "; re-discharged by cvc5 --strings-exp"
                    o.seconds += time.time() - t5
        results.append(o)
    # vacuity guard: for every ensures conjunct some return path satisfies hyps & goal
    posts = [vc for vc in vcs if vc.id.startswith("post.")]
    byname: dict[str, list[VC]] = {}
    for vc in posts:
        byname.setdefault(vc.id.split("[")[0], []).append(vc)
    for nm, group in byname.items():
        if nm == "post.no_raise":
            continue
        ok = False
        inconclusive = False
        for vc in group:
            # quantified hypotheses are frame axioms over fresh arrays (conservative extensions), so a model of the
            # quantifier-free hypotheses is enough to show that the path is not vacuous
            s = z3.Solver()
            s.set("timeout", 10000)
            for h in vc.hyps:
                if not _has_quant(h):
                    s.add(h)
            s.add(vc.goal)
            rr = s.check()
            if rr == z3.sat:
                ok = True
                break
            if rr != z3.unsat:
                inconclusive = True
        results.append(OR(id=f"{prefix}.guard.{nm}.reachable", status=PROVED if (ok or inconclusive) else ERROR, kind="G", target=target, role="guard",
                          desc=f"vacuity: a return path with satisfiable hypotheses reaches '{nm}'" + ("" if ok or not inconclusive else " [INCONCLUSIVE: solver returned unknown]"),
                          detail="" if ok else ("inconclusive (solver unknown)" if inconclusive else "all paths to this postcondition have contradictory hypotheses")))
        # must-fail twin: the negated postcondition must be refuted on some path
        refuted, allunsat = False, True
        for vc in group:
            r, s, dt = _check([h for h in vc.hyps if not _has_quant(h)], z3.Not(vc.goal), timeout_ms=10000)
            if r == z3.sat:
                refuted = True
                break
            if r != z3.unsat:
                allunsat = False
        results.append(OR(id=f"{prefix}.mustfail.{nm}", status=REFUTED if refuted else (PROVED if allunsat else UNKNOWN), kind="G",
                          target=target, role="guard", must_fail=True, desc=f"must-fail twin: NOT '{nm}' has to be refuted"))
    if not posts and not any(vc.id.startswith(("pre.", "continue.", "break.", "raises.")) for vc in vcs):       # call-site preconditions of callee contracts are obligations too
        results.append(OR(id=f"{prefix}.guard.noposts", status=ERROR, kind="G", target=target, role="guard",
                          detail="no postcondition VC generated"))
    for r in results:
        r.detail = (r.detail + f" [gen {gen_s:.2f}s]") if r.detail else ""
    return results

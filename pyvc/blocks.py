"""Block (statement) contracts: mechanical selection of a run of statements inside a large function by source patterns.
A pattern that matches zero or several statements makes the target MISSING (UNDECIDED), never a violation."""
from __future__ import annotations
import ast
from harness.loader import TargetMissing


def _src(st):
    return ast.unparse(st)


def between(start_prefix: str, end_prefix: str | None, include_end=False, container=None):
    """statements of the function body (or of the body of the unique compound statement whose source starts with `container`)
    from the unique statement whose source starts with start_prefix up to (excluding) the first later one starting with end_prefix"""
    def sel(fn: ast.FunctionDef):
        body = fn.body
        if container is not None:
            hits = [n for n in ast.walk(fn) if isinstance(n, (ast.If, ast.For, ast.While, ast.With, ast.Try)) and _src(n).startswith(container)]
            if len(hits) != 1:
                raise TargetMissing(f"block container {container!r}: {len(hits)} matches")
            body = hits[0].body
        starts = [i for i, st in enumerate(body) if _src(st).startswith(start_prefix)]
        if len(starts) != 1:
            raise TargetMissing(f"block start {start_prefix!r}: {len(starts)} matches")
        i = starts[0]
        if end_prefix is None:
            return body[i:]
        ends = [j for j in range(i + 1, len(body)) if _src(body[j]).startswith(end_prefix)]
        if not ends:
            raise TargetMissing(f"block end {end_prefix!r}: no match")
        j = ends[0] + (1 if include_end else 0)
        return body[i:j]
    return sel


def stmt_containing(text: str):
    """the unique top-level statement of the function body whose source contains `text`"""
    def sel(fn):
        hits = [st for st in fn.body if text in _src(st)]
        if len(hits) != 1:
            raise TargetMissing(f"statement containing {text!r}: {len(hits)} matches")
        return hits
    return sel

from __future__ import annotations
import argparse, importlib, json, os, sys, time
from harness import core


def main(argv=None):
    ap = argparse.ArgumentParser()
    ap.add_argument("prop", nargs="?")
    ap.add_argument("--tier", default=os.environ.get("VERIF_TIER", "quick"), choices=["quick", "thorough"])
    ap.add_argument("--replay")
    ap.add_argument("--jobs", type=int, default=0)
    ap.add_argument("--only", default="", help="substring filter on task ids (development)")
    a = ap.parse_args(argv)
    if a.replay:
        from harness import replay
        return replay.main(a.replay)
    seed = int(os.environ.get("VERIF_SEED", "0") or 0)
    t0 = time.time()
    try:
        mod = importlib.import_module(f"contracts.{a.prop}")
        tasks, meta = mod.build(a.tier, seed)
        if a.only:
            tasks = [t for t in tasks if a.only in t.id]
        tasks = [t for t in tasks if t.tier == "quick" or a.tier == "thorough"]
        results = core.run_tasks(tasks, a.jobs)
        return core.decide(a.prop, results, a.tier, seed, t0, meta)
    except Exception:
        import traceback
        traceback.print_exc()
        print(f"CHECKER-FAULT property={a.prop} exception in driver")
        return 3


if __name__ == "__main__":
    sys.exit(main())

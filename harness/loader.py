"""Access to the real code under /repo: source text / AST of functions (re-read on every run) and
import of single repo modules through a synthetic package object (so ford/__init__.py, which shells
out to `dot`, is never executed)."""
from __future__ import annotations
import ast, hashlib, importlib, os, sys, types

REPO = os.environ.get("FORD_REPO", "/repo")
os.environ.setdefault("FORD_DEBUGGING", "1")   # disables rich progress bars in ford.utils.ProgressBar

_src_cache: dict[str, tuple[str, ast.Module]] = {}


def module_path(modname: str) -> str:
    return os.path.join(REPO, *modname.split(".")) + ".py"


def module_source(modname: str) -> tuple[str, ast.Module]:
    p = module_path(modname)
    if p not in _src_cache:
        with open(p, encoding="utf-8") as f:
            text = f.read()
        _src_cache[p] = (text, ast.parse(text, filename=p))
    return _src_cache[p]


class TargetMissing(Exception):
    """contract target not found in the current tree (renamed / restructured) -> UNDECIDED"""


def find_def(modname: str, qualname: str) -> ast.AST:
    """AST node of function/class `qualname` (e.g. 'FortranReader.__next__') in the working tree."""
    _, tree = module_source(modname)
    node: ast.AST = tree
    for part in qualname.split("."):
        for child in ast.iter_child_nodes(node):
            if isinstance(child, (ast.FunctionDef, ast.ClassDef, ast.AsyncFunctionDef)) and child.name == part:
                node = child
                break
        else:
            # a function defined inside a compound statement of the enclosing function (e.g. a helper under an `if`): unique definition of that name
            if isinstance(node, (ast.FunctionDef, ast.AsyncFunctionDef)):
                hits = [n for n in ast.walk(node) if isinstance(n, (ast.FunctionDef, ast.AsyncFunctionDef)) and n.name == part and n is not node]
                if len(hits) == 1:
                    node = hits[0]
                    continue
            raise TargetMissing(f"{modname}.{qualname}: '{part}' not found")
    return node


def source_of(modname: str, qualname: str) -> str:
    text, _ = module_source(modname)
    node = find_def(modname, qualname)
    return ast.get_source_segment(text, node) or ""


def source_hash(modname: str, qualname: str) -> str:
    return hashlib.sha256(source_of(modname, qualname).encode()).hexdigest()[:16]


def module_constant(modname: str, name: str) -> ast.AST:
    """AST of the value assigned to a module-level (or Class.attr) constant."""
    _, tree = module_source(modname)
    node: ast.AST = tree
    parts = name.split(".")
    for part in parts[:-1]:
        for child in ast.iter_child_nodes(node):
            if isinstance(child, ast.ClassDef) and child.name == part:
                node = child
                break
        else:
            raise TargetMissing(f"{modname}.{name}")
    for child in ast.iter_child_nodes(node):
        if isinstance(child, ast.Assign):
            for t in child.targets:
                if isinstance(t, ast.Name) and t.id == parts[-1]:
                    return child.value
        if isinstance(child, ast.AnnAssign) and isinstance(child.target, ast.Name) and child.target.id == parts[-1]:
            return child.value
    raise TargetMissing(f"{modname}.{name}")


def install_synthetic_package():
    if "ford" in sys.modules and getattr(sys.modules["ford"], "__synthetic__", False):
        return sys.modules["ford"]
    for k in [k for k in sys.modules if k == "ford" or k.startswith("ford.")]:
        del sys.modules[k]
    pkg = types.ModuleType("ford")
    pkg.__path__ = [os.path.join(REPO, "ford")]
    pkg.__synthetic__ = True
    pkg.__version__ = "0+verif"
    sys.modules["ford"] = pkg
    return pkg


def import_repo(modname: str):
    """import ford.<x> from /repo without running ford/__init__.py"""
    install_synthetic_package()
    return importlib.import_module(modname)


def get_obj(modname: str, qualname: str):
    obj = import_repo(modname)
    for part in qualname.split("."):
        if part.startswith("__") and not part.endswith("__") and isinstance(obj, type):
            part = f"_{obj.__name__}{part}"
        obj = getattr(obj, part)
    return obj


_init_mod = None


def import_init():
    """ford/__init__.py executed as a separate module object (functions load_settings, parse_arguments, main ...) on top of the synthetic
    package; its own imports (ford.output -> ford.graphs) run `dot -V` once."""
    global _init_mod
    if _init_mod is None:
        import importlib.util
        install_synthetic_package()
        spec = importlib.util.spec_from_file_location("ford_init_real", os.path.join(REPO, "ford", "__init__.py"))
        m = importlib.util.module_from_spec(spec)
        spec.loader.exec_module(m)
        _init_mod = m
    return _init_mod

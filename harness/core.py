"""Tasks, obligation results, verdicts, evidence, known findings.  See DESIGN.md section 4."""
from __future__ import annotations
import dataclasses, json, os, sys, time, traceback, multiprocessing, hashlib
from dataclasses import dataclass, field
from typing import Any, Callable, Optional

VERIF = os.path.dirname(os.path.dirname(os.path.abspath(__file__)))
OUT = os.path.join(VERIF, "out")

PROVED, REFUTED, UNKNOWN, ERROR, MISSING = "proved", "refuted", "unknown", "error", "missing"


@dataclass
class OR:
    """result of one obligation"""
    id: str
    status: str                      # proved | refuted | unknown | error | missing
    kind: str = "A"                  # A (pyvc) | B (revc) | S (structural/AST) | Bd (bounded stand-in) | G (guard)
    target: str = ""                 # function / constant under contract
    desc: str = ""
    role: str = "post"               # post | frame | pre | inv | guard | bounded
    must_fail: bool = False          # vacuity guard: this obligation is expected to be REFUTED
    witness: Any = None              # solver model turned into concrete inputs
    replay: Optional[dict] = None    # {"confirmed": bool, "expected":..., "actual":..., "how":...}
    backend: str = "z3"
    seconds: float = 0.0
    detail: str = ""
    smt: str = ""
    known: Optional[str] = None      # id of the known finding that covers a refutation
    bound: str = ""                  # for Bd: the stated bound
    cases: int = 0                   # for Bd: number of cases evaluated

    def to_json(self):
        d = dataclasses.asdict(self)
        d["smt"] = d["smt"][:2000]
        return d


@dataclass
class Task:
    id: str
    prop: str
    target: str
    run: Callable[[], list]
    tier: str = "quick"              # quick tasks run in both tiers; thorough only in thorough


_TASKS: list[Task] = []


def _run_task(i: int):
    t = _TASKS[i]
    t0 = time.time()
    try:
        res = t.run()
        for r in res:
            if not r.target:
                r.target = t.target
        return i, res, time.time() - t0
    except Exception as e:  # checker fault or missing target
        from harness.loader import TargetMissing
        st = MISSING if isinstance(e, TargetMissing) else ERROR
        return i, [OR(id=t.id + ".task", status=st, kind="G", target=t.target, role="guard",
                      detail=f"{type(e).__name__}: {e}\n" + traceback.format_exc()[-3000:])], time.time() - t0


def run_tasks(tasks: list[Task], jobs: int = 0) -> list[OR]:
    global _TASKS
    _TASKS = tasks
    jobs = jobs or int(os.environ.get("VERIF_JOBS", "0")) or min(16, os.cpu_count() or 4)
    out: list[OR] = []
    if jobs == 1 or len(tasks) <= 1:
        for i in range(len(tasks)):
            _, res, _ = _run_task(i)
            out.extend(res)
        return out
    # One forked process per task (at most `jobs` at a time), each with its own pipe and deadline: a worker that dies (a solver crash, the OOM
    # killer) or never returns becomes a CHECKER-FAULT for that task instead of hanging the whole check, as multiprocessing.Pool would.
    ctx = multiprocessing.get_context("fork")
    deadline_s = int(os.environ.get("VERIF_TASK_TIMEOUT", "1500"))
    results, running, todo, retried = {}, {}, list(range(len(tasks))), set()

    def child(i, conn):
        try:
            conn.send(_run_task(i))
        except BaseException as e:      # noqa: the parent must always hear back
            conn.send((i, [OR(id=f"{tasks[i].id}.task", status=ERROR, kind="G", target=tasks[i].target, role="guard", detail=f"task raised {type(e).__name__}: {e}")], 0.0))
        finally:
            conn.close()

    def fault(i, why):
        return (i, [OR(id=f"{tasks[i].id}.task", status=ERROR, kind="G", target=tasks[i].target, role="guard", detail=why)], 0.0)
    import time as _time
    from multiprocessing.connection import wait as _wait
    while todo or running:
        while todo and len(running) < jobs:
            i = todo.pop(0)
            parent_conn, child_conn = ctx.Pipe(duplex=False)
            p = ctx.Process(target=child, args=(i, child_conn))      # not daemonic: a task may fork a verifier of its own
            p.start()
            child_conn.close()
            running[i] = (p, parent_conn, _time.time())
        ready = _wait([c for _, c, _ in running.values()], timeout=1.0)
        for i, (p, conn, t0) in list(running.items()):
            if conn in ready:
                try:
                    results[i] = conn.recv()
                    # a task that ended in a checker fault (an internal error of the solver library surfaces as an exception: "ASSERTION VIOLATION ... UNEXPECTED CODE WAS
                    # REACHED" was seen once on a VC set that is decided in every other run) gets one fresh attempt in a new process before the fault is reported
                    if any(r.status == ERROR for r in results[i][1]) and i not in retried:
                        retried.add(i)
                        todo.append(i)
                        del results[i]
                        conn.close()
                        p.join(timeout=5)
                        del running[i]
                        continue
                except (EOFError, OSError):
                    p.join(timeout=5)
                    if i not in retried:
                        # a worker that died without an answer (killed, crashed in native code): one fresh attempt before it counts as a checker fault
                        retried.add(i)
                        todo.append(i)
                        conn.close()
                        del running[i]
                        continue
                    results[i] = fault(i, f"the worker process ended without a result, twice (exit code {p.exitcode})")
                conn.close()
                p.join(timeout=5)
                del running[i]
            elif _time.time() - t0 > deadline_s:
                p.kill()
                p.join(timeout=5)
                results[i] = fault(i, f"no result within {deadline_s} s (worker killed)")
                conn.close()
                del running[i]
    for i in sorted(results):
        out.extend(results[i][1])
    return out


def load_known():
    p = os.path.join(VERIF, "known_findings.json")
    if not os.path.exists(p):
        return {"open": [], "fixed": []}
    with open(p) as f:
        return json.load(f)


def load_lock():
    p = os.path.join(VERIF, "obligations.lock.json")
    if not os.path.exists(p):
        return {}
    with open(p) as f:
        return json.load(f)


def write_replay(prop: str, r: OR) -> str:
    os.makedirs(OUT, exist_ok=True)
    import re as _re
    safe = _re.sub(r"[^A-Za-z0-9_.-]+", "_", r.id)[:80] + "_" + hashlib.sha1(r.id.encode()).hexdigest()[:8]
    path = os.path.join(OUT, f"replay_{safe}.json")
    with open(path, "w") as f:
        json.dump({"property": prop, "obligation": r.id, "target": r.target, "desc": r.desc, "role": r.role,
                   "witness": r.witness, "replay": r.replay, "solver_detail": r.detail, "smt": r.smt[:20000],
                   "backend": r.backend}, f, indent=1, default=str)
    return path


def decide(prop: str, results: list[OR], tier: str, seed: int, t0: float, meta: dict) -> int:
    """print verdict lines, write evidence, return exit code"""
    known = load_known()
    lock = load_lock().get(prop, [])
    open_known = {k["id"]: k for k in known.get("open", []) if k["property"] == prop}
    violations, undecided, faults = [], [], []
    proved = [r for r in results if r.kind != "Bd" and not r.must_fail and r.status == PROVED]
    counted = [r for r in results if r.kind != "Bd" and not r.must_fail and not (r.known and r.status == REFUTED)]
    guards_ok = True
    for r in results:
        if r.must_fail:
            if r.status == UNKNOWN:
                continue   # guard inconclusive (solver incompleteness): reported in the evidence, not a fault
            if r.status != REFUTED:
                guards_ok = False
                faults.append((r, f"vacuity guard {r.id}: expected refuted, got {r.status}"))
            continue
        if r.status == PROVED:
            continue
        if r.status == REFUTED:
            if r.known and r.known in open_known:
                continue
            confirmed = bool(r.replay and r.replay.get("confirmed"))
            if confirmed:
                violations.append((r, False))
            elif r.kind == "Bd":
                faults.append((r, f"bounded stand-in {r.id} reported an unconfirmed failure"))
            elif r.replay is not None and r.replay.get("confirmed") is False and r.replay.get("contradicted"):
                # the model does not reproduce on the real code: encoding/engine fault, never a verdict
                faults.append((r, f"{r.id}: solver model contradicted by the real code"))
            elif r.role in ("post", "frame", "pre") and (r.id in lock or not lock):
                violations.append((r, True))
            else:
                undecided.append(r)
        elif r.status in (UNKNOWN, MISSING):
            undecided.append(r)
        else:
            faults.append((r, f"{r.id}: {r.detail[-400:]}"))
    if not counted:
        faults.append((None, "zero obligations generated"))
    # known findings still failing?
    for r in results:
        if r.status == REFUTED and r.known and r.known in open_known:
            k = open_known[r.known]
            print(f"KNOWN-FINDING: property={prop} {k['what']}")
    code = 0
    # one line per distinct root cause: (target, concrete failing input)
    seen_causes = set()
    uniq = []
    for r, nofail in violations:
        key = (r.target, json.dumps((r.replay or {}).get("input", r.witness), default=str, sort_keys=True)) if not nofail else (r.target, r.id)
        if key in seen_causes:
            continue
        seen_causes.add(key)
        uniq.append((r, nofail))
    violations = uniq
    for r, nofail in violations:
        path = write_replay(prop, r)
        tail = " no-failing-input-found" if nofail else ""
        print(f"VIOLATION property={prop} replay={path} obligation={r.id}{tail}" if not nofail
              else f"VIOLATION property={prop} replay={path} obligation={r.id} no-failing-input-found")
        code = 1
    for r in undecided:
        print(f"UNDECIDED property={prop} obligation={r.id} status={r.status} {r.detail[:300]!r}")
        if code == 0:
            code = 2
    for r, msg in faults:
        print(f"CHECKER-FAULT property={prop} {msg}")
        code = 3 if code != 1 else code
    write_evidence(prop, results, tier, seed, time.time() - t0, meta, len(violations))
    n_bd = sum(1 for r in results if r.kind == "Bd")
    print(f"{prop}: obligations={len(counted)} discharged={len(proved)} must-fail-guards="
          f"{sum(1 for r in results if r.must_fail)} bounded-standins={n_bd} exit={code} wall={time.time()-t0:.1f}s")
    return code


def write_evidence(prop, results, tier, seed, wall, meta, nviol):
    kf = [r for r in results if r.known and r.status == REFUTED]
    results = [r for r in results if not (r.known and r.status == REFUTED)]
    meta = dict(meta)
    meta["known_findings_hit"] = [{"id": r.known, "obligation": r.id, "witness": r.witness, "replay": r.replay} for r in kf]
    counted = [r for r in results if r.kind != "Bd" and not r.must_fail]
    proved = [r for r in counted if r.status == PROVED]
    bd = [r for r in results if r.kind == "Bd"]
    guards = [r for r in results if r.must_fail]
    samples = []
    for r in counted[:: max(1, len(counted) // 6)][:8]:
        samples.append({"id": r.id, "target": r.target, "desc": r.desc, "status": r.status, "backend": r.backend,
                        "seconds": round(r.seconds, 3), "smt": r.smt[:1200]})
    by_backend: dict[str, int] = {}
    for r in proved:
        by_backend[r.backend] = by_backend.get(r.backend, 0) + 1
    ev = {
        "property_id": prop, "tier": tier, "seed": seed, "level": "proof",
        "coverage": {
            "obligations": len(counted), "discharged": len(proved),
            "checker_cmd": meta.get("checker_cmd", f"bin/check {prop} --tier {tier}"),
            "trusted_base": meta.get("trusted_base", []),
            "samples": samples,
            "discharged_by_backend": by_backend,
            "solver_seconds": round(sum(r.seconds for r in counted), 3),
            "functions_under_contract": meta.get("functions_under_contract", []),
            "obligation_list": [{"id": r.id, "kind": r.kind, "role": r.role, "target": r.target, "status": r.status,
                                 "backend": r.backend, "seconds": round(r.seconds, 3), "desc": r.desc,
                                 **({"known_finding": r.known} if r.known else {})} for r in counted],
            "vacuity_guards": [{"id": r.id, "expected": "refuted", "got": r.status,
                                "witness": r.witness} for r in guards],
            "bounded_standins": [{"id": r.id, "target": r.target, "bound": r.bound, "cases": r.cases, "status":
                                  ("no counterexample within bound (proves nothing)" if r.status == PROVED else r.status),
                                  "desc": r.desc} for r in bd],
            "known_findings_still_failing": meta.get("known_findings_hit", []),
            "unverified_surroundings": meta.get("unverified_surroundings", []),
            "not_addressed": meta.get("not_addressed", []),
            "explanation": meta.get("explanation", ""),
        },
        "assumptions": meta.get("assumptions", []),
        "wall_s": round(wall, 2),
        "violations": nviol,
    }
    os.makedirs(os.path.join(VERIF, "evidence"), exist_ok=True)
    with open(os.path.join(VERIF, "evidence", f"{prop}.json"), "w") as f:
        json.dump(ev, f, indent=1, default=str)

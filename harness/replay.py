"""bin/check --replay <file>: re-run the recorded input of a violation on the real code in /repo."""
from __future__ import annotations
import json, sys, importlib


def main(path):
    with open(path) as f:
        rec = json.load(f)
    print(json.dumps({k: rec.get(k) for k in ("property", "obligation", "target", "witness")}, indent=1, default=str))
    rp = rec.get("replay") or {}
    print("recorded replay:", json.dumps(rp, indent=1, default=str))
    prop = rec.get("property")
    try:
        mod = importlib.import_module(f"contracts.{prop}")
        if hasattr(mod, "replay"):
            res = mod.replay(rec)
            print("re-run now:", json.dumps(res, indent=1, default=str))
            return 1 if res.get("confirmed") else 0
    except Exception as e:
        print("replay error:", e)
        return 3
    print("(no executable replay for this obligation: see solver_detail / smt in the file)")
    return 1 if rp.get("confirmed") else 0

"""Spec side: parenthesis / bracket depth of a scanned string and the splitters defined from it."""
from __future__ import annotations
import z3

A = z3.ArraySort(z3.IntSort(), z3.IntSort())
LEV = z3.Function("PLEV", A, z3.IntSort(), z3.IntSort())     # depth of () after j characters
BLEV = z3.Function("BLEV", A, z3.IntSort(), z3.IntSort())    # depth of [] after j characters
LP, RP, LB, RB = 40, 41, 91, 93


def unfold(arr, k):
    c = z3.Select(arr, k)
    return [LEV(arr, 0) == 0, BLEV(arr, 0) == 0,
            LEV(arr, k + 1) == LEV(arr, k) + z3.If(c == LP, 1, z3.If(c == RP, -1, 0)),
            BLEV(arr, k + 1) == BLEV(arr, k) + z3.If(z3.Or(c == LP, c == RP), 0, z3.If(c == LB, 1, z3.If(c == RB, -1, 0)))]


def py_levels(s):
    """(level, blevel) before each character, plus final"""
    out, l, b = [], 0, 0
    for ch in s:
        out.append((l, b))
        if ch == "(":
            l += 1
        elif ch == ")":
            l -= 1
        elif ch == "[":
            b += 1
        elif ch == "]":
            b -= 1
    out.append((l, b))
    return out


def py_paren_split(sep, s):
    lv = py_levels(s)
    out, left = [], 0
    for i, ch in enumerate(s):
        if ch == sep and lv[i] == (0, 0):
            out.append(s[left:i])
            left = i + 1
    out.append(s[left:])
    return out


def py_get_parens(line, retlevel=0, retblevel=0):
    """returns ('ok', prefix) or ('raise', None)"""
    if not line:
        return ("ok", line)
    lv = py_levels(line)
    for i, ch in enumerate(line):
        if ch not in "()[]" and (ch.isalpha() or ch in "_:, ") and lv[i] == (retlevel, retblevel):
            return ("ok", line[:i])
    if lv[-1] == (retlevel, retblevel):
        return ("ok", line)
    return ("raise", None)


def py_strip_paren(line, retlevel=0):
    """text at depth `retlevel` with inner groups emptied, split whenever a group of that depth is left"""
    out, cur, level = [], "", 0
    for ch in line:
        if ch == "(":
            if level == retlevel or level + 1 == retlevel:
                cur += ch
            level += 1
        elif ch == ")":
            if level == retlevel or level - 1 == retlevel:
                cur += ch
            if level == retlevel:
                out.append(cur)
                cur = ""
            level -= 1
        elif level == retlevel:
            cur += ch
    if cur != "":
        out.append(cur)
    return out


class SplitSpec:
    """generic 'split at the positions where CUT holds' as recursive spec functions with ground unfolding"""

    def __init__(self, name, cut):
        from pyvc.values import PairSort
        self.cut = cut      # fn(arr, sep, j) -> Bool
        P = PairSort()
        self.P = P
        self.LAST = z3.Function(f"LASTCUT_{name}", A, z3.IntSort(), z3.IntSort(), z3.IntSort())
        self.PIECES = z3.Function(f"PIECES_{name}", A, z3.IntSort(), z3.IntSort(), z3.SeqSort(P))

    def unfold(self, arr, sep, k):
        c = self.cut(arr, sep, k)
        return [self.LAST(arr, sep, 0) == 0,
                self.PIECES(arr, sep, 0) == z3.Empty(z3.SeqSort(self.P)),
                self.LAST(arr, sep, k + 1) == z3.If(c, k + 1, self.LAST(arr, sep, k)),
                self.PIECES(arr, sep, k + 1) == z3.If(c, z3.Concat(self.PIECES(arr, sep, k), z3.Unit(self.P.mk(self.LAST(arr, sep, k), k))),
                                                      self.PIECES(arr, sep, k))]

    def result(self, arr, sep, n):
        return z3.Concat(self.PIECES(arr, sep, n), z3.Unit(self.P.mk(self.LAST(arr, sep, n), n)))

"""Spec side: regular languages of the statement kinds of the supported Fortran subset, over *masked, stripped* lines
(what FortranContainer.__init__ dispatches on: literals already replaced by "k", no leading/trailing blanks).
Written from the Fortran syntax rules and the spellings the property statements list.  DESIGN.md Appendix B.

Parenthesised text is abstracted to nesting depth <= 2 (an under-approximation of the subset: `covers` obligations never demand
more than this, `excludes` / first-match obligations are proved for it)."""
from __future__ import annotations
import z3
from revc.spec import *
from revc.translate import ALL, WORD

NL = {10}
DIG = plus(cls(set(range(48, 58))))
MASK = seq(lit('"'), DIG, lit('"'))                        # a masked character literal
P0 = star(notcls({40, 41, 10}))                              # no parentheses
P1 = star(alt(notcls({40, 41, 10}), seq(lit("("), P0, lit(")"))))
P2 = star(alt(notcls({40, 41, 10}), seq(lit("("), P1, lit(")"))))
PAR0 = seq(lit("("), P0, lit(")"))
PAR1 = seq(lit("("), P1, lit(")"))
PAR2 = seq(lit("("), P2, lit(")"))
NAMELIST = seq(NAME, star(seq(ws0, lit(","), ws0, NAME)))
NUMBER = seq(DIG, opt(seq(lit("."), opt(DIG))), opt(seq(cls(chars("eEdD")), opt(cls(chars("+-"))), DIG)), opt(seq(lit("_"), alt(NAME, DIG))))
OPER = alt(*[lit(o) for o in ("+", "-", "*", "/", "**", "//", "==", "/=", "<", ">", "<=", ">=")],
           *[seq(lit("."), kw(w), lit(".")) for w in ("and", "or", "not", "eq", "ne", "lt", "le", "gt", "ge", "eqv", "neqv")])


def _expr(par):
    """operand (op operand)*, operands: name, number, masked literal, name(args), (expr), %-component chains"""
    atom = alt(NAME, NUMBER, MASK, lit(":"), lit("*")) if par is None else alt(NAME, NUMBER, MASK, lit(":"), lit("*"), seq(NAME, ws0, par), par)
    operand = seq(opt(seq(cls(chars("+-")), ws0)), atom, star(seq(ws0, lit("%"), ws0, atom)))
    return seq(operand, star(seq(ws0, OPER, ws0, operand)))


def _args(e):
    arg = alt(e, seq(NAME, ws0, lit("="), ws0, e))
    return seq(lit("("), ws0, opt(seq(arg, star(seq(ws0, lit(","), ws0, arg)), ws0)), lit(")"))


E0 = _expr(None)
A0 = _args(E0)
E1 = _expr(A0)
A1 = _args(E1)
E2 = _expr(A1)
A2 = _args(E2)
DCOL = seq(ws0, lit("::"), ws0)
SEP = alt(ws1, DCOL)                                         # blank(s) or a double colon between keyword part and entity list
TAIL = star(notcls(NL))


def kws(*words):
    return alt(*[kw(w) for w in words])


def words(s):
    """keywords separated by mandatory blanks: 'end program' -> end ws1 program"""
    parts = s.split()
    out = [kw(parts[0])]
    for p in parts[1:]:
        out += [ws1, kw(p)]
    return seq(*out)


UNIT_KW = ["module", "submodule", "subroutine", "function", "procedure", "program", "type", "interface", "enum", "block", "associate"]

# ---- END statements -------------------------------------------------------------------------------------------------------
END_UNIT = alt(*[kw(u) for u in UNIT_KW], seq(kw("block"), ws0, kw("data")))      # `end block data`, `endblockdata`
END_FORMS = alt(kw("end"),
                seq(kw("end"), ws0, END_UNIT),                          # end subroutine / endsubroutine
                seq(kw("end"), ws0, END_UNIT, ws1, NAME),               # end subroutine name / endsubroutine name
                seq(kw("end"), ws0, kw("interface"), ws1, kws("operator", "assignment"), ws0, PAR0))
END_CONSTRUCTS = seq(kw("end"), ws0, kws("do", "if", "select", "where", "forall", "critical", "team"), opt(seq(ws1, NAME)))   # not unit ends

# ---- program units ----------------------------------------------------------------------------------------------------------
MODULE = seq(kw("module"), ws1, NAME)
SUBMODULE = seq(kw("submodule"), ws0, lit("("), ws0, NAME, ws0, opt(seq(lit(":"), ws0, NAME, ws0)), lit(")"), ws0, NAME)
PROGRAM = alt(kw("program"), seq(kw("program"), ws1, NAME))
BLOCKDATA = alt(seq(kw("block"), ws0, kw("data")), seq(kw("block"), ws0, kw("data"), ws1, NAME))
PREFIX = kws("pure", "elemental", "recursive", "impure", "module", "non_recursive")
PREFIXES = star(seq(PREFIX, ws1))
ARGS = seq(lit("("), ws0, opt(seq(NAMELIST, ws0)), lit(")"))
BIND = seq(kw("bind"), ws0, lit("("), ws0, kw("c"), ws0, opt(seq(lit(","), ws0, kw("name"), ws0, lit("="), ws0, MASK, ws0)), lit(")"))
SUBROUTINE = seq(PREFIXES, kw("subroutine"), ws1, NAME, ws0, opt(ARGS), opt(seq(ws0, BIND)))
INTRINSIC_T = kws("integer", "real", "complex", "logical", "character")
DOUBLE_T = alt(seq(kw("double"), ws0, kw("precision")), seq(kw("double"), ws0, kw("complex")))
KINDSEL = alt(seq(ws0, A1), seq(ws0, lit("*"), ws0, alt(DIG, seq(lit("("), ws0, alt(lit("*"), lit(":"), E0), ws0, lit(")")))))
TYPESPEC = alt(seq(INTRINSIC_T, opt(KINDSEL)), DOUBLE_T,
               seq(kws("type", "class"), ws0, lit("("), ws0, alt(lit("*"), seq(NAME, opt(seq(ws0, A0))), seq(INTRINSIC_T, opt(KINDSEL))), ws0, lit(")")))
FPREFIX = star(seq(alt(PREFIX, TYPESPEC), ws1))
RESULT = seq(kw("result"), ws0, lit("("), ws0, NAME, ws0, lit(")"))
FUNCTION = seq(FPREFIX, kw("function"), ws1, NAME, ws0, ARGS,
               opt(alt(seq(ws0, RESULT), seq(ws0, BIND), seq(ws0, RESULT, ws0, BIND), seq(ws0, BIND, ws0, RESULT))))

# ---- specification part -------------------------------------------------------------------------------------------------------
ACCESS = kws("public", "private", "protected")
ENTITY = seq(NAME, opt(seq(ws0, A1)))
ENTITIES = seq(ENTITY, star(seq(ws0, lit(","), ws0, ENTITY)))
ATTR_KW = alt(kws("asynchronous", "allocatable", "dimension", "external", "optional", "pointer", "private", "protected", "public", "save", "target",
                  "value", "volatile"),
              seq(kw("intent"), ws0, lit("("), ws0, kws("in", "out", "inout"), ws0, lit(")")),
              seq(kw("bind"), ws0, lit("("), ws0, kw("c"), ws0, lit(")")))
ATTR_STMT = seq(ATTR_KW, SEP, ENTITIES)                                  # dimension :: a(3), b   /  public a, b  /  intent(in) :: x
PARAMETER_STMT = seq(kw("parameter"), ws0, lit("("), ws0, NAME, ws0, lit("="), ws0, E2, star(seq(ws0, lit(","), ws0, NAME, ws0, lit("="), ws0, E2)), ws0, lit(")"))                         # parameter (pi = 3.14)  /  parameter(pi = 3.14)
ATTR_ON_DECL = alt(kws("allocatable", "asynchronous", "contiguous", "external", "intrinsic", "optional", "parameter", "pointer", "private", "protected",
                       "public", "save", "target", "value", "volatile"),
                   seq(kw("dimension"), ws0, A1), seq(kw("intent"), ws0, lit("("), ws0, kws("in", "out", "inout", "in out"), ws0, lit(")")),
                   seq(kw("bind"), ws0, lit("("), ws0, kw("c"), ws0, lit(")")))
ATTRLIST = star(seq(ws0, lit(","), ws0, ATTR_ON_DECL))
INIT = seq(ws0, alt(lit("="), lit("=>")), ws0, E2)
DECL_ENTITY = seq(NAME, opt(seq(ws0, A1)), opt(seq(ws0, lit("*"), ws0, alt(DIG, seq(lit("("), ws0, alt(lit("*"), E0), ws0, lit(")"))))), opt(INIT))
DECL_ENTITIES = seq(DECL_ENTITY, star(seq(ws0, lit(","), ws0, DECL_ENTITY)))
DECL_TYPESPEC = alt(TYPESPEC, seq(kw("procedure"), ws0, lit("("), ws0, opt(NAME), ws0, lit(")")))
VARIABLE_DECL = alt(seq(DECL_TYPESPEC, ATTRLIST, DCOL, DECL_ENTITIES),                # real(8), intent(in) :: x, y
                    seq(alt(INTRINSIC_T, DOUBLE_T), ws1, DECL_ENTITIES),               # integer foo
                    seq(INTRINSIC_T, KINDSEL, ws0, DECL_ENTITIES),                     # real(8) x / real*8 x / real(kind=8)x
                    seq(kws("type", "class"), ws0, lit("("), ws0, NAME, ws0, lit(")"), ws0, DECL_ENTITIES))   # type(t) x
ENUMERATOR = seq(kw("enumerator"), alt(DCOL, ws1), DECL_ENTITIES)
TYPE_ATTR = alt(kws("public", "private", "abstract"), seq(kw("extends"), ws0, lit("("), ws0, NAME, ws0, lit(")")),
                seq(kw("bind"), ws0, lit("("), ws0, kw("c"), ws0, lit(")")))
TPARAMS = seq(lit("("), ws0, NAMELIST, ws0, lit(")"))
NOT_IS = inter(NAME, comp(kw("is")))          # a derived type called `is` with type parameters collides with the `type is (...)` guard: outside the subset
TYPE_DEF = alt(seq(kw("type"), ws1, NOT_IS, opt(seq(ws0, TPARAMS))),
               seq(kw("type"), star(seq(ws0, lit(","), ws0, TYPE_ATTR)), DCOL, alt(NAME, seq(NOT_IS, ws0, TPARAMS))))
OPSYM = alt(*[lit(o) for o in ("+", "-", "*", "/", "**", "//", "==", "/=", "<", ">", "<=", ">=", "=")], seq(lit("."), plus(cls(LETTER)), lit(".")))
GENERIC_SPEC = alt(NAME, seq(kws("operator", "assignment"), ws0, lit("("), ws0, OPSYM, ws0, lit(")")),
                   seq(kws("read", "write"), ws0, lit("("), ws0, kws("formatted", "unformatted"), ws0, lit(")")))
INTERFACE = alt(kw("interface"), seq(kw("interface"), ws1, GENERIC_SPEC), seq(kw("abstract"), ws1, kw("interface")))
MODPROC = alt(seq(kw("module"), ws1, kw("procedure"), alt(ws1, DCOL), NAMELIST),
              seq(kw("procedure"), alt(ws1, DCOL), NAMELIST))                        # inside an interface block
ENUM = seq(kw("enum"), ws0, lit(","), ws0, kw("bind"), ws0, lit("("), ws0, kw("c"), ws0, lit(")"))
BINDING_ATTR = alt(kws("public", "private", "deferred", "nopass", "non_overridable"), seq(kw("pass"), opt(seq(ws0, lit("("), ws0, NAME, ws0, lit(")")))))
BINDING = seq(NAME, opt(seq(ws0, lit("=>"), ws0, NAME)))
BOUNDPROC = alt(seq(kw("procedure"), opt(seq(ws0, lit("("), ws0, NAME, ws0, lit(")"))), star(seq(ws0, lit(","), ws0, BINDING_ATTR)), alt(DCOL, ws1), BINDING,
                    star(seq(ws0, lit(","), ws0, BINDING))),
                seq(kw("generic"), star(seq(ws0, lit(","), ws0, kws("public", "private"))), DCOL, GENERIC_SPEC, ws0, lit("=>"), ws0, NAMELIST))
FINAL = seq(kw("final"), alt(DCOL, ws1), NAMELIST)
COMMON = alt(seq(kw("common"), ws0, lit("/"), ws0, NAME, ws0, lit("/"), ws0, ENTITIES), seq(kw("common"), ws1, ENTITIES))
NAMELIST_STMT = seq(kw("namelist"), ws0, lit("/"), ws0, NAME, ws0, lit("/"), ws0, NAMELIST)
BLOCK = alt(kw("block"), seq(NAME, ws0, lit(":"), ws0, kw("block")))
ASSOC1 = seq(NAME, ws0, lit("=>"), ws0, E1)
ASSOCIATE = seq(opt(seq(NAME, ws0, lit(":"), ws0)), kw("associate"), ws0, lit("("), ws0, ASSOC1, star(seq(ws0, lit(","), ws0, ASSOC1)), ws0, lit(")"))
RENAME = seq(NAME, ws0, lit("=>"), ws0, NAME)
USEITEM = alt(NAME, RENAME, seq(kws("operator", "assignment"), ws0, lit("("), ws0, OPSYM, ws0, lit(")")))
USELIST = seq(USEITEM, star(seq(ws0, lit(","), ws0, USEITEM)))
USE = seq(kw("use"), alt(ws1, seq(ws0, opt(seq(lit(","), ws0, opt(kw("non_")), kw("intrinsic"), ws0)), lit("::"), ws0)), NAME,
          opt(alt(seq(ws0, lit(","), ws0, kw("only"), ws0, lit(":"), ws0, opt(USELIST)), seq(ws0, lit(","), ws0, RENAME, star(seq(ws0, lit(","), ws0, RENAME))))))
FMTITEM = plus(alt(cls(WORD), cls(chars(" .,/:*+-")), MASK))
FORMAT = seq(DIG, ws1, kw("format"), ws0, lit("("), star(alt(FMTITEM, seq(lit("("), star(alt(FMTITEM, seq(lit("("), FMTITEM, lit(")")))), lit(")")))), lit(")"))
IMPLICIT = seq(kw("implicit"), ws1, kw("none"))

# ---- executable statements (must never be taken for declarations / unit headers) -----------------------------------------------------
LHS = seq(NAME, opt(seq(ws0, A1)), star(seq(ws0, lit("%"), ws0, NAME, opt(seq(ws0, A1)))))
EXPR = E2
ASSIGN = seq(LHS, ws0, alt(lit("="), lit("=>")), ws0, EXPR)
CALL = seq(kw("call"), ws1, LHS)
COND = seq(lit("("), ws0, E2, ws0, lit(")"))
IFTHEN = seq(opt(seq(NAME, ws0, lit(":"), ws0)), kw("if"), ws0, COND, ws0, kw("then"))
IFSTMT = seq(kw("if"), ws0, COND, ws0, alt(ASSIGN, CALL, kw("return"), kw("stop"), kw("cycle"), kw("exit")))
DO = alt(kw("do"), seq(kw("do"), ws1, NAME, ws0, lit("="), ws0, E1, ws0, lit(","), ws0, E1, opt(seq(ws0, lit(","), ws0, E1))), seq(kw("do"), ws1, kw("while"), ws0, COND))
SELECT = alt(seq(kw("select"), ws0, kws("case", "type"), ws0, COND), seq(kw("case"), ws0, A1), words("class default"),
             words("case default"), seq(kw("type"), ws1, kw("is"), ws0, A1), seq(kw("class"), ws1, kw("is"), ws0, A1))
IOLIST = opt(seq(ws0, E2, star(seq(ws0, lit(","), ws0, E2))))
IO = alt(seq(kws("write", "read", "open", "close", "allocate", "deallocate", "inquire", "rewind", "nullify"), ws0, A2, IOLIST),
         seq(kws("print", "read"), ws0, alt(lit("*"), MASK, DIG), opt(seq(ws0, lit(","), IOLIST))))
SIMPLE = alt(kws("return", "stop", "cycle", "exit", "continue", "else"), seq(kw("else"), ws0, kw("if"), ws0, COND, ws0, kw("then")),
             seq(kw("go"), ws0, kw("to"), ws1, DIG), seq(kws("where", "forall"), ws0, A2, opt(seq(ws0, ASSIGN))), END_CONSTRUCTS)
EXECUTABLE = alt(ASSIGN, CALL, IFTHEN, IFSTMT, DO, SELECT, IO, SIMPLE)

# names that are Fortran keywords make `keyword = expr` legal but pathological; the exclusion obligations are stated for
# identifiers that are not keywords of the declaration cascade
DECL_KEYWORDS = ["integer", "real", "double", "doubleprecision", "doublecomplex", "character", "complex", "logical", "type", "class", "procedure", "enumerator", "end", "module", "program",
                 "subroutine", "function", "interface", "use", "common", "namelist", "final", "generic", "block", "associate", "enum", "contains",
                 "public", "private", "protected", "sequence", "dimension", "parameter", "intent", "optional", "pointer", "allocatable", "save",
                 "target", "value", "volatile", "external", "asynchronous", "bind", "data", "submodule", "abstract", "pure", "elemental", "recursive",
                 "impure", "non_recursive", "format", "implicit"]


def starts_with_keyword():
    return seq(alt(*[kw(k) for k in DECL_KEYWORDS]), opt(seq(notcls(WORD | NL), TAIL)))


KINDS = {
    "end": END_FORMS, "module": MODULE, "submodule": SUBMODULE, "program": PROGRAM, "blockdata": BLOCKDATA, "subroutine": SUBROUTINE,
    "function": FUNCTION, "attr_stmt": ATTR_STMT, "parameter_stmt": PARAMETER_STMT, "variable": VARIABLE_DECL, "enumerator": ENUMERATOR,
    "type_def": TYPE_DEF, "interface": INTERFACE, "modproc": MODPROC, "enum": ENUM, "boundproc": BOUNDPROC, "final": FINAL, "common": COMMON,
    "namelist": NAMELIST_STMT, "block": BLOCK, "associate": ASSOCIATE, "use": USE, "format": FORMAT,
}

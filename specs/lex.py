"""Spec side: the Fortran character-context automaton (free form), as z3 terms and as plain Python.

States: CODE (outside any literal), SQ (inside '...'), DQ (inside "...").  A delimiter opens a context, the same
delimiter closes it; a doubled delimiter inside a literal is close-then-reopen, which needs no extra state."""
from __future__ import annotations
import itertools
import z3

CODE, SQ, DQ = 0, 1, 2
QS, QD = 39, 34   # ' and "

RUN = z3.Function("LEXRUN", z3.ArraySort(z3.IntSort(), z3.IntSort()), z3.IntSort(), z3.IntSort())


def delta(g, c):
    return z3.If(g == CODE, z3.If(c == QS, SQ, z3.If(c == QD, DQ, CODE)),
                 z3.If(g == SQ, z3.If(c == QS, CODE, SQ),
                       z3.If(c == QD, CODE, DQ)))


def unfold(arr, k):
    """ground instances of the recursive definition: base case and the step at k"""
    return [RUN(arr, 0) == CODE, RUN(arr, k + 1) == delta(RUN(arr, k), z3.Select(arr, k)),
            z3.And(RUN(arr, k) >= 0, RUN(arr, k) <= 2)]


# ---- executable twin (used for replay and the bounded stand-ins; cross-checked against the z3 form in the self-test)
def py_delta(g, ch):
    if g == CODE:
        return SQ if ch == "'" else DQ if ch == '"' else CODE
    if g == SQ:
        return CODE if ch == "'" else SQ
    return CODE if ch == '"' else DQ


def py_run(s, upto=None):
    g = CODE
    for ch in s[: len(s) if upto is None else upto]:
        g = py_delta(g, ch)
    return g


def py_states(s):
    """state *before* each character, plus the final state"""
    out, g = [], CODE
    for ch in s:
        out.append(g)
        g = py_delta(g, ch)
    out.append(g)
    return out


def py_split(sep, s):
    """pieces of s between the separators read in state CODE"""
    st = py_states(s)
    out, left = [], 0
    for i, ch in enumerate(s):
        if ch == sep and st[i] == CODE:
            out.append(s[left:i])
            left = i + 1
    out.append(s[left:])
    return out


def py_comment_start(s):
    """index of the first '!' read in state CODE, or None"""
    st = py_states(s)
    for i, ch in enumerate(s):
        if ch == "!" and st[i] == CODE:
            return i
    return None


def strings(alphabet, maxlen):
    for n in range(maxlen + 1):
        for t in itertools.product(alphabet, repeat=n):
            yield "".join(t)

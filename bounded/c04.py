"""Bounded (here: exhaustive over the stated product) stand-in for C04 on the real parser: scope default x declaration attribute x access
statement x position x entity kind, against Fortran's accessibility rule."""
from __future__ import annotations
import itertools
from bounded import realrun

KINDS = ["variable", "parameter", "type", "subroutine", "function", "generic", "absint", "operator"]


def module_text(default, default_pos, declattr, stmt, stmt_pos):
    """default in '', 'public', 'private'; default_pos 'early'|'late'; declattr in '', 'public', 'private', 'protected';
    stmt in '', 'public', 'private'; stmt_pos 'before'|'after' the declarations"""
    names = {"variable": "v", "parameter": "c", "type": "t", "subroutine": "s", "function": "f", "generic": "gen", "absint": "ai", "operator": "operator(.op.)"}
    L = ["module m", "  implicit none"]
    if default and default_pos == "early":
        L.append("  " + default)
    acc = f"  {stmt} :: " + ", ".join(names[k] for k in KINDS) if stmt else None
    if acc and stmt_pos == "before":
        L.append(acc)
    da = f", {declattr}" if declattr else ""
    da_noprot = f", {declattr}" if declattr and declattr != "protected" else ""
    L.append(f"  integer{da} :: v")
    L.append(f"  integer, parameter{da_noprot} :: c = 1")
    L.append(f"  type{da_noprot} :: t")
    L.append("    integer :: comp")
    L.append("  end type t")
    L.append("  interface gen")
    L.append("    module procedure s")
    L.append("  end interface gen")
    L.append("  abstract interface")
    L.append("    subroutine ai()")
    L.append("    end subroutine ai")
    L.append("  end interface")
    L.append("  interface operator(.op.)")
    L.append("    module procedure f")
    L.append("  end interface")
    if acc and stmt_pos == "after":
        L.append(acc)
    if default and default_pos == "late":
        L.append("  " + default)
    L += ["contains", "  subroutine s()", "  end subroutine s", "  function f(a) result(r)", "    integer, intent(in) :: a", "    integer :: r", "    r = a", "  end function f",
          "end module m"]
    return "\n".join(L) + "\n"


def expected(kind, default, declattr, stmt):
    if declattr and kind in ("variable", "parameter", "type") and not (declattr == "protected" and kind != "variable"):
        return declattr
    if stmt:
        return stmt
    return default or "public"


def find(m, kind):
    if kind == "variable":
        return [v for v in m.variables if v.name == "v"][0]
    if kind == "parameter":
        return [v for v in m.variables if v.name == "c"][0]
    if kind == "type":
        return m.types[0]
    if kind == "subroutine":
        return [p for p in m.subroutines if p.name == "s"][0]
    if kind == "function":
        return [p for p in m.functions if p.name == "f"][0]
    if kind == "generic":
        return [i for i in m.interfaces if i.name == "gen"][0]
    if kind == "absint":
        return m.absinterfaces[0]
    if kind == "operator":
        return [i for i in m.interfaces if i.name and i.name.lower().startswith("operator")][0]


def cells():
    for default, default_pos in [("", "early"), ("public", "early"), ("private", "early"), ("public", "late"), ("private", "late")]:
        for declattr in ("", "public", "private", "protected"):
            for stmt, stmt_pos in [("", "before"), ("public", "before"), ("private", "before"), ("public", "after"), ("private", "after")]:
                if declattr and stmt:
                    continue      # an entity cannot carry both an attribute and an access statement
                yield default, default_pos, declattr, stmt, stmt_pos


def type_text(comp_default, bind_default, comp_attr, bind_attr, type_attr):
    ta = f", {type_attr}" if type_attr else ""
    L = ["module m", "  implicit none", f"  type{ta} :: t"]
    if comp_default:
        L.append("    " + comp_default)
    ca = f", {comp_attr}" if comp_attr else ""
    L.append(f"    integer{ca} :: comp")
    L.append("  contains")
    if bind_default:
        L.append("    " + bind_default)
    ba = f", {bind_attr}" if bind_attr else ""
    L.append(f"    procedure{ba} :: b1")
    L.append(f"    procedure{ba} :: b2, b3")
    L.append(f"    generic{ba} :: g => b1, b2")
    L += ["  end type t", "contains"]
    for b in ("b1", "b2", "b3"):
        L += [f"  subroutine {b}(self)", "    class(t) :: self", f"  end subroutine {b}"]
    L.append("end module m")
    return "\n".join(L) + "\n"


def type_cells():
    return itertools.product(["", "private"], ["", "private"], ["", "public", "private"], ["", "public", "private"], ["", "public", "private"])


def search(skip_known=True):
    hit = submodule_cases() or extends_cases() or same_name_cases() or binding_attribute_case() or multi_name_binding_case() or accessible_set_case() or protected_and_public_case()
    if hit:
        return hit
    for cell in cells():
        default, default_pos, declattr, stmt, stmt_pos = cell
        if skip_known and default and default_pos == "late":
            continue
        text = module_text(*cell)
        try:
            f = realrun.parse_source(text)
        except Exception as e:
            return {"confirmed": True, "input": {"source": text, "cell": cell}, "actual": f"{type(e).__name__}: {e}", "expected": "parses", "how": "real parser"}
        m = f.modules[0]
        bad = []
        for k in KINDS:
            ent = find(m, k)
            exp = expected(k, default, declattr, stmt)
            if ent.permission != exp:
                bad.append(f"{k}: FORD says {ent.permission}, Fortran says {exp}")
        if bad:
            return {"confirmed": True, "input": {"source": text, "cell": cell}, "actual": bad, "expected": "accessibility per Fortran's rule",
                    "how": f"real parser; cell (default, position, declaration attribute, access statement, position) = {cell}"}
    for cell in type_cells():
        comp_default, bind_default, comp_attr, bind_attr, type_attr = cell
        text = type_text(*cell)
        f = realrun.parse_source(text)
        t = f.modules[0].types[0]
        bad = []
        if t.permission != (type_attr or "public"):
            bad.append(f"type: {t.permission} != {type_attr or 'public'}")
        exp_c = comp_attr or comp_default or "public"
        if t.variables[0].permission != exp_c:
            bad.append(f"component: {t.variables[0].permission} != {exp_c}")
        exp_b = bind_attr or bind_default or "public"
        for bp in t.boundprocs:
            if bp.permission != exp_b:
                bad.append(f"binding {bp.name}: {bp.permission} != {exp_b}")
        if bad:
            return {"confirmed": True, "input": {"source": text, "cell": cell}, "actual": bad, "expected": "component / binding accessibility per the type's own defaults",
                    "how": f"real parser; type cell (component default, binding default, component attr, binding attr, type attr) = {cell}"}
    bad = constructor_cases() or spelling_cases()
    if bad:
        return bad
    return None


def constructor_cases():
    """a type and the generic interface of the same name (its constructor) are one identifier: after correlation both carry the accessibility given to the name"""
    for default, how, want in (("private", "public :: vec", "public"), ("", "private :: vec", "private"), ("", "type_attr_private", "private"), ("private", "", "private"), ("", "", "public")):
        tattr = ", private" if how == "type_attr_private" else ""
        stmt = "" if how in ("", "type_attr_private") else f"  {how}\n"
        text = (f"module m\n  implicit none\n" + (f"  {default}\n" if default else "") + stmt + f"  type{tattr} :: vec\n    real :: x\n  end type vec\n"
                "  interface vec\n    module procedure make_vec\n  end interface vec\ncontains\n  function make_vec(a) result(v)\n    real :: a\n    type(vec) :: v\n    v%x = a\n  end function make_vec\nend module m\n")
        proj = realrun.build_project({"src/m.f90": text}, display=["public", "private", "protected"])
        m = proj.modules[0]
        t = m.types[0]
        intr = [i for i in m.interfaces if i.name.lower() == "vec"][0]
        if t.permission != want or intr.permission != want:
            return {"confirmed": True, "input": {"source": text}, "actual": {"type vec": t.permission, "interface vec": intr.permission}, "expected": f"both {want}",
                    "how": "real pipeline (parse + correlate); the accessibility of a name applies to the type and to the generic interface of that name"}
    return None


def spelling_cases():
    """an access statement names a generic identifier however the blanks are placed; PROTECTED together with PUBLIC leaves the variable protected"""
    text = ("module m\n  implicit none\n  private\n  public :: operator(.foo.), assignment (=)\n  integer, protected :: pv2\n  integer, protected, public :: pv3\n  integer, public, protected :: pv4\n  integer :: pv\n  integer :: pw\n  protected :: pv\n  public :: pv, pv2\n"
            "  public :: pw\n  interface operator (.foo.)\n    module procedure foo_impl\n  end interface\n  interface assignment(=)\n    module procedure assign_impl\n  end interface\n"
            "contains\n  function foo_impl(a) result(r)\n    integer, intent(in) :: a\n    integer :: r\n    r = a\n  end function foo_impl\n"
            "  subroutine assign_impl(l, r)\n    integer, intent(out) :: l\n    logical, intent(in) :: r\n    l = 1\n  end subroutine assign_impl\nend module m\n")
    m = realrun.parse_source(text).modules[0]
    got = {i.name.lower().replace(" ", ""): i.permission for i in m.interfaces}
    got.update({v.name: v.permission for v in m.variables})
    want = {"operator(.foo.)": "public", "assignment(=)": "public", "pv": "protected", "pv2": "protected", "pv3": "protected", "pv4": "protected", "pw": "public"}
    bad = {k: (got.get(k), w) for k, w in want.items() if got.get(k) != w}
    if bad:
        return {"confirmed": True, "input": {"source": text}, "actual": {k: v[0] for k, v in bad.items()}, "expected": {k: v[1] for k, v in bad.items()},
                "how": "real parser; access statements naming generic identifiers with different blank placement; PROTECTED combined with PUBLIC"}
    return None


def same_name_cases():
    """an access statement names an identifier: every entity that goes by it gets the accessibility - a generic and a specific procedure of the same name, a generic declared in two
    interface blocks - and a generic identifier is found whatever the letter case and the blanks of `OPERATOR (..)` / `Assignment(=)` in the INTERFACE statement"""
    text = ("module m\n  implicit none\n  private\n  public :: foo, gen, OPERATOR (+)\n  interface foo\n    module procedure foo, foo2\n  end interface foo\n"
            "  interface gen\n    module procedure g1\n  end interface gen\n  interface gen\n    module procedure g2\n  end interface gen\n"
            "  INTERFACE OPERATOR (+)\n    module procedure plus_impl\n  END INTERFACE\n  Interface Operator (.dot.)\n    module procedure plus_impl\n  end interface\n"
            "contains\n  subroutine foo(a)\n    integer :: a\n  end subroutine foo\n  subroutine foo2(a)\n    real :: a\n  end subroutine foo2\n"
            "  subroutine g1(a)\n    integer :: a\n  end subroutine g1\n  subroutine g2(a)\n    real :: a\n  end subroutine g2\n"
            "  function plus_impl(a, b) result(r)\n    logical, intent(in) :: a, b\n    logical :: r\n    r = a .or. b\n  end function plus_impl\nend module m\n")
    m = realrun.parse_source(text).modules[0]
    got = {f"interface {i.name.lower().replace(' ', '')} #{k}": i.permission for k, i in enumerate(m.interfaces)}
    got.update({f"subroutine {p.name}": p.permission for p in m.subroutines})
    want = {"interface foo #0": "public", "interface gen #1": "public", "interface gen #2": "public", "interface operator(+) #3": "public", "interface operator(.dot.) #4": "private",
            "subroutine foo": "public", "subroutine foo2": "private", "subroutine g1": "private", "subroutine g2": "private"}
    text2 = ("module n\n  implicit none\n  private :: operator(.dot.), assignment(=)\n  INTERFACE OPERATOR (.dot.)\n    module procedure d\n  END INTERFACE\n"
             "  Interface Assignment (=)\n    module procedure a\n  end interface\n  interface operator (.cross.)\n    module procedure d\n  end interface\n"
             "contains\n  function d(x, y) result(r)\n    logical, intent(in) :: x, y\n    logical :: r\n    r = x\n  end function d\n"
             "  subroutine a(l, r)\n    integer, intent(out) :: l\n    logical, intent(in) :: r\n    l = 1\n  end subroutine a\nend module n\n")
    n = realrun.parse_source(text2).modules[0]
    got2 = {i.name.lower().replace(" ", ""): i.permission for i in n.interfaces}
    want2 = {"operator(.dot.)": "private", "assignment(=)": "private", "operator(.cross.)": "public"}
    if got != want or got2 != want2:
        return {"confirmed": True, "input": {"source": text if got != want else text2}, "actual": got if got != want else got2, "expected": want if got != want else want2,
                "how": "real parser: accessibility of the entities that share the name an access statement lists; generic identifiers spelt in upper / mixed case with blanks"}
    return None


def binding_attribute_case():
    """an access attribute of a type-bound PROCEDURE / GENERIC statement counts in any letter case and next to other attributes"""
    text = ("module m\n  implicit none\n  type :: t\n    integer :: c\n  contains\n    PROCEDURE, PRIVATE :: p1\n    procedure, pass(self), Private :: p2\n    procedure :: p3\n    GENERIC, PRIVATE :: g => p3\n  end type t\n"
            "  type :: u\n    integer :: c\n  contains\n    private\n    PROCEDURE, PUBLIC :: q1\n    procedure :: q2\n    Generic, Public :: h => q2\n  end type u\ncontains\n"
            "  subroutine p1(self)\n    class(t) :: self\n  end subroutine p1\n  subroutine p2(self)\n    class(t) :: self\n  end subroutine p2\n  subroutine p3(self)\n    class(t) :: self\n  end subroutine p3\n"
            "  subroutine q1(self)\n    class(u) :: self\n  end subroutine q1\n  subroutine q2(self)\n    class(u) :: self\n  end subroutine q2\nend module m\n")
    m = realrun.parse_source(text).modules[0]
    got = {f"{ty.name}%{bp.name}": bp.permission for ty in m.types for bp in ty.boundprocs}
    want = {"t%p1": "private", "t%p2": "private", "t%p3": "public", "t%g": "private", "u%q1": "public", "u%q2": "private", "u%h": "public"}
    junk = {f"{ty.name}%{bp.name}": [a for a in bp.attribs if a.lower() in ("public", "private")] for ty in m.types for bp in ty.boundprocs}
    junk = {k: v for k, v in junk.items() if v}
    if got != want or junk:
        return {"confirmed": True, "input": {"source": text}, "actual": {"accessibility": got, "access keywords left among the attributes": junk}, "expected": {"accessibility": want, "access keywords left among the attributes": {}},
                "how": "real parser: accessibility of type-bound procedures whose access attribute is written in upper / mixed case"}
    return None


def multi_name_binding_case():
    """`procedure :: a, b` declares several bindings: each takes the binding default of the type's CONTAINS part (or the statement's own attribute), not the accessibility of the type"""
    text = ("module m\n  implicit none\n  private\n  public :: box\n  type, public :: vault\n    integer :: c\n  contains\n    private\n    procedure :: peek, poke\n    procedure, public :: open_it, shut_it\n  end type vault\n"
            "  type :: box\n    integer :: c\n  contains\n    procedure :: fill, drain\n  end type box\ncontains\n"
            + "".join(f"  subroutine {n}(self)\n    class({t}) :: self\n  end subroutine {n}\n" for n, t in (("peek", "vault"), ("poke", "vault"), ("open_it", "vault"), ("shut_it", "vault"), ("fill", "box"), ("drain", "box")))
            + "end module m\n")
    m = realrun.parse_source(text).modules[0]
    got = {f"{ty.name}%{bp.name}": bp.permission for ty in m.types for bp in ty.boundprocs}
    want = {"vault%peek": "private", "vault%poke": "private", "vault%open_it": "public", "vault%shut_it": "public", "box%fill": "public", "box%drain": "public"}
    if got != want:
        return {"confirmed": True, "input": {"source": text}, "actual": got, "expected": want, "how": "real parser: accessibility of the bindings of multi-name PROCEDURE statements"}
    return None


def protected_and_public_case():
    """PROTECTED is not an accessibility: a variable that is protected and named in a PUBLIC statement is still protected (FORD shows one word for both) - whichever form,
    attribute or statement, gives each of the two"""
    text = ("module m\n  implicit none\n  private\n  integer, protected :: a\n  integer :: b\n  integer, public :: c\n  integer, public, protected :: d\n  public :: a, b\n  protected :: b, c\nend module m\n")
    m = realrun.parse_source(text).modules[0]
    got = {v.name: v.permission for v in m.variables}
    want = {"a": "protected", "b": "protected", "c": "protected", "d": "protected"}
    if got != want:
        return {"confirmed": True, "input": {"source": text}, "actual": got, "expected": want, "how": "real parser: accessibility word of variables that are both PUBLIC and PROTECTED"}
    return None


def accessible_set_case():
    """what a module makes accessible (its pub_* tables, from which USE association and the export take their names) is its public AND protected entities, specific procedures
    declared by interface bodies of a generic included; a private type stays out whatever its constructor interface is"""
    files = {"src/a.f90": ("module a\n  implicit none\n  integer, protected :: pv = 1\n  integer, public, protected :: ppv = 2\n  integer, private :: hidden = 3\n  integer :: plain = 4\n  protected :: late\n  integer :: late\n"
                           "  interface gen\n    subroutine spec_a(x)\n      integer :: x\n    end subroutine spec_a\n  end interface gen\nend module a\n"),
             "src/b.f90": "module b\n  use a\n  implicit none\ncontains\n  subroutine s()\n    print *, pv, ppv, late\n  end subroutine s\nend module b\n"}
    proj = realrun.build_project(files)
    a = next(m for m in proj.modules if m.name == "a")
    got = {"pub_vars": sorted(a.pub_vars), "pub_procs": sorted(a.pub_procs)}
    want = {"pub_vars": ["late", "plain", "ppv", "pv"], "pub_procs": ["gen", "spec_a"]}
    b = next(m for m in proj.modules if m.name == "b")
    seen = sorted(k for k in ("pv", "ppv", "late", "hidden") if k in getattr(b.subroutines[0], "all_vars", {}))
    if got != want or seen != ["late", "ppv", "pv"]:
        return {"confirmed": True, "input": {"files": files}, "actual": {"tables of a": got, "visible in b's procedure": seen}, "expected": {"tables of a": want, "visible in b's procedure": ["late", "ppv", "pv"]},
                "how": "real Project + correlate: the accessible set of a module with protected variables and a generic with an interface body"}
    return None


def submodule_cases():
    """everything declared in a submodule is private, variables and named constants included, whatever its parent's default is"""
    text = ("module par\n  implicit none\n  interface\n    module subroutine work()\n    end subroutine work\n  end interface\nend module par\n"
            "submodule (par) impl\n  implicit none\n  integer :: counter\n  real, parameter :: tol = 1.0e-6\n  type :: local_t\n    integer :: c\n  end type local_t\n"
            "  interface gen\n    module procedure helper\n  end interface gen\ncontains\n  module subroutine work()\n  end subroutine work\n  subroutine helper()\n  end subroutine helper\n"
            "end submodule impl\n")
    sub = realrun.parse_source(text).submodules[0]
    got = {"counter": sub.variables[0].permission, "tol": sub.variables[1].permission, "local_t": sub.types[0].permission, "gen": sub.interfaces[0].permission,
           "helper": sub.subroutines[0].permission if sub.subroutines else [p for p in getattr(sub, "routines", []) if p.name == "helper"][0].permission}
    bad = {k: v for k, v in got.items() if v != "private"}
    if bad:
        return {"confirmed": True, "input": {"source": text}, "actual": bad, "expected": {k: "private" for k in bad}, "how": "real parser: accessibility of the entities of a submodule"}
    # ... also after correlation, for both spellings of a separate module procedure's implementation (the interface in the ancestor module is public)
    text2 = ("module par\n  implicit none\n  interface\n    module subroutine one()\n    end subroutine one\n    module subroutine two()\n    end subroutine two\n  end interface\nend module par\n"
             "submodule (par) impl\ncontains\n  module subroutine one()\n  end subroutine one\n  module procedure two\n  end procedure two\nend submodule impl\n")
    proj = realrun.build_project({"src/p.f90": text2}, display=["public", "private", "protected"])
    sub = proj.submodules[0]
    got2 = {p.name: p.permission for l in ("subroutines", "functions", "modsubroutines", "modfunctions", "modprocedures") for p in getattr(sub, l, [])}
    bad2 = {k: v for k, v in got2.items() if v != "private"}
    if bad2 or set(got2) != {"one", "two"}:
        return {"confirmed": True, "input": {"source": text2}, "actual": got2, "expected": {"one": "private", "two": "private"},
                "how": "real pipeline (parse + correlate): accessibility of the implementations of separate module procedures in a submodule"}
    return None


def extends_cases():
    """an access attribute on a TYPE statement counts whatever else the statement carries (EXTENDS, ABSTRACT, BIND) and in whatever order"""
    for default in ("", "private"):
        for attrs, want in (("extends(base), private", "private"), ("private, extends(base)", "private"), ("extends(base), public", "public"), ("public, extends(base)", "public"),
                            ("abstract, extends(base), private", "private"), ("abstract, public", "public"), ("extends(base)", default or "public")):
            text = (f"module m\n  implicit none\n{('  ' + default + chr(10)) if default else ''}  type, public :: base\n    integer :: b\n  end type base\n  type, {attrs} :: t\n    integer :: c\n  end type t\n"
                    "end module m\n")
            m = realrun.parse_source(text).modules[0]
            got = [t for t in m.types if t.name == "t"][0].permission
            if got != want:
                return {"confirmed": True, "input": {"source": text}, "actual": {"t": got}, "expected": {"t": want}, "how": f"real parser: `type, {attrs} :: t` in a module with default '{default or 'public'}'"}
    return None


def known_late_default():
    """KNOWN FINDING C04-late-default: a bare PRIVATE/PUBLIC statement placed after declarations does not reach the entities declared before it"""
    text = module_text("private", "late", "", "", "before")
    m = realrun.parse_source(text).modules[0]
    bad = [k for k in KINDS if find(m, k).permission != "private"]
    if bad:
        return {"confirmed": True, "input": {"source": text}, "actual": {k: find(m, k).permission for k in KINDS}, "expected": "private for all (bare PRIVATE anywhere in the specification part)",
                "how": "real parser, bare `private` after the declarations"}
    return None


def count_cases():
    return sum(1 for c in cells() if not (c[0] and c[1] == "late")), sum(1 for _ in type_cells())

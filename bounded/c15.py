"""Bounded stand-in for C15: every option of the real settings schema x representative values x the three configuration formats
(project-file metadata, fpm.toml [extra.ford], --config), through the real load_settings + parse_arguments; the effective settings must agree."""
from __future__ import annotations
import dataclasses, json, os, pathlib, typing, contextlib, io
from bounded import realrun
from harness import loader


def schema():
    st = loader.import_repo("ford.settings")
    hints = typing.get_type_hints(st.ProjectSettings)
    return st, hints


def sample_values(name, tp, st):
    """representative (python value) samples per declared type; None = skip the option"""
    origin = typing.get_origin(tp)
    args = typing.get_args(tp)
    if tp is bool:
        return [True, False]
    if tp is int:
        return [0, 3]
    if tp is str or (origin is typing.Union and str in args):
        if name in ("docmark", "predocmark", "docmark_alt", "predocmark_alt"):
            return [{"docmark": "^", "predocmark": "]", "docmark_alt": "~", "predocmark_alt": "@"}[name]]
        if name in ("license", "doc_license"):
            return ["by", "gfdl"]
        if name == "sort":
            return ["alpha", "type-alpha"]
        if name == "encoding":
            return ["utf-8"]
        if name == "creation_date":
            return None
        return ["some text", "a:b=c"]
    if tp is pathlib.Path or (origin is typing.Union and pathlib.Path in args):
        return ["./sub/dir", "../up"]
    if origin is list:
        if args and args[0] is pathlib.Path:
            return [["./a", "./b/c"], ["./single"]]
        return [["one", "two"], ["single"]]
    if origin is dict:
        if name == "extra_filetypes":
            return [{"c": ("c", "//"), "inc": ("inc", "#", "c")}]
        if name in ("alias", "external"):
            return [{"k1": "v1", "k2": "https://example.com/x"}]
        if name in ("extra_mods", "extra_vartypes"):
            return [{"mymod": "https://example.com/doc"}]
        return None
    return None


def md_repr(name, v):
    """project-file metadata spelling of a value"""
    def one(x):
        return str(x).lower() if isinstance(x, bool) else str(x)
    if isinstance(v, dict):
        if name == "extra_filetypes":
            lines = [" ".join(t) for t in v.values()]
        else:
            sep = {"alias": " = ", "external": " = ", "extra_mods": ": ", "extra_vartypes": ": "}[name]
            lines = [f"{k}{sep}{val}" for k, val in v.items()]
    elif isinstance(v, list):
        lines = [one(x) for x in v]
    else:
        lines = [one(v)]
    return f"{name}: " + ("\n    ".join(lines))


def toml_repr(name, v):
    def q(x):
        return "true" if x is True else "false" if x is False else str(x) if isinstance(x, int) else '"' + str(x).replace("\\", "\\\\").replace('"', '\\"') + '"'
    if isinstance(v, dict):
        if name == "extra_filetypes":
            items = []
            for t in v.values():
                d = {"extension": t[0], "comment": t[1]}
                if len(t) > 2:
                    d["lexer"] = t[2]
                items.append("{" + ", ".join(f"{k} = {q(x)}" for k, x in d.items()) + "}")
            return f"{name} = [" + ", ".join(items) + "]"
        return f"{name} = {{" + ", ".join(f"{q(k)} = {q(x)}" for k, x in v.items()) + "}"
    if isinstance(v, list):
        return f"{name} = [" + ", ".join(q(x) for x in v) + "]"
    return f"{name} = {q(v)}"


def effective(fmt, name, v, workdir_is_project):
    """run the real loader for one option in one format; returns the settings value (normalised for comparison) or ('error', message)"""
    init = loader.import_init()
    files = {"src/a.f90": "module a\nend module a\n"}
    if fmt == "md":
        files["proj.md"] = "---\nproject: demo\npreprocess: false\n" + md_repr(name, v) + "\n---\n\nText\n"
    elif fmt == "toml":
        files["proj.md"] = "Text\n"
        files["fpm.toml"] = 'name = "demo"\n[extra.ford]\nproject = "demo"\npreprocess = false\n' + toml_repr(name, v) + "\n"
    else:
        files["proj.md"] = "---\nproject: demo\npreprocess: false\n---\n\nText\n"
    with realrun.project_dir(files) as d:
        cwd = os.getcwd()
        os.chdir(d if workdir_is_project else realrun.TMPROOT)
        try:
            out = io.StringIO()
            with contextlib.redirect_stdout(out), contextlib.redirect_stderr(out):
                text = open(os.path.join(d, "proj.md")).read()
                docs, data = init.load_settings(text, pathlib.Path(d), "proj.md")
                cargs = {"config": toml_repr(name, v)} if fmt == "config" else {}
                data, docs = init.parse_arguments(cargs, docs, data, pathlib.Path(d))
            val = getattr(data, name)
        except BaseException as e:
            return ("error", f"{type(e).__name__}: {e}")
        finally:
            os.chdir(cwd)
        return norm(val, d)


def norm(val, d):
    if isinstance(val, pathlib.Path):
        return "PATH:" + os.path.relpath(str(val), d)
    if isinstance(val, list):
        return [norm(x, d) for x in val]
    if isinstance(val, dict):
        return {k: norm(x, d) for k, x in sorted(val.items()) if not str(k).startswith(("iso_", "ieee_", "omp", "mpi", "openacc"))}
    if dataclasses.is_dataclass(val):
        return dataclasses.asdict(val)
    return val


def cases():
    st, hints = schema()
    for f in dataclasses.fields(st.ProjectSettings):
        tp = hints[f.name]
        vals = sample_values(f.name, tp, st)
        if not vals or f.name in ("preprocess", "preprocessor", "project", "relative"):
            continue          # fixed by the harness (no preprocessor is installed; project names the run)
        for v in vals:
            yield f.name, v


KNOWN_CONFIG = "C15-config-bypasses-conversion"


def search(formats=("md", "toml"), skip=()):
    for name, v in cases():
        if name in skip:
            continue
        res = {fmt: effective(fmt, name, v, True) for fmt in formats}
        ref = res[formats[0]]
        for fmt in formats[1:]:
            if res[fmt] != ref:
                return {"confirmed": True, "input": {"option": name, "value": v, formats[0]: md_repr(name, v) if formats[0] == "md" else toml_repr(name, v),
                                                     fmt: toml_repr(name, v)},
                        "actual": {f: res[f] for f in formats}, "expected": "the same effective value in every format",
                        "how": f"real load_settings + parse_arguments for option '{name}'"}
        other = effective(formats[0], name, v, False)
        if other != ref:
            return {"confirmed": True, "input": {"option": name, "value": v}, "actual": {"cwd=project": ref, "cwd=elsewhere": other},
                    "expected": "independent of the working directory", "how": f"option '{name}' loaded from two working directories"}
    return None


def count_cases():
    return sum(1 for _ in cases())


def all_diffs(formats):
    out = []
    for name, v in cases():
        res = {fmt: effective(fmt, name, v, True) for fmt in formats}
        if len({repr(x) for x in res.values()}) > 1:
            out.append((name, v, res))
    return out


def _run(md_meta="", toml=None, cargs=None, chdir_project=True):
    init = loader.import_init()
    files = {"src/a.f90": "module a\nend module a\n", "proj.md": "---\nproject: demo\npreprocess: false\n" + md_meta + "---\n\nText\n"}
    if toml is not None:
        files["fpm.toml"] = 'name = "demo"\n[extra.ford]\nproject = "demo"\npreprocess = false\n' + toml
    with realrun.project_dir(files) as d:
        cwd = os.getcwd()
        os.chdir(d if chdir_project else realrun.TMPROOT)
        out = io.StringIO()
        try:
            with contextlib.redirect_stdout(out), contextlib.redirect_stderr(out):
                text = open(os.path.join(d, "proj.md")).read()
                docs, data = init.load_settings(text, pathlib.Path(d), "proj.md")
                data, docs = init.parse_arguments(dict(cargs or {}), docs, data, pathlib.Path(d))
            return data, d, out.getvalue()
        except BaseException as e:
            return ("error", f"{type(e).__name__}: {e}"), d, out.getvalue()
        finally:
            os.chdir(cwd)


def extra_cases():
    """precedence, documented quoted spelling, unknown keys, ill-typed values"""
    bad = []
    # documented Markdown spelling with quotes vs TOML
    a, d, _ = _run(md_meta='extra_mods: mymod: "https://example.com/doc"\n')
    b, d2, _ = _run(toml='extra_mods = { mymod = "https://example.com/doc" }\n')
    if isinstance(a, tuple) or isinstance(b, tuple) or a.extra_mods.get("mymod") != b.extra_mods.get("mymod"):
        bad.append(("quoted URL in extra_mods", a if isinstance(a, tuple) else a.extra_mods.get("mymod"), b if isinstance(b, tuple) else b.extra_mods.get("mymod")))
    # the `extension comment [lexer]` spelling of extra_filetypes in the project file: the parts are separated by any white space (aligned columns, tabs)
    a, d, _ = _run(md_meta="extra_filetypes: inc  !\n                 c    //  c\n                 h\t//\tcpp\n")
    b, d2, _ = _run(toml='extra_filetypes = [{extension = "inc", comment = "!"}, {extension = "c", comment = "//", lexer = "c"}, {extension = "h", comment = "//", lexer = "cpp"}]\n')
    ft = lambda x: x if isinstance(x, tuple) else sorted((k, v.extension, v.comment, v.lexer) for k, v in x.extra_filetypes.items())
    if ft(a) != ft(b) or isinstance(a, tuple):
        bad.append(("extra_filetypes with several blanks / tabs between the parts", ft(a), ft(b)))
    # a favicon the user names is the user's file, whatever its name - also one called favicon.png in the project directory
    for spelling in ("./favicon.png", "favicon.png", "./icons/logo.png"):
        a, d, _ = _run(md_meta=f"favicon: {spelling}\n")
        b, d2, _ = _run(toml=f'favicon = "{spelling}"\n')
        fa = a if isinstance(a, tuple) else os.path.relpath(str(a.favicon), d)
        fb = b if isinstance(b, tuple) else os.path.relpath(str(b.favicon), d2)
        want = os.path.normpath(spelling)
        if fa != want or fb != want:
            bad.append((f"favicon: {spelling} (relative to the project file)", {"project file": fa, "fpm.toml": fb}, want))
    # command line overrides file; explicit flags override --config; --config overrides file
    a, d, _ = _run(md_meta="quiet: false\nrevision: from-file\nmacro: FILE=1\n", cargs={"quiet": True, "revision": "from-cli", "macro": ["CLI=1"]})
    if isinstance(a, tuple) or (a.quiet, a.revision, a.macro) != (True, "from-cli", ["CLI=1"]):
        bad.append(("command line overrides file", a if isinstance(a, tuple) else (a.quiet, a.revision, a.macro), (True, "from-cli", ["CLI=1"])))
    a, d, _ = _run(md_meta="revision: from-file\n", cargs={"config": "revision = 'from-config'; quiet = false", "revision": "from-cli", "quiet": True})
    if isinstance(a, tuple) or (a.quiet, a.revision) != (True, "from-cli"):
        bad.append(("explicit flags override --config", a if isinstance(a, tuple) else (a.quiet, a.revision), (True, "from-cli")))
    a, d, _ = _run(md_meta="revision: from-file\n", cargs={"config": "revision = 'from-config'"})
    if isinstance(a, tuple) or a.revision != "from-config":
        bad.append(("--config overrides file", a if isinstance(a, tuple) else a.revision, "from-config"))
    # absent command-line values (None) leave file values alone
    a, d, _ = _run(md_meta="revision: from-file\n", cargs={"revision": None, "quiet": None})
    if isinstance(a, tuple) or a.revision != "from-file":
        bad.append(("None on the command line keeps the file value", a if isinstance(a, tuple) else a.revision, "from-file"))
    # unknown keys are reported, not fatal
    a, d, log = _run(md_meta="no_such_option: 1\nrevision: r1\n")
    if isinstance(a, tuple) or a.revision != "r1":
        bad.append(("unknown key must not abort", a if isinstance(a, tuple) else a.revision, "r1"))
    # ill-typed values are rejected with a message naming the option
    for meta, opt in (("graph: maybe\n", "graph"), ("alias: novalue\n", "alias"), ("search: yes\n    no\n", "search")):
        a, d, _ = _run(md_meta=meta)
        if not (isinstance(a, tuple) and opt in a[1]):
            bad.append((f"ill-typed {opt} must be rejected naming the option", a if isinstance(a, tuple) else getattr(a, opt), f"error mentioning '{opt}'"))
    # ... the same in fpm.toml: unknown keys reported without aborting, ill-typed values rejected naming the option
    a, d, log = _run(toml='no_such_option = 1\nrevision = "r1"\n')
    if isinstance(a, tuple) or a.revision != "r1" or "no_such_option" not in log:
        bad.append(("unknown key in fpm.toml must be reported and not abort", a if isinstance(a, tuple) else (a.revision, log[-120:]), "r1 + a report naming the key"))
    for toml, opt in (('graph = "maybe"\n', "graph"), ('graph_maxdepth = "x"\n', "graph_maxdepth"), ("search = 3\n", "search"), ("revision = 7\n", "revision")):
        a, d, _ = _run(toml=toml)
        if not (isinstance(a, tuple) and opt in a[1]):
            bad.append((f"ill-typed {opt} in fpm.toml must be rejected naming the option", a if isinstance(a, tuple) else getattr(a, opt), f"error mentioning '{opt}'"))
    # a flag is not a number: `true` for a numeric option is ill-typed in fpm.toml as it is in the project file
    for opt in ("graph_maxdepth", "graph_maxnodes", "max_frontpage_items", "parallel"):
        a, d, _ = _run(toml=f"{opt} = true\n")
        b, d2, _ = _run(md_meta=f"{opt}: true\n")
        if not (isinstance(a, tuple) and opt in a[1]) or not (isinstance(b, tuple) and opt in b[1]):
            bad.append((f"{opt} = true must be rejected naming the option in both formats", {"fpm.toml": a if isinstance(a, tuple) else repr(getattr(a, opt)), "project file": b if isinstance(b, tuple) else repr(getattr(b, opt))},
                        f"errors mentioning '{opt}'"))
    # the keys of a table option (alias, external, extra_mods) are the user's names: kept as written in every format
    a, d, _ = _run(md_meta="alias: ProjName = demo\n       lower = x\nexternal: RemoteLib = https://example.org/lib\n")
    b, d2, _ = _run(toml='alias = { ProjName = "demo", lower = "x" }\nexternal = { RemoteLib = "https://example.org/lib" }\n')
    ka = a if isinstance(a, tuple) else (sorted(k for k in a.alias if k in ("ProjName", "projname", "lower")), sorted(a.external))
    kb = b if isinstance(b, tuple) else (sorted(k for k in b.alias if k in ("ProjName", "projname", "lower")), sorted(b.external))
    if ka != kb or ka != (["ProjName", "lower"], ["RemoteLib"]):
        bad.append(("keys of alias / external as written", {"project file": ka, "fpm.toml": kb}, (["ProjName", "lower"], ["RemoteLib"])))
    # a number option takes an integer literal and nothing else, in both formats
    for lit in ("4.5", "2.0", "1e3"):
        a, d, _ = _run(md_meta=f"max_frontpage_items: {lit}\n")
        b, d2, _ = _run(toml=f"max_frontpage_items = {lit}\n")
        if not (isinstance(a, tuple) and "max_frontpage_items" in a[1]) or not (isinstance(b, tuple) and "max_frontpage_items" in b[1]):
            bad.append((f"max_frontpage_items = {lit} must be rejected naming the option in both formats", {"project file": a if isinstance(a, tuple) else repr(a.max_frontpage_items), "fpm.toml": b if isinstance(b, tuple) else repr(b.max_frontpage_items)},
                        "errors mentioning 'max_frontpage_items'"))
    # an option set to the empty string is set: `docmark_alt:` (nothing after the colon) switches the alternative doc comments off like `docmark_alt = ""`
    for opt in ("docmark_alt", "predocmark_alt", "year"):
        a, d, _ = _run(md_meta=f"{opt}:\nrevision: r1\n")
        b, d2, _ = _run(toml=f'{opt} = ""\n')
        va, vb = (a if isinstance(a, tuple) else getattr(a, opt)), (b if isinstance(b, tuple) else getattr(b, opt))
        if va != vb or va != "":
            bad.append((f"`{opt}:` with an empty value", {"project file": va, "fpm.toml": vb}, ""))
    a, d, _ = _run(md_meta="graph_maxdepth: x\n")
    if not (isinstance(a, tuple) and "graph_maxdepth" in a[1]):
        bad.append(("ill-typed integer in the project file must be rejected naming the option", a if isinstance(a, tuple) else a.graph_maxdepth, "error mentioning 'graph_maxdepth'"))
    # relative paths are relative to the project file whatever the working directory
    a, d, _ = _run(md_meta="src_dir: ./src\noutput_dir: ./out\nmedia_dir: ./m\n", chdir_project=True)
    b, d2, _ = _run(md_meta="src_dir: ./src\noutput_dir: ./out\nmedia_dir: ./m\n", chdir_project=False)
    if isinstance(a, tuple) or isinstance(b, tuple) or [os.path.relpath(str(p), d) for p in (a.src_dir[0], a.output_dir, a.media_dir)] != \
            [os.path.relpath(str(p), d2) for p in (b.src_dir[0], b.output_dir, b.media_dir)] or os.path.relpath(str(a.output_dir), d) != "out":
        bad.append(("paths relative to the project file", None, None))
    return bad


CONFIG_KNOWN = {"exclude_dir", "extensions", "extra_filetypes", "project_url", "relative"}


def config_diffs():
    """options whose value differs when given through --config instead of fpm.toml"""
    return sorted({name for name, v, res in all_diffs(("toml", "config"))})


FILE_VALUES = {"warn": True, "force": True, "graph": True, "search": False, "quiet": True, "dbg": False, "externalize": True, "revision": "from-file", "css": "./my.css",
               "page_dir": "./pages", "macro": ["FILE=1"], "extensions": ["f90x"]}


def argv_case():
    """the real command line (argparse, through ford.initialize()) with nothing but the project file on it: every option keeps the value the file gives it"""
    import sys
    init = loader.import_init()
    bad = []
    for fmt in ("md", "toml"):
        md = "".join(f"{k}: {md_repr(k, v) if not isinstance(v, (bool, str)) else str(v).lower() if isinstance(v, bool) else v}\n" for k, v in FILE_VALUES.items() if not isinstance(v, list)) \
            + "macro: FILE=1\nextensions: f90x\n"
        toml = "".join(f"{k} = {str(v).lower() if isinstance(v, bool) else json.dumps(v)}\n" for k, v in FILE_VALUES.items())
        files = {"src/a.f90": "module a\nend module a\n", "pages/index.md": "---\ntitle: t\n---\nx\n", "my.css": "",
                 "proj.md": "---\nproject: demo\npreprocess: false\n" + (md if fmt == "md" else "") + "---\n\nText\n"}
        if fmt == "toml":
            files["fpm.toml"] = 'name = "demo"\n[extra.ford]\nproject = "demo"\npreprocess = false\n' + toml
        with realrun.project_dir(files) as d:
            cwd, argv = os.getcwd(), sys.argv
            os.chdir(realrun.TMPROOT)
            sys.argv = ["ford", os.path.join(d, "proj.md")]
            out = io.StringIO()
            try:
                with contextlib.redirect_stdout(out), contextlib.redirect_stderr(out):
                    data, docs = init.initialize()
            except BaseException as e:
                bad.append((f"{fmt}: initialize() with only the project file on the command line", f"{type(e).__name__}: {e}", "settings"))
                continue
            finally:
                os.chdir(cwd)
                sys.argv = argv
            for k, v in FILE_VALUES.items():
                got = getattr(data, k)
                if k in ("css", "page_dir"):
                    got, v = os.path.basename(str(got)), os.path.basename(v)
                if k == "extensions":
                    ok = "f90x" in got
                else:
                    ok = got == v
                if not ok:
                    bad.append((f"{fmt}: option `{k}` is not on the command line and must keep the value of the file", got, v))
    return bad


def relative_project_file():
    """`ford proj/doc.md` from the parent directory (a relative path with a directory part) means the same as the absolute path or a run from inside `proj`: every path option is
    relative to the project file; and `--exclude_dir` on the command line replaces the file's list but the output directory stays excluded from the search for sources"""
    import sys
    init = loader.import_init()
    bad = []
    files = {"proj/src/a.f90": "module a\nend module a\n", "proj/pages/index.md": "---\ntitle: t\n---\nx\n",
             "proj/doc.md": "---\nproject: demo\npreprocess: false\nsrc_dir: ./src\noutput_dir: ./out\npage_dir: ./pages\nmedia_dir: ./media\ninclude: ./inc\nexclude_dir: ./src/old\n---\n\nText\n"}
    keys = ("src_dir", "output_dir", "page_dir", "media_dir", "include", "md_base_dir", "exclude_dir")
    with realrun.project_dir(files) as d:
        got = {}
        for label, cwd_, arg, extra in (("absolute", realrun.TMPROOT, os.path.join(d, "proj", "doc.md"), []), ("relative with a directory part", d, os.path.join("proj", "doc.md"), []),
                                        ("exclude_dir on the command line", d, os.path.join("proj", "doc.md"), ["--exclude_dir", "tmp"])):
            cwd, argv = os.getcwd(), sys.argv
            os.chdir(cwd_)
            sys.argv = ["ford", arg] + extra
            out = io.StringIO()
            try:
                with contextlib.redirect_stdout(out), contextlib.redirect_stderr(out):
                    data, docs = init.initialize()
                rel = lambda p: os.path.relpath(str(p), os.path.join(d, "proj"))
                got[label] = {k: (sorted(rel(x) for x in getattr(data, k)) if isinstance(getattr(data, k), list) else rel(getattr(data, k))) for k in keys}
            except BaseException as e:
                got[label] = f"{type(e).__name__}: {e}"
            finally:
                os.chdir(cwd)
                sys.argv = argv
    want = {"src_dir": ["src"], "output_dir": "out", "page_dir": "pages", "media_dir": "media", "include": ["inc"], "md_base_dir": ".", "exclude_dir": ["out", "src/old"]}
    for label in ("absolute", "relative with a directory part"):
        if got[label] != want:
            bad.append((f"project file given by a path that is {label}: path options relative to the directory of the project file", got[label], want))
    g = got["exclude_dir on the command line"]
    if not isinstance(g, dict) or "out" not in g["exclude_dir"] or g["src_dir"] != ["src"]:
        bad.append(("--exclude_dir tmp without -o: the output directory of the file stays excluded", g if not isinstance(g, dict) else g["exclude_dir"], "a list that holds 'out'"))
    return bad

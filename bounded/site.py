"""Generate a complete site with the real FORD (end to end, in a subprocess, inside a sandbox under out/tmp) and inspect the HTML that was written.
Shared by the bounded stand-ins of C09 (links), C16 (external projects), C17 (static pages) and C18 (rendered declarations)."""
from __future__ import annotations
import contextlib, html, html.parser, json, os, re, shutil, subprocess, sys, tempfile, urllib.parse
from bounded import realrun

VERIF = os.path.dirname(os.path.dirname(os.path.abspath(__file__)))


@contextlib.contextmanager
def site(files: dict, meta: str, cargs=None, body="Project text\n", name="proj.md", sandbox=None, proj="proj", hashseed="0"):
    """files: {path relative to the project directory: text}; meta: metadata lines of the project file.  Yields (project dir, status)."""
    os.makedirs(realrun.TMPROOT, exist_ok=True)
    sb = sandbox or tempfile.mkdtemp(dir=realrun.TMPROOT)
    try:
        pd = os.path.join(sb, proj)
        for rel, text in files.items():
            p = os.path.join(pd, rel)
            os.makedirs(os.path.dirname(p), exist_ok=True)
            with open(p, "w" if isinstance(text, str) else "wb") as f:
                f.write(text)
        os.makedirs(pd, exist_ok=True)
        pf = os.path.join(pd, name)
        os.makedirs(os.path.dirname(pf), exist_ok=True)
        with open(pf, "w") as f:
            f.write("---\nproject: demo\npreprocess: false\n" + meta + "---\n\n" + body)
        env = dict(os.environ, FORD_DEBUGGING="1", PYTHONHASHSEED=str(hashseed))
        r = subprocess.run([sys.executable, "-m", "bounded.fordrun", sb, pf] + ([json.dumps(cargs)] if cargs else []), cwd=VERIF, capture_output=True,
                           text=True, timeout=900, env=env)
        line = [l for l in r.stdout.splitlines() if l.startswith("##FORDRUN##")]
        status = json.loads(line[0][len("##FORDRUN##"):])["status"] if line else "no report: " + (r.stdout + r.stderr)[-600:]
        yield pd, status
    finally:
        if sandbox is None:
            shutil.rmtree(sb, ignore_errors=True)


class _Collector(html.parser.HTMLParser):
    def __init__(self):
        super().__init__(convert_charrefs=True)
        self.links, self.ids = [], set()

    def handle_starttag(self, tag, attrs):
        for k, v in attrs:
            if v is None:
                continue
            if k in ("id", "name") and not (tag == "meta" and k == "name"):
                self.ids.add(v)
            if k in ("href", "src", "xlink:href"):
                self.links.append((tag, k, v))

    handle_startendtag = handle_starttag


RAW_HREF = re.compile(r"""href=(?:"([^"]*)"|'([^']*)')""")


def scan(path):
    c = _Collector()
    with open(path, encoding="utf-8", errors="replace") as f:
        text = f.read()
    c.feed(text)
    # links written into attribute values (popover content) are links for the reader too: every href="..." of the raw text that the parser did not deliver as a tag attribute
    known = {u for _, _, u in c.links}
    for m in RAW_HREF.finditer(re.sub(r"(?is)<script\b.*?</script>", "", text)):
        u = html.unescape(m.group(1) if m.group(1) is not None else m.group(2))
        if u not in known and "{" not in u and not u.startswith(("javascript:", "data:")):
            c.links.append(("raw-text", "href", u))
            known.add(u)
    return c


EXTERNAL = re.compile(r"^(?:[a-zA-Z][a-zA-Z0-9+.-]*:|//)")


def walk_links(outdir, skip_fragment=lambda page, frag: False):
    """every href / src / xlink:href of every HTML page under outdir: relative, inside outdir, existing, fragment present.  -> list of problems"""
    outdir = os.path.realpath(outdir)
    pages, problems, nlinks = {}, [], 0
    for d, _, ff in os.walk(outdir):
        for f in ff:
            if f.endswith(".html"):
                p = os.path.join(d, f)
                pages[p] = scan(p)
    for p, c in sorted(pages.items()):
        rel = os.path.relpath(p, outdir)
        for tag, attr, url in c.links:
            if EXTERNAL.match(url) or url == "":
                continue
            nlinks += 1
            u = urllib.parse.urlsplit(url)
            if url.startswith("/"):
                problems.append(f"{rel}: <{tag} {attr}={url!r}> is absolute")
                continue
            target = os.path.normpath(os.path.join(os.path.dirname(p), urllib.parse.unquote(u.path))) if u.path else p
            if not (target == outdir or target.startswith(outdir + os.sep)):
                problems.append(f"{rel}: <{tag} {attr}={url!r}> leaves the output directory")
                continue
            if os.path.isdir(target):
                target = os.path.join(target, "index.html")
            if not os.path.exists(target):
                problems.append(f"{rel}: <{tag} {attr}={url!r}> points to {os.path.relpath(target, outdir)}, which was not written")
                continue
            if u.fragment and target.endswith(".html"):
                tc = pages.get(target) or scan(target)
                frag = urllib.parse.unquote(u.fragment)
                # (a browser looks for the fragment as written first, then for its percent-decoded form)
                if frag not in tc.ids and u.fragment not in tc.ids and not skip_fragment(os.path.relpath(target, outdir), frag):
                    problems.append(f"{rel}: <{tag} {attr}={url!r}>: no element with id/name {frag!r} in {os.path.relpath(target, outdir)}")
    return problems, nlinks, len(pages)


def search_index_links(outdir):
    """url fields of the search database (relative to the output root)"""
    problems, n = [], 0
    for name in ("search/search_database.json", "tipuesearch/tipuesearch_content.js"):
        p = os.path.join(outdir, name)
        if not os.path.exists(p):
            continue
        text = open(p, encoding="utf-8", errors="replace").read()
        for m in re.finditer(r'"(?:url|loc)"\s*:\s*"([^"]*)"', text):
            url = m.group(1)
            n += 1
            if EXTERNAL.match(url) or url.startswith("/"):
                problems.append(f"{name}: url {url!r} is not relative")
                continue
            u = urllib.parse.urlsplit(url)
            t = os.path.normpath(os.path.join(outdir, urllib.parse.unquote(u.path)))
            if not t.startswith(os.path.realpath(outdir)) and not t.startswith(outdir):
                problems.append(f"{name}: url {url!r} leaves the output directory")
            elif not os.path.exists(t):
                problems.append(f"{name}: url {url!r} points to a file that was not written")
    return problems, n

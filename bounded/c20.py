"""Bounded stand-in for C20 on the real pipeline: a valid project plus one corrupted file (truncated at every statement boundary, unbalanced END,
misplaced CONTAINS, arbitrary text, undecodable bytes); with default settings the documentation of the other files must equal the run without the
bad file, the bad file must be named in the diagnostic, and every run must terminate (watchdog)."""
from __future__ import annotations
import contextlib, io, os, signal
from bounded import realrun, canon
from harness import loader

GOOD = {
    "src/a_first.f90": "module alpha\n  implicit none\n  integer :: x\ncontains\n  subroutine work()\n    !! doc\n  end subroutine work\n  subroutine init()\n  end subroutine init\nend module alpha\n",
    "src/z_last.f90": "module omega\n  use alpha\n  implicit none\n  type :: t\n    integer :: c\n  end type t\ncontains\n  subroutine init()\n    call work()\n  end subroutine init\nend module omega\n",
}
VICTIM = ("module middle\n  use alpha\n  implicit none\n  type :: mt\n    integer :: q\n  contains\n    procedure :: bound\n  end type mt\n  interface gen\n    module procedure init\n  end interface gen\n"
          "contains\n  subroutine init()\n    call work()\n  end subroutine init\n  subroutine bound(self)\n    class(mt) :: self\n  end subroutine bound\nend module middle\n")


def corruptions():
    lines = VICTIM.splitlines()
    for k in range(1, len(lines)):
        yield f"truncated after line {k}", "\n".join(lines[:k]) + "\n"
    yield "unbalanced END", VICTIM + "end module middle\n"
    yield "END at file level first", "end\n" + VICTIM
    yield "stray END between two units", VICTIM + "end subroutine leftover\nmodule after\n  integer :: late\nend module after\n"
    yield "CONTAINS twice", VICTIM.replace("contains\n  subroutine init", "contains\ncontains\n  subroutine init")
    yield "CONTAINS in an interface", VICTIM.replace("    module procedure init\n", "    contains\n")
    yield "arbitrary text", "lorem ipsum (dolor sit & amet\n'unterminated string\n&&& ;;; !!\n"
    yield "leading ampersand", "& call nothing()\n"
    yield "spliced", VICTIM[: len(VICTIM) // 2] + GOOD["src/z_last.f90"]
    yield "ends inside a !> documentation block", VICTIM.replace("end module middle\n", "  !> documents a routine that was cut off\n  !> second line\n")
    yield "complete, then a dangling !> documentation block", VICTIM + "!> trailing documentation with nothing after it\n"
    yield "ends inside a !| documentation block", VICTIM.replace("end module middle\n", "  !| alternative block\n  ! goes on\n")
    yield "ends on a continuation line", VICTIM.replace("end module middle\n", "  subroutine dangling(a, &\n")
    yield "a MODULE statement that lost its name", "module\n  integer :: orphan\nend module\n"
    yield "undecodable bytes", b"module bad\n  character :: c = '\xff\xfe\xfa'\nend module bad\n\x80\x81"


MUST_REJECT = {"unbalanced END", "END at file level first", "stray END between two units"}


class Timeout(BaseException):
    pass


@contextlib.contextmanager
def watchdog(seconds):
    def handler(signum, frame):
        raise Timeout()
    old = signal.signal(signal.SIGALRM, handler)
    signal.alarm(seconds)
    try:
        yield
    finally:
        signal.alarm(0)
        signal.signal(signal.SIGALRM, old)


def build(files, name_bad=None):
    fp = loader.import_repo("ford.fortran_project")
    st = loader.import_repo("ford.settings")
    realrun.reset_names()
    import pathlib
    with realrun.project_dir({k: v for k, v in files.items() if isinstance(v, str)}) as d:
        for k, v in files.items():
            if isinstance(v, bytes):
                p = os.path.join(d, k)
                os.makedirs(os.path.dirname(p), exist_ok=True)
                open(p, "wb").write(v)
        out = io.StringIO()
        cwd = os.getcwd()
        os.chdir(d)
        try:
            with contextlib.redirect_stdout(out), contextlib.redirect_stderr(out):
                import ford.console as fc
                buf = io.StringIO()
                old = fc.console.file if hasattr(fc.console, "file") else None
                try:
                    fc.console.file = buf
                except Exception:
                    pass
                settings = st.ProjectSettings(src_dir=[pathlib.Path(d) / "src"], preprocess=False, display=["public", "private", "protected"])
                proj = fp.Project(settings)
                proj.correlate()
                try:
                    fc.console.file = old
                except Exception:
                    pass
        finally:
            os.chdir(cwd)
        tree = {f.name: canon.sourcefile(f) for f in proj.files}
        idents = sorted((type(e).__name__, e.name, e.filename, e.ident) for lst in ("modules", "procedures", "types") for e in getattr(proj, lst))
        return tree, idents, out.getvalue() + buf.getvalue()


def known_tolerated():
    """KNOWN FINDING C20-reported-not-skipped: files FORD cannot make sense of but does not reject"""
    out = []
    for label, text in corruptions():
        if label not in ("CONTAINS twice", "arbitrary text"):
            continue
        files = dict(GOOD)
        files["src/m_bad.f90"] = text
        tree, ids, log = build(files)
        if "m_bad.f90" in tree:
            out.append({"corruption": label, "reported": "m_bad.f90" in log, "skipped": False})
    if out:
        return {"confirmed": True, "input": {"cases": [o["corruption"] for o in out]}, "actual": out, "expected": "reported and skipped",
                "how": "Project(...) with default settings (dbg on: print_error prints and parsing goes on)"}
    return None


def markup_cases():
    """the diagnostic echoes the offending line and the file name: text that looks like console markup ('[/ 1, 2 /]', '[old]') must neither abort the run nor vanish"""
    for label, name, text in (("closing-tag look-alike in the echoed line", "src/m_bad.f90", "& x = [/ 1, 2 /]\n"),
                              ("closing-tag look-alike in the echoed line", "src/m_bad.f90", "& [/section] spliced text\n"),
                              ("tag look-alike in the file name", "src/m_copy[old].f90", "& call nothing()\n")):
        files = dict(GOOD)
        files[name] = text
        base = os.path.basename(name)
        try:
            with watchdog(60):
                tree, ids, log = build(files)
        except Exception as e:
            return {"confirmed": True, "input": {"corruption": label, "file": name, "text": text}, "actual": f"run aborted: {type(e).__name__}: {e}",
                    "expected": "the bad file is reported and skipped", "how": "Project(...) with default settings"}
        if base in tree or set(tree) != {os.path.basename(k) for k in GOOD}:
            return {"confirmed": True, "input": {"corruption": label, "file": name, "text": text}, "actual": sorted(tree), "expected": "only the valid files are documented", "how": "Project(...)"}
        if base not in log:
            return {"confirmed": True, "input": {"corruption": label, "file": name, "text": text}, "actual": "the diagnostic does not name the rejected file: " + log[-200:],
                    "expected": f"a diagnostic naming {base}", "how": "captured console output"}
    return None


def search():
    hit = markup_cases() or leak_cases() or preprocessor_exit_case() or command_line_run() or cyclic_submodule() or self_extending_type() or name_allocation_case()
    if hit:
        return hit
    try:
        with watchdog(60):
            ref_tree, ref_ids, _ = build(GOOD)
    except Exception as e:
        return {"confirmed": True, "input": "valid project", "actual": f"{type(e).__name__}: {e}", "expected": "parses", "how": "reference run"}
    for label, text in corruptions():
        files = dict(GOOD)
        files["src/m_bad.f90"] = text
        try:
            with watchdog(60):
                tree, ids, log = build(files)
        except Timeout:
            return {"confirmed": True, "input": {"corruption": label, "file": text if isinstance(text, str) else repr(text)}, "actual": "no termination within 60 s", "expected": "terminates",
                    "how": "watchdog around Project(...) + correlate()"}
        except Exception as e:
            return {"confirmed": True, "input": {"corruption": label, "file": text if isinstance(text, str) else repr(text)}, "actual": f"run aborted: {type(e).__name__}: {e}",
                    "expected": "the bad file is reported and skipped", "how": "Project(...) with default settings"}
        others = {k: v for k, v in tree.items() if k != "m_bad.f90"}
        if "m_bad.f90" in tree and label in MUST_REJECT:
            return {"confirmed": True, "input": {"corruption": label, "file": text}, "actual": "the file was accepted and documented with the part before the unbalanced END",
                    "expected": "a file with an unbalanced END is reported and skipped", "how": "Project(...) with default settings"}
        if "m_bad.f90" in tree:
            # the file happened to parse (e.g. truncation at a point where the rest is optional is impossible here, splice may parse): then nothing to compare
            parsed_ok = True
        else:
            parsed_ok = False
            if "m_bad.f90" not in log:
                return {"confirmed": True, "input": {"corruption": label}, "actual": "rejected file is not named in any diagnostic", "expected": "diagnostic naming m_bad.f90", "how": "captured output"}
        if not parsed_ok:
            d = canon.diff(tuple(sorted(ref_tree.items())), tuple(sorted(others.items())))
            if d:
                return {"confirmed": True, "input": {"corruption": label, "file": text if isinstance(text, str) else repr(text)}, "actual": d, "expected": "entity trees of the valid files unchanged",
                        "how": "canonical entity trees with and without the corrupted file"}
            ids_others = [i for i in ids if i[2] != "m_bad.f90"]
            if ids_others != ref_ids:
                diff = [(a, b) for a, b in zip(ref_ids, ids_others) if a != b][:3]
                return {"confirmed": True, "input": {"corruption": label, "file": text if isinstance(text, str) else repr(text)}, "actual": diff,
                        "expected": "identifiers (page names) of the valid files' entities unchanged", "how": "idents with and without the corrupted file"}
    return None


def count_cases():
    return sum(1 for _ in corruptions()) + 7


def leak_cases():
    """what the reader had buffered when a file was rejected (documentation lines, `;`-fragments) must not turn up in the file read next"""
    bads = {
        "inline doc on the rejected statement": "module bad\n  real(kind=8 :: x !! summary: LEAKEDWORDS from the bad file\nend module bad\n",
        "fragments after the rejected statement": "module bad\n  real(kind=8 :: x; integer :: leaked_one; integer :: leaked_two\nend module bad\n",
        "stray end with a doc comment": "end module bad !! license: LEAKEDWORDS\n",
    }
    fp = loader.import_repo("ford.fortran_project")
    for label, text in bads.items():
        files = dict(GOOD)
        files["src/m_bad.f90"] = text
        try:
            with watchdog(60):
                tree, ids, log = build(files)
                ref_tree, ref_ids, _ = build(GOOD)
        except Exception as e:
            return {"confirmed": True, "input": {"corruption": label, "file": text}, "actual": f"run aborted: {type(e).__name__}: {e}", "expected": "reported and skipped", "how": "Project(...)"}
        others = {k: v for k, v in tree.items() if k != "m_bad.f90"}
        d = canon.diff(tuple(sorted(ref_tree.items())), tuple(sorted(others.items())))
        if d:
            return {"confirmed": True, "input": {"corruption": label, "file": text}, "actual": d, "expected": "entity trees of the valid files unchanged", "how": "canonical trees with / without the bad file"}
    # documentation and metadata of the valid files with and without the bad file
    def docs(files):
        st = loader.import_repo("ford.settings")
        realrun.reset_names()
        import pathlib
        with realrun.project_dir(files) as d:
            out = io.StringIO()
            with contextlib.redirect_stdout(out), contextlib.redirect_stderr(out):
                import ford.console as fc
                old = fc.console.file
                fc.console.file = io.StringIO()
                try:
                    proj = fp.Project(st.ProjectSettings(src_dir=[pathlib.Path(d) / "src"], preprocess=False, display=["public", "private", "protected"]))
                finally:
                    fc.console.file = old
            res = {}
            for f in proj.files:
                if f.name == "m_bad.f90":
                    continue
                for e in realrun.walk_entities(f):
                    res[(f.name, type(e).__name__, getattr(e, "name", ""))] = (list(getattr(e, "doc_list", [])), str(getattr(getattr(e, "meta", None), "summary", None)), str(getattr(getattr(e, "meta", None), "license", None)))
            return res
    ref = docs(GOOD)
    for label, text in bads.items():
        files = dict(GOOD)
        files["src/m_bad.f90"] = text
        got = docs(files)
        diff = [(k, ref.get(k), got.get(k)) for k in sorted(set(ref) | set(got), key=str) if ref.get(k) != got.get(k)]
        if diff:
            return {"confirmed": True, "input": {"corruption": label, "file": text}, "actual": [str(x)[:300] for x in diff[:3]], "expected": "documentation and metadata of the valid files unchanged",
                    "how": "doc_list / summary / license of every entity of the valid files, with and without the rejected file (which is read before z_last.f90)"}
    return None


def preprocessor_exit_case():
    """a preprocessed file the built-in preprocessor gives up on (it includes itself): reported, and the run goes on with the other files"""
    fp = loader.import_repo("ford.fortran_project")
    st = loader.import_repo("ford.settings")
    import pathlib
    files = dict(GOOD)
    files["src/m_loop.F90"] = '#include "m_loop.F90"\nmodule looping\nend module looping\n'
    realrun.reset_names()
    with realrun.project_dir(files) as d:
        out = io.StringIO()
        cwd = os.getcwd()
        os.chdir(d)
        try:
            with contextlib.redirect_stdout(out), contextlib.redirect_stderr(out):
                import ford.console as fc
                old = fc.console.file
                fc.console.file = io.StringIO()
                try:
                    with watchdog(120):
                        proj = fp.Project(st.ProjectSettings(src_dir=[pathlib.Path(d) / "src"], display=["public", "private", "protected"]))
                finally:
                    fc.console.file = old
            names = sorted(f.name for f in proj.files)
        except BaseException as e:
            return {"confirmed": True, "input": {"file": files["src/m_loop.F90"], "preprocess": True}, "actual": f"run aborted: {type(e).__name__}: {e}",
                    "expected": "the other files are documented", "how": "Project(...) with the default preprocessor (pcpp)"}
        finally:
            os.chdir(cwd)
    if not {"a_first.f90", "z_last.f90"} <= set(names):
        return {"confirmed": True, "input": {"file": files["src/m_loop.F90"]}, "actual": names, "expected": "a_first.f90 and z_last.f90 documented", "how": "Project(...) with the default preprocessor"}
    return None


def command_line_run():
    """the defaults a user gets are those of the command line: `ford project.md` with nothing else on it, one source file truncated in the middle of a module - the file is
    reported and skipped, the run goes on and the other files are documented (also when the project file itself asks for `dbg: true`)"""
    import sys
    init = loader.import_init()
    fp = loader.import_repo("ford.fortran_project")
    for extra in ("", "dbg: true\n"):
        files = {"src/a_good.f90": "module a_good\n  integer :: n\nend module a_good\n", "src/b_bad.f90": "module b_bad\n  integer :: m\ncontains\n  subroutine cut(\n",
                 "src/c_good.f90": "module c_good\n  use a_good\nend module c_good\n", "proj.md": "---\nproject: demo\npreprocess: false\nsrc_dir: ./src\n" + extra + "---\n\nText\n"}
        with realrun.project_dir(files) as d:
            cwd, argv = os.getcwd(), sys.argv
            os.chdir(d)
            sys.argv = ["ford", os.path.join(d, "proj.md")]
            out = io.StringIO()
            realrun.reset_names()
            import ford.console as fc
            old = getattr(fc.console, "file", None)
            try:
                with contextlib.redirect_stdout(out), contextlib.redirect_stderr(out), watchdog(60):
                    with contextlib.suppress(Exception):
                        fc.console.file = out
                    data, docs = init.initialize()
                    proj = fp.Project(data)
                got = sorted(m.name for m in proj.modules)
            except BaseException as e:
                got = f"{type(e).__name__}: {str(e)[:200]}"
            finally:
                with contextlib.suppress(Exception):
                    fc.console.file = old
                os.chdir(cwd)
                sys.argv = argv
        if got != ["a_good", "c_good"] or "b_bad.f90" not in out.getvalue():
            return {"confirmed": True, "input": {"files": files, "command line": "ford proj.md"}, "actual": {"modules": got, "b_bad.f90 named in the output": "b_bad.f90" in out.getvalue()},
                    "expected": {"modules": ["a_good", "c_good"], "b_bad.f90 named in the output": True}, "how": "ford.initialize() with a real argv, then Project(settings): the truncated file is reported and skipped"}
    return None


def cyclic_submodule():
    """a parseable file whose submodule names itself (or a descendant) as its parent: FORD terminates and the file is named in the diagnostic"""
    for label, text in (("its own parent", "submodule (m:sub) sub\ncontains\n  module subroutine s()\n  end subroutine s\nend submodule sub\n"),
                        ("two submodules naming each other", "submodule (m:two) one\nend submodule one\nsubmodule (m:one) two\nend submodule two\n")):
        files = dict(GOOD)
        files["src/m_bad.f90"] = "module m\n  interface\n    module subroutine s()\n    end subroutine s\n  end interface\nend module m\n" + text
        try:
            with watchdog(60):
                tree, ids, log = build(files)
            msg = log
        except Timeout:
            return {"confirmed": True, "input": {"case": label, "file": files["src/m_bad.f90"]}, "actual": "no termination within 60 s", "expected": "terminates", "how": "watchdog around Project(...) + correlate()"}
        except Exception as e:
            msg = f"{type(e).__name__}: {e}"
        # (a cycle between two submodules is a circular dependency of the project, reported by the sorter without a file name: only termination is asked there)
        if label == "its own parent" and "m_bad.f90" not in msg and "m_bad" not in msg:
            return {"confirmed": True, "input": {"case": label, "file": files["src/m_bad.f90"]}, "actual": msg[-300:], "expected": "a diagnostic that names m_bad.f90 (or a normal run)",
                    "how": "Project(...) + correlate() with default settings"} if "Error" in msg or "Traceback" in msg else None
    return None


def self_extending_type():
    """a parseable file with a type that names itself (or a descendant) as its parent, and a call through an object of that type: FORD terminates and the other files are
    documented as without it"""
    for label, text in (("extends itself", "module bad\n  type, extends(selfish) :: selfish\n    integer :: n\n  contains\n    procedure :: foo\n  end type selfish\ncontains\n  subroutine foo(self)\n    class(selfish) :: self\n"
                                            "  end subroutine foo\n  subroutine use_it()\n    type(selfish) :: x\n    call x%foo()\n  end subroutine use_it\nend module bad\n"),):
        files = dict(GOOD)
        files["src/m_bad.f90"] = text
        try:
            with watchdog(60):
                ref_tree, ref_ids, _ = build(dict(GOOD))
                tree, ids, log = build(files)
        except Timeout:
            return {"confirmed": True, "input": {"case": label, "file": text}, "actual": "no termination within 60 s", "expected": "terminates", "how": "watchdog around Project(...) + correlate()"}
        except Exception as e:
            return {"confirmed": True, "input": {"case": label, "file": text}, "actual": f"{type(e).__name__}: {e}", "expected": "the run goes on", "how": "Project(...) + correlate() with default settings"}
        lost = [x for x in ref_ids if x not in ids]
        if lost:
            return {"confirmed": True, "input": {"case": label, "file": text}, "actual": {"entities of the valid files that are missing or renamed": lost[:5]}, "expected": "as without the file",
                    "how": "Project(...) + correlate() with and without the file"}
    return None


def name_allocation_case():
    """a rejected file leaves nothing behind - not even a used-up output name: a corrupt copy of a module (its CONTAINS line lost: an error is printed inside the module, then the
    unbalanced END rejects the file) read before the valid file does not push the valid module to `omega~2`"""
    bad_copy = GOOD["src/z_last.f90"].replace("contains\n", "")
    files = dict(GOOD)
    files["src/b_copy_of_last.f90"] = bad_copy
    try:
        with watchdog(60):
            ref_tree, ref_ids, _ = build(GOOD)
            tree, ids, log = build(files)
    except Timeout:
        return {"confirmed": True, "input": {"files": files}, "actual": "no termination within 60 s", "expected": "terminates", "how": "watchdog"}
    except Exception as e:
        return {"confirmed": True, "input": {"files": files}, "actual": f"run aborted: {type(e).__name__}: {e}", "expected": "the bad file is reported and skipped", "how": "Project(...) with default settings"}
    if "b_copy_of_last.f90" in tree:
        return None          # (accepted after all: nothing to compare)
    ids_others = [i for i in ids if i[2] != "b_copy_of_last.f90"]
    if ids_others != ref_ids:
        diff = [(a, b) for a, b in zip(ref_ids, ids_others) if a != b][:3]
        return {"confirmed": True, "input": {"files": files}, "actual": diff, "expected": "identifiers (page names) of the valid files' entities as without the corrupt file",
                "how": "idents with and without a corrupt copy of a valid module that is read first"}
    return None

"""Bounded stand-in for C18, differential: one project is rendered twice with the real FORD - once with benign placeholders (alphanumeric literals, '+'
operators) and once with the contents under test (HTML- and Markdown-significant literals, relational operators).  On every page the tag skeleton
must be identical, and the text of the second rendering must be the text of the first with every placeholder replaced by its content."""
from __future__ import annotations
import html.parser, os, re
from bounded import site

# placeholder -> content under test (what stands between the quotes / the expression)
LITERALS = {
    "LITA": "<b>bold</b>", "LITB": "a & b &amp; c", "LITC": 'say "hi"', "LITD": "back\\slash \\n", "LITE": "two  blanks   three", "LITF": '(a,i0,"<b>",f8.3)',
    "LITG": "</td></tr><b>x</b>", "LITH": "*star* _under_ `tick` [l](u)", "LITI": "<i>", "LITJ": "R&D <x>", "LITK": "c_<name>&",
}
EXPRS = {"pa1+pb1": "pa1<pb1", "pa2+pb2": "pa2>pb2", "pa3+pb3": "pa3<=pb3", "pa4+pb4": "pa4<pb4"}

TEMPLATE = """module decl
  !! declarations
  implicit none
  integer, parameter :: pa1 = 1, pb1 = 2, pa2 = 1, pb2 = 2, pa3 = 1, pb3 = 2, pa4 = 1, pb4 = 2
  character(len=*), parameter :: s1 = 'LITA'
  character(len=*), parameter :: s2 = "LITB"
  character(len=*), parameter :: s3 = 'LITC'
  character(len=*), parameter :: s4 = 'LITD'
  character(len=*), parameter :: s5 = 'LITE'
  character(len=*), parameter :: s6 = 'LITF'
  character(len=*), parameter :: s7 = 'LITG'
  character(len=*), parameter :: s8 = 'LITH'
  character(len=7), dimension(2) :: two = ['LITA', 'LITB']
  logical, parameter :: l1 = EXPR1
  logical, parameter :: l2 = EXPR2 .and. EXPR3
  integer, parameter :: arr(3) = [1, 2, 3]
  integer(kind=merge(4, 8, EXPR4)) :: k1
  real(kind=pa1/1) :: halfk
  character(len=9) :: ps
  parameter (ps = 'LITJ')
  integer :: noinit
  real :: d1(merge(2, 3, EXPR4))
  character(len=merge(2, 3, EXPR4)) :: c1
  real, dimension(2), target, save :: tgt = [1.0, 2.0]
  real, pointer :: ptr(:) => null()
  integer :: nl_var = 3
  character(len=9) :: nl_str = 'LITJ'
  namelist /settings/ nl_var, nl_str, noinit
  type :: holder
    !! a type
    character(len=3) :: comp = 'LITI'
    integer :: n = 2
  end type holder
contains
  function twice(x, label, flag) result(y) bind(C, name='LITK')
    !! a function
    integer, intent(in) :: x
    character(len=*), intent(in), optional :: label
    logical, intent(inout) :: flag
    integer :: y
    y = 2 * x
  end function twice
  subroutine show(h, msg)
    !! a subroutine
    type(holder), intent(in) :: h
    character(len=*), intent(in) :: msg
    character(len=9) :: local_s = 'LITJ'
    namelist /inner/ local_s
  end subroutine show
end module decl
"""
META = "src_dir: ./src\noutput_dir: ./doc\ngraph: false\nsearch: false\nincl_src: false\nproc_internals: true\ndisplay: public\n         private\n         protected\n"


def source(benign: bool, only=None):
    s = TEMPLATE
    for i, (plain, nasty) in enumerate(EXPRS.items(), 1):
        s = s.replace(f"EXPR{i}", plain if benign or (only is not None and plain not in only) else nasty)
    if not benign:
        for ph, content in LITERALS.items():
            if only is not None and ph not in only:
                continue
            # a quote of the delimiting kind is doubled inside a Fortran literal
            s = re.sub(r"'" + ph + r"'", lambda m: "'" + content.replace("'", "''") + "'", s)
            s = re.sub(r'"' + ph + r'"', lambda m: '"' + content.replace('"', '""') + '"', s)
    return s


class Skeleton(html.parser.HTMLParser):
    def __init__(self):
        super().__init__(convert_charrefs=True)
        self.tags, self.text = [], []

    def handle_starttag(self, tag, attrs):
        self.tags.append("<" + tag)

    def handle_endtag(self, tag):
        self.tags.append("</" + tag)

    def handle_data(self, data):
        self.text.append(data)


def skeleton(path):
    p = Skeleton()
    p.feed(open(path, encoding="utf-8").read())
    p.close()
    text = re.sub(r"[ \t\r\n\xa0]+", " ", "".join(p.text))
    return p.tags, text


def render(benign, only=None):
    files = {"src/decl.f90": source(benign, only)}
    with site.site(files, META) as (pd, status):
        if not status.startswith("ok"):
            return None, status
        out = {}
        root = os.path.join(pd, "doc")
        for d, _, ff in os.walk(root):
            for f in ff:
                if f.endswith(".html"):
                    out[os.path.relpath(os.path.join(d, f), root)] = skeleton(os.path.join(d, f))
        return out, status


def expected_text(text, only=None):
    for ph, content in LITERALS.items():
        if only is None or ph in only:
            text = text.replace(ph, re.sub(r"[ \t\xa0]+", " ", content))
    for plain, nasty in EXPRS.items():
        if only is None or plain in only:
            text = text.replace(plain, nasty)
    return text


def first_diff(a, b):
    n = min(len(a), len(b))
    i = next((k for k in range(n) if a[k] != b[k]), n)
    return i


def compare(only=None):
    base, st0 = render(True)
    test, st1 = render(False, only)
    if base is None or test is None:
        return [f"the run failed: {st0} / {st1}"], 0
    bad = []
    if set(base) != set(test):
        bad.append(f"different pages are written: {sorted(set(base) ^ set(test))}")
    shown = 0
    for page in sorted(set(base) & set(test)):
        (t0, x0), (t1, x1) = base[page], test[page]
        shown += sum(x0.count(ph) for ph in LITERALS) + sum(x0.count(e) for e in EXPRS)
        if t0 != t1:
            i = first_diff(t0, t1)
            bad.append(f"{page}: the element structure changes with the contents of the source text: tags {t0[max(0, i - 3):i + 3]} become {t1[max(0, i - 3):i + 3]}")
            continue
        want = expected_text(x0, only)
        if want != x1:
            i = first_diff(want, x1)
            bad.append(f"{page}: shown text differs from the source text: expected ...{want[max(0, i - 40):i + 40]!r}... shown ...{x1[max(0, i - 40):i + 40]!r}...")
    return bad, shown


FRAGMENTS = {           # page -> pieces of declaration text that must be shown (derived-type prototypes are links: the text around the link must survive)
    "proc/show.html": ["type(holder)", "character(len=*)", "intent(in)", "character(len=9)"],
    "proc/twice.html": ["integer", "intent(in)", "optional", "logical", "intent(inout)"],
    "module/decl.html": ["character(len=*)", "parameter", "character(len=7)", "dimension(2)", "integer(kind=merge(4,8,pa4+pb4))", "logical", "real(kind=pa1/1)", "'LITJ'"],
    "namelist/settings.html": ["nl_var", "nl_str", "noinit", "'LITJ'"],
    "type/holder.html": ["character(len=3)", "integer"],
}


def shown_fragments():
    base, st = render(True)
    if base is None:
        return [f"the run failed: {st}"]
    bad = []
    for page, frags in FRAGMENTS.items():
        if page not in base:
            bad.append(f"{page} was not written")
            continue
        text = base[page][1].replace(" ", "")
        for f in frags:
            if f.replace(" ", "") not in text:
                bad.append(f"{page}: the declaration text {f!r} is not shown")
        for junk in ("../real(", "None", '"0"'):
            if junk in base[page][1] and page in ("module/decl.html", "namelist/settings.html"):
                bad.append(f"{page}: shows {junk!r}, which is not in the source")
    return bad


def search(groups=None):
    groups = groups or [None]
    if groups == [None] or any(g is not None and len(g) > 3 for g in groups):
        bad = shown_fragments()
        if bad:
            return {"confirmed": True, "input": {"source": source(True)}, "actual": bad[:5], "expected": "type, kind/len, attributes and intent are shown as declared",
                    "how": "real end-to-end run; text of the written pages"}
    for only in groups:
        bad, shown = compare(only)
        if not bad and shown < 10 and only is None:
            bad = [f"the benign rendering shows only {shown} placeholders: the harness does not reach the declarations"]
        if bad:
            keys = list(LITERALS) + list(EXPRS) if only is None else list(only)
            return {"confirmed": True, "input": {"contents": {k: (LITERALS.get(k) or EXPRS.get(k)) for k in keys}, "source": source(False, only)}, "actual": bad[:5],
                    "expected": "same element structure as with alphanumeric contents, and the shown text equal to the source text",
                    "how": "two real end-to-end runs (placeholders vs contents under test); every written page parsed with html.parser; tag sequences and texts compared"}
    return None


# ------------------------------------------------------------------ display strings of parsed declarations (stand-in / replay for the full_type contracts)
DECLS = [
    ("integer :: a", "integer", "integer"),
    ("integer(kind=8) :: a", "integer(kind=8)", "integer(kind=8)"),
    ("real(kind=selected_real_kind(15, 307)), dimension(3), save :: a", "real(kind=selected_real_kind(15,307))", "real(kind=selected_real_kind(15,307)), dimension(3), save"),
    ("character(len=n+1) :: a", "character(len=n+1)", "character(len=n+1)"),
    ("character(len=max(1, n), kind=ck) :: a", "character(kind=ck, len=max(1,n))", "character(kind=ck, len=max(1,n))"),
    ("character(len=*), parameter :: a = 'x'", "character(len=*)", "character(len=*), parameter"),
    ("type(foo_t), pointer :: a(:) => null()", "type(foo_t)", "type(foo_t), pointer, (:)"),
    ("class(foo_t(k=4)), allocatable :: a", "class(foo_t(k=4))", "class(foo_t(k=4)), allocatable"),
    ("logical, parameter :: a = x <= y", "logical", "logical, parameter"),
    ("real, dimension(2, merge(2, 3, p < q)), target :: a", "real", "real, dimension(2, merge(2, 3, p < q)), target"),
]
# (function statement, attributes, result type) - the prefix holds attributes and a type whose name may contain an attribute word
PREFIXES = [
    ("pure elemental real(8) function f(x)", ["pure", "elemental"], "real(kind=8)"),
    ("type(pure_t) function f(x)", [], "type(pure_t)"),
    ("recursive type(module_data) function f(x)", ["recursive"], "type(module_data)"),
    ("impure elemental integer function f(x)", ["impure", "elemental"], "integer"),
    ("double precision function f(x)", [], "double precision"),
]


def decl_search():
    from bounded import realrun
    for decl, ft, fd in DECLS:
        src = f"module m\n  {decl}\nend module m\n"
        try:
            f = realrun.parse_source(src)
            v = f.modules[0].variables[0]
            got = (v.full_type, v.full_declaration)
        except Exception as ex:
            got = (f"{type(ex).__name__}: {ex}", "")
        if got != (ft, fd):
            return {"confirmed": True, "input": {"declaration": decl}, "actual": {"full_type": got[0], "full_declaration": got[1]},
                    "expected": {"full_type": ft, "full_declaration": fd}, "how": "real parser on a one-declaration module; FortranVariable.full_type / full_declaration"}
    for stmt, attrs, rtype in PREFIXES:
        src = f"module m\n  type :: pure_t\n  end type pure_t\n  type :: module_data\n  end type module_data\ncontains\n  {stmt}\n    real :: x\n  end function f\nend module m\n"
        try:
            fn = realrun.parse_source(src).modules[0].functions[0]
            got = (sorted(fn.attribs), fn.retvar.full_type)
        except Exception as ex:
            got = (f"{type(ex).__name__}: {ex}", "")
        if got != (sorted(attrs), rtype):
            return {"confirmed": True, "input": {"statement": stmt}, "actual": {"attributes": got[0], "result type": got[1]}, "expected": {"attributes": sorted(attrs), "result type": rtype},
                    "how": "real parser; prefix of a function statement"}
    # the `lower` option lower-cases code, never the text of a character literal
    src = ("module m\n  CHARACTER(LEN=*), PARAMETER :: Greeting = \"Hello, World <Mr. X>\"\n  character(len=8) :: Tag\n  PARAMETER (Tag = 'MiXeD')\ncontains\n"
           "  FUNCTION Answer() BIND(C, NAME=\"Get_Answer_C\") RESULT(R)\n    INTEGER :: R\n    R = 42\n  END FUNCTION Answer\nend module m\n")
    try:
        f = realrun.parse_source(src, lower=True)
        m = f.modules[0]
        got = {"greeting": m.variables[0].initial, "tag": m.variables[1].initial, "bind": m.functions[0].bindC}
    except Exception as ex:
        got = f"{type(ex).__name__}: {ex}"
    want = {"greeting": '"Hello, World <Mr. X>"', "tag": "'MiXeD'", "bind": 'c, name="Get_Answer_C"'}
    if got != want:
        return {"confirmed": True, "input": {"source": src, "lower": True}, "actual": got, "expected": want, "how": "real parser with the option lower: true; literals of initial values, PARAMETER statements and bind names"}
    # values given by a PARAMETER statement are expressions too: relational operators hold `=`
    src = ("module m\n  integer, parameter :: n = 3\n  logical small, same, differ, big\n  character(len=6) :: op\n"
           "  parameter (small = n <= 3, same = n == 4, differ = n /= 2, big = merge(1, 2, n >= 2) == 1)\n  parameter (op = 'a <= b')\nend module m\n")
    try:
        m = realrun.parse_source(src).modules[0]
        got = {v.name: str(v.initial).replace(" ", "") for v in m.variables if v.name != "n"}
    except Exception as ex:
        got = f"{type(ex).__name__}: {ex}"
    want = {"small": "n<=3", "same": "n==4", "differ": "n/=2", "big": "merge(1,2,n>=2)==1", "op": "'a<=b'"}
    if got != want:
        return {"confirmed": True, "input": {"source": src}, "actual": got, "expected": want, "how": "real parser; initial values given by PARAMETER statements (blanks aside)"}
    # attribute statements naming several entities: each one gets its own bounds, and one without bounds gets none
    src = ("module m\n  real :: work, scale, first, last, flag, cnt\n  integer, parameter :: n = 4\n  pointer :: work(:,:), scale\n  allocatable :: first(:), last\n  dimension flag(n), cnt\n  target :: cnt\nend module m\n")
    try:
        m = realrun.parse_source(src).modules[0]
        shape = lambda v: v.dimension or next((a[len("dimension"):].strip() for a in v.attribs if a.startswith("dimension")), "")
        got = {v.name: (shape(v), sorted(a for a in v.attribs if not a.startswith("dimension"))) for v in m.variables if v.name != "n"}
    except Exception as ex:
        got = f"{type(ex).__name__}: {ex}"
    want = {"work": ("(:,:)", ["pointer"]), "scale": ("", ["pointer"]), "first": ("(:)", ["allocatable"]), "last": ("", ["allocatable"]), "flag": ("(n)", []), "cnt": ("", ["target"])}
    if got != want:
        return {"confirmed": True, "input": {"source": src}, "actual": got, "expected": want, "how": "real parser; (dimension, attributes) of variables shaped by POINTER / ALLOCATABLE / DIMENSION / TARGET statements"}
    # bounds written in a COMMON statement belong to the member whatever the letter case of its name
    src = "module m\n  real Grid, w\n  integer KOUNT\n  common /mesh/ Grid(10,20), w(5), KOUNT(3)\nend module m\n"
    try:
        m = realrun.build_project({"src/m.f90": src}).modules[0]
        shape = lambda v: v.dimension or next((a[len("dimension"):].strip() for a in v.attribs if a.startswith("dimension")), "")
        got = {v.name.lower(): shape(v) for c in m.common for v in c.variables if not isinstance(v, str)}
    except Exception as ex:
        got = f"{type(ex).__name__}: {ex}"
    want = {"grid": "(10,20)", "w": "(5)", "kount": "(3)"}
    if got != want:
        return {"confirmed": True, "input": {"source": src}, "actual": got, "expected": want, "how": "real parser; bounds of common-block members given in the COMMON statement"}
    # the suffix of a function statement: RESULT and BIND in either order; the binding label is the text inside bind(...) and nothing else
    for stmt, bindc, res in (('function f(x) bind(c, name="f_c") result(rr)', 'c, name="f_c"', "rr"), ('function f(x) result(rr) bind(c, name="f_c")', 'c, name="f_c"', "rr"),
                             ("function f(x) bind(c) result(rr)", "c", "rr"), ("function f(x) result(rr)", None, "rr"), ("function f(x) bind(C, name='q(1)')", "C, name='q(1)'", "f")):
        src = f"module m\ncontains\n  {stmt}\n    integer :: x, rr\n  end function f\nend module m\n"
        try:
            fn = realrun.parse_source(src).modules[0].functions[0]
            got = (fn.bindC, fn.retvar.name if not isinstance(fn.retvar, str) else fn.retvar)
        except Exception as ex:
            got = (f"{type(ex).__name__}: {ex}", "")
        if got != (bindc, res):
            return {"confirmed": True, "input": {"statement": stmt}, "actual": {"bind": got[0], "result": got[1]}, "expected": {"bind": bindc, "result": res},
                    "how": "real parser; suffix of a function statement (the heading shows `bind(<label>)`)"}
    return None


def pages_are_utf8():
    """the pages declare `<meta charset="utf-8">`: what is on disk is UTF-8 whatever the encoding of the *sources* - a literal with repeated blanks (shown with non-breaking
    blanks) or a non-ASCII character reads back as written"""
    from bounded import site
    import os
    files = {"src/m.f90": "module m\n  !! module doc\n  character(len=*), parameter :: banner = \"==  <init>  ==\"\n    !! banner doc\n  character(len=*), parameter :: word = 'caf\xe9'\n    !! word doc\nend module m\n".encode("latin-1")}
    with site.site(files, "src_dir: ./src\noutput_dir: ./doc\nencoding: latin-1\nsearch: false\n") as (pd, status):
        out = os.path.join(pd, "doc")
        if not status.startswith("ok"):
            return {"confirmed": True, "input": {"encoding": "latin-1"}, "actual": status[:300], "expected": "FORD runs", "how": "full FORD run"}
        page = os.path.join(out, "module", "m.html")
        raw = open(page, "rb").read()
        try:
            text = raw.decode("utf-8")
        except UnicodeDecodeError as e:
            return {"confirmed": True, "input": {"source encoding": "latin-1", "literal": "==  <init>  =="}, "actual": f"module/m.html is not UTF-8: {e}", "expected": "a UTF-8 page (it declares charset=utf-8)",
                    "how": "full FORD run with encoding: latin-1; bytes of the module page"}
        import html as _h
        plain = _h.unescape(re.sub(r"<[^>]+>", "", text)).replace("\xa0", " ")
        if "==  <init>  ==" not in plain or "caf\xe9" not in plain:
            return {"confirmed": True, "input": {"source encoding": "latin-1"}, "actual": [l for l in plain.splitlines() if "init" in l or "caf" in l][:4], "expected": "the literals `==  <init>  ==` and `caf\xe9` as written",
                    "how": "full FORD run with encoding: latin-1; text of the module page read with the charset it declares"}
    return None


def heading_cases():
    """the heading of a function shows a RESULT clause exactly when the source has one (Fortran names are case-insensitive: `function Foo(x)` with `integer :: foo` has none)"""
    import os, html as _html
    from bounded import site
    src = ("module m\n  implicit none\ncontains\n  function Foo(x)\n    !! no result clause\n    integer :: x\n    integer :: foo\n    foo = x\n  end function Foo\n"
           "  function bar(x) result(Res)\n    !! with a result clause\n    integer :: x\n    integer :: res\n    res = x\n  end function bar\nend module m\n")
    with site.site({"src/m.f90": src}, "src_dir: ./src\noutput_dir: ./doc\ngraph: false\nsearch: false\n") as (pd, status):
        if not status.startswith("ok"):
            return {"confirmed": True, "input": {"source": src}, "actual": status[:300], "expected": "ok", "how": "full run"}
        bad = []
        for page, want in (("proc/foo.html", False), ("proc/bar.html", True)):
            p = os.path.join(pd, "doc", page)
            text = _html.unescape(re.sub(r"<[^>]+>", " ", open(p, encoding="utf-8").read())) if os.path.exists(p) else ""
            has = bool(re.search(r"result\s*\(", text, re.I))
            if has != want:
                bad.append(f"{page}: the heading {'shows' if has else 'lacks'} a RESULT clause, the source {'has one' if want else 'has none'}")
        if bad:
            return {"confirmed": True, "input": {"source": src}, "actual": bad, "expected": "RESULT clause shown iff written", "how": "full run; text of the procedure pages"}
    return None

"""Bounded stand-in for C11 on the real pipeline: a two-module project with re-used names; [[...]] references in several contexts and spellings;
the href must name the entity the documented lookup selects."""
from __future__ import annotations
import re
from bounded import realrun
from harness import loader

FILES = {
    "src/first.f90": """module first
  !! doc first
  implicit none
  type :: state
    !! first state
    integer :: a
  end type state
  integer :: current
    !! first current
contains
  subroutine run()
    !! first run
  end subroutine run
end module first
""",
    "src/second.f90": """module second
  !! doc second
  implicit none
  type :: state
    !! second state
    integer :: b
  end type state
  type :: circle
    !! circle type
    real :: r
  end type circle
  interface circle
    !! circle constructor
    module procedure make_circle
  end interface circle
  integer :: current
    !! second current
  integer :: other
    !! second other
contains
  subroutine run()
    !! second run
  end subroutine run
  function make_circle(r) result(c)
    !! make
    real, intent(in) :: r
    type(circle) :: c
    c%r = r
  end function make_circle
end module second
""",
}


def build():
    proj = realrun.build_project(FILES, display=["public", "private", "protected"])
    mdm = loader.import_repo("ford._markdown")
    md = mdm.MetaMarkdown(project=proj, base_url=".")
    return proj, md


def href(md, text, context):
    out = md.reset().convert(text, context=context) if context is not None else md.reset().convert(text, path=".")
    m = re.search(r"<a href=['\"]([^'\"]*)['\"]", out)
    return (m.group(1) if m else None), out


def cases(proj):
    mods = {m.name: m for m in proj.modules}
    first, second = mods["first"], mods["second"]
    v2 = [v for v in second.variables if v.name == "current"][0]
    run2 = [p for p in second.subroutines if p.name == "run"][0]
    t2 = [t for t in second.types if t.name == "state"][0]
    circ_t = [t for t in second.types if t.name == "circle"][0]
    circ_i = [i for i in second.interfaces if i.name == "circle"][0]
    t1 = first.types[0]
    U = lambda e: e.get_url()
    yield ("own contents first: [[run]] in module second", "[[run]]", second, U(run2))
    yield ("parent's contents: [[state]] in second::run", "[[state]]", run2, U(t2))
    yield ("parent's contents with kind from a variable: [[state(type)]] in second::current", "[[state(type)]]", v2, U(t2))
    yield ("kind picks the collection: [[circle(type)]]", "[[circle(type)]]", second, U(circ_t))
    yield ("project-wide with parent and child kinds: [[second:circle(interface)]] on the project page", "[[second:circle(interface)]]", None, U(circ_i))
    yield ("project-wide with parent and child kinds: [[second(module):circle(type)]] on the project page", "[[second(module):circle(type)]]", None, U(circ_t))
    yield ("module qualified: [[first:state]] from second", "[[first:state]]", second, U(t1))
    yield ("[[first(module)]]", "[[first(module)]]", second, U(first))
    yield ("every synonym of procedure: [[make_circle(proc)]]", "[[make_circle(proc)]]", None, U(second.functions[0]))
    yield ("[[make_circle(function)]]", "[[make_circle(function)]]", None, U(second.functions[0]))
    yield ("[[make_circle(procedure)]]", "[[make_circle(procedure)]]", None, U(second.functions[0]))
    yield ("variable child: [[second:other(variable)]]", "[[second:other(variable)]]", None, U([v for v in second.variables if v.name == "other"][0]))
    yield ("the documented item kind `constructor`: [[circle(type):circle(constructor)]]", "[[circle(type):circle(constructor)]]", second, U(circ_i))
    yield ("a kind no project collection has, nothing found: plain text, no abort", "[[r(variable)]]", None, None)
    yield ("a kind of child the parent cannot have, found through the context: no abort, the parent's page", "[[second:circle(bound)]]", second, U(second))
    yield ("dummy argument through its procedure: [[make_circle:r]]", "[[make_circle:r]]", None, U([a for a in second.functions[0].args if a.name == "r"][0]))
    yield ("absent target stays plain text", "[[nowhere_to_be_found]]", second, None)
    yield ("code span stays verbatim", "`[[run]]`", second, None)


def search():
    proj, md = build()
    for label, text, ctx, exp in cases(proj):
        try:
            got, out = href(md, text, ctx)
        except Exception as e:
            return {"confirmed": True, "input": {"reference": text, "case": label}, "actual": f"{type(e).__name__}: {e}", "expected": exp, "how": "MetaMarkdown.convert with the real project"}
        norm = lambda u: None if u is None else re.sub(r"^(\./|\.\./)+", "", u)
        if norm(got) != norm(exp):
            return {"confirmed": True, "input": {"reference": text, "case": label}, "actual": got, "expected": exp, "how": "href produced by FordLinkProcessor in the given context"}
        if exp is None and "code" in label and "[[run]]" not in out:
            return {"confirmed": True, "input": {"reference": text, "case": label}, "actual": out, "expected": "verbatim [[run]] inside <code>", "how": "code span"}
    return None


def count_cases():
    return 18

"""Bounded stand-in for C11 on the real pipeline: a two-module project with re-used names; [[...]] references in several contexts and spellings;
the href must name the entity the documented lookup selects."""
from __future__ import annotations
import re
from bounded import realrun
from harness import loader

FILES = {
    "src/first.f90": """module first
  !! doc first
  implicit none
  type :: state
    !! first state
    integer :: a
  end type state
  integer :: current
    !! first current
contains
  subroutine run()
    !! first run
  end subroutine run
end module first
""",
    "src/second.f90": """module second
  !! doc second
  implicit none
  type :: state
    !! second state
    integer :: b
  end type state
  type :: circle
    !! circle type
    real :: r
  end type circle
  interface circle
    !! circle constructor
    module procedure make_circle
  end interface circle
  integer :: current
    !! second current
  integer :: other
    !! second other
contains
  subroutine run()
    !! second run
  end subroutine run
  function make_circle(r) result(c)
    !! make
    real, intent(in) :: r
    type(circle) :: c
    c%r = r
  end function make_circle
end module second
""",
}


def build():
    proj = realrun.build_project(FILES, display=["public", "private", "protected"])
    mdm = loader.import_repo("ford._markdown")
    md = mdm.MetaMarkdown(project=proj, base_url=".")
    return proj, md


def href(md, text, context):
    out = md.reset().convert(text, context=context) if context is not None else md.reset().convert(text, path=".")
    m = re.search(r"<a href=['\"]([^'\"]*)['\"]", out)
    return (m.group(1) if m else None), out


def cases(proj):
    mods = {m.name: m for m in proj.modules}
    first, second = mods["first"], mods["second"]
    v2 = [v for v in second.variables if v.name == "current"][0]
    run2 = [p for p in second.subroutines if p.name == "run"][0]
    t2 = [t for t in second.types if t.name == "state"][0]
    circ_t = [t for t in second.types if t.name == "circle"][0]
    circ_i = [i for i in second.interfaces if i.name == "circle"][0]
    t1 = first.types[0]
    U = lambda e: e.get_url()
    # the same spelling in two contexts selects two entities (whichever is asked first)
    run1 = [p for p in first.subroutines if p.name == "run"][0]
    v1 = [v for v in first.variables if v.name == "current"][0]
    yield ("own contents first: [[run]] in module first", "[[run]]", first, U(run1))
    yield ("own contents first: [[run]] in module second", "[[run]]", second, U(run2))
    yield ("own contents first: [[current]] in module second", "[[current]]", second, U(v2))
    yield ("own contents first: [[current]] in module first", "[[current]]", first, U(v1))
    yield ("own contents first: [[state]] in module first", "[[state]]", first, U(t1))
    yield ("own contents first: [[state]] in module second", "[[state]]", second, U(t2))
    yield ("parent's contents: [[state]] in second::run", "[[state]]", run2, U(t2))
    yield ("parent's contents with kind from a variable: [[state(type)]] in second::current", "[[state(type)]]", v2, U(t2))
    yield ("kind picks the collection: [[circle(type)]]", "[[circle(type)]]", second, U(circ_t))
    yield ("project-wide with parent and child kinds: [[second:circle(interface)]] on the project page", "[[second:circle(interface)]]", None, U(circ_i))
    yield ("project-wide with parent and child kinds: [[second(module):circle(type)]] on the project page", "[[second(module):circle(type)]]", None, U(circ_t))
    yield ("module qualified: [[first:state]] from second", "[[first:state]]", second, U(t1))
    yield ("[[first(module)]]", "[[first(module)]]", second, U(first))
    yield ("every synonym of procedure: [[make_circle(proc)]]", "[[make_circle(proc)]]", None, U(second.functions[0]))
    yield ("[[make_circle(function)]]", "[[make_circle(function)]]", None, U(second.functions[0]))
    yield ("[[make_circle(procedure)]]", "[[make_circle(procedure)]]", None, U(second.functions[0]))
    yield ("variable child: [[second:other(variable)]]", "[[second:other(variable)]]", None, U([v for v in second.variables if v.name == "other"][0]))
    yield ("the documented item kind `constructor`: [[circle(type):circle(constructor)]]", "[[circle(type):circle(constructor)]]", second, U(circ_i))
    yield ("a kind no project collection has, nothing found: plain text, no abort", "[[r(variable)]]", None, None)
    yield ("a kind of child the parent cannot have, found through the context: no abort, the parent's page", "[[second:circle(bound)]]", second, U(second))
    yield ("dummy argument through its procedure: [[make_circle:r]]", "[[make_circle:r]]", None, U([a for a in second.functions[0].args if a.name == "r"][0]))
    yield ("absent target stays plain text", "[[nowhere_to_be_found]]", second, None)
    yield ("code span stays verbatim", "`[[run]]`", second, None)


OVERRIDE = ("module shapes\n  implicit none\n  type :: shape\n  contains\n    procedure :: describe => describe_shape\n  end type shape\n  type, extends(shape) :: circle\n    !! circle doc\n  contains\n"
            "    procedure :: Describe => describe_circle\n  end type circle\ncontains\n  subroutine describe_shape(self)\n    class(shape) :: self\n  end subroutine describe_shape\n"
            "  subroutine describe_circle(self)\n    class(circle) :: self\n  end subroutine describe_circle\nend module shapes\n")


def overridden_binding_reference():
    """a reference to a binding that the extending type overrides denotes the override (binding names are case-insensitive), on the extending type's page"""
    proj = realrun.build_project({"src/shapes.f90": OVERRIDE}, display=["public", "private", "protected"])
    mdm = loader.import_repo("ford._markdown")
    md = mdm.MetaMarkdown(project=proj, base_url=".")
    circle = next(t for t in proj.types if t.name == "circle")
    bad = []
    for text in ("[[circle:Describe]]", "[[circle(type):describe(bound)]]", "[[Describe]]"):
        got, out = href(md, text, circle)
        if got is None or "type/circle.html#" not in got:
            bad.append((text, got))
    if bad:
        return {"confirmed": True, "input": {"source": OVERRIDE, "context": "type circle"}, "actual": bad, "expected": "links to type/circle.html#boundprocedure-describe...", "how": "href produced by FordLinkProcessor in the context of the extending type"}
    return None


HIDDEN_PARENT = ("module m\n  implicit none\n  private\n  public :: child_t, f\n  type :: base_t\n    integer :: n\n  contains\n    procedure :: act\n  end type base_t\n  type, extends(base_t) :: child_t\n    !! child doc\n"
                 "  end type child_t\ncontains\n  subroutine act(self)\n    class(base_t) :: self\n  end subroutine act\n  function f(x) result(res)\n    !! f doc\n    integer :: x\n    integer :: res\n      !! res doc\n"
                 "    res = x\n  end function f\nend module m\n")


def members_and_results():
    """a reference to a member that a displayed type inherits from a type that is not displayed is plain text (the member is described on a page that is not written) - components
    and bindings alike; a reference to the result variable of a function links to its row on the function's page"""
    proj = realrun.build_project({"src/m.f90": HIDDEN_PARENT})
    mdm = loader.import_repo("ford._markdown")
    md = mdm.MetaMarkdown(project=proj, base_url=".")
    child = next(t for t in proj.types if t.name == "child_t")
    fn = next(p for p in proj.procedures if p.name == "f")
    bad = []
    for text, ctx, want in (("[[child_t:act]]", child, None), ("[[child_t:n]]", child, None), ("[[res]]", fn, "proc/f.html#variable-res"), ("[[f:res]]", fn, "proc/f.html#variable-res"),
                            # the kind qualifier `variable` reaches everything that is a variable of the procedure: locals, dummy arguments, the result
                            ("[[f(function):res(variable)]]", fn, "proc/f.html#variable-res"), ("[[f:x(variable)]]", fn, "proc/f.html#variable-x"), ("[[f:x]]", fn, "proc/f.html#variable-x")):
        got, out = href(md, text, ctx)
        norm = None if got is None else re.sub(r"^(\./|\.\./)+", "", got)
        if norm != want:
            bad.append((text, got, want))
    if bad:
        return {"confirmed": True, "input": {"source": HIDDEN_PARENT, "display": "public, protected (default)"}, "actual": bad, "expected": "(reference, href): no link for members described on an unwritten page; the result variable's row",
                "how": "href produced by FordLinkProcessor in the context of the extending type / of the function"}
    return None


def search():
    hit = overridden_binding_reference() or members_and_results()
    if hit:
        return hit
    proj, md = build()
    for label, text, ctx, exp in cases(proj):
        try:
            got, out = href(md, text, ctx)
        except Exception as e:
            return {"confirmed": True, "input": {"reference": text, "case": label}, "actual": f"{type(e).__name__}: {e}", "expected": exp, "how": "MetaMarkdown.convert with the real project"}
        norm = lambda u: None if u is None else re.sub(r"^(\./|\.\./)+", "", u)
        if norm(got) != norm(exp):
            return {"confirmed": True, "input": {"reference": text, "case": label}, "actual": got, "expected": exp, "how": "href produced by FordLinkProcessor in the given context"}
        if exp is None and "code" in label and "[[run]]" not in out:
            return {"confirmed": True, "input": {"reference": text, "case": label}, "actual": out, "expected": "verbatim [[run]] inside <code>", "how": "code span"}
    return None


def count_cases():
    return 23


SITE = {
    "src/geometry.f90": """module geometry
  !! summary: the module of [[vector]] and [[scale]], limit [[tolerance]]
  !!
  !! geometry doc
  implicit none
  real :: tolerance
    !! tolerance doc
  type :: vector
    !! vector doc
    real :: x
  end type vector
contains
  subroutine scale(v, factor)
    !! summary: multiplies [[scale:v]] by [[factor]], see [[tolerance]]
    !!
    !! scale doc
    type(vector) :: v
      !! v doc
    real :: factor
      !! factor doc, of [[scale]] in [[geometry]]
    type :: workspace
      !! workspace doc, see [[vector]] and [[geometry]]
      real :: buffer
        !! buffer doc, see [[vector]] and [[geometry]]
    contains
      procedure :: flush
        !! binding doc, see [[geometry]]
    end type workspace
  contains
    subroutine flush(self)
      !! flush doc
      class(workspace) :: self
    end subroutine flush
  end subroutine scale
end module geometry
""",
}
# (page, text that must appear as a link on it, target relative to the output directory)
SITE_LINKS = [
    ("proc/scale.html", "vector", "type/vector.html"), ("proc/scale.html", "geometry", "module/geometry.html"), ("proc/scale.html", "scale", "proc/scale.html"),
    ("module/geometry.html", "factor", "proc/scale.html"), ("module/geometry.html", "v", "proc/scale.html"),
    ("module/geometry.html", "scale", "proc/scale.html"), ("module/geometry.html", "vector", "type/vector.html"), ("module/geometry.html", "tolerance", "module/geometry.html"),
    ("lists/modules.html", "vector", "type/vector.html"), ("lists/procedures.html", "factor", "proc/scale.html"),
]


def site_references():
    """[[...]] references in the comment of an entity any number of levels below the page that shows it (a type local to a procedure, its components and bindings), and in
    `summary:` metadata (shown on the entity's page, on its parent's page and on the list pages): every one becomes a link, found through the entity's own scope, that leads to
    the target from the page it stands on"""
    import os
    from bounded import site
    with site.site(SITE, "src_dir: ./src\noutput_dir: ./doc\ngraph: false\nsearch: false\nproc_internals: true\ndisplay: public\n         private\n         protected\n") as (pd, status):
        inp = {"files": SITE, "options": "proc_internals: true, display: public private protected"}
        if not status.startswith("ok"):
            return {"confirmed": True, "input": inp, "actual": f"run failed: {status}", "expected": "ok", "how": "end-to-end run"}
        out = os.path.join(pd, "doc")
        bad, n, npages = site.walk_links(out)
        for page, text, target in SITE_LINKS:
            p = os.path.join(out, page)
            html_ = open(p, encoding="utf-8", errors="replace").read() if os.path.exists(p) else ""
            hrefs = re.findall(r"<a href=['\"]([^'\"]*)['\"][^>]*>\s*" + re.escape(text) + r"\s*</a>", html_)
            ok = any(os.path.normpath(os.path.join(os.path.dirname(page), h.split("#")[0])) == os.path.normpath(target) for h in hrefs)
            if not ok:
                bad.append(f"{page}: the reference to `{text}` is not a link to {target} (links with that text: {hrefs[:3]})")
        left = [pg for pg in ("proc/scale.html", "module/geometry.html") if "[[" in re.sub(r"<code.*?</code>", "", open(os.path.join(out, pg), encoding="utf-8").read(), flags=re.S)]
        bad += [f"{pg}: an unconverted [[...]] reference is left in the text" for pg in left]
        # entities two levels below the page that describes them (component and binding of the local type): their rendered comment links relative to that page, like their parent's
        proj = realrun.build_project(SITE, display=["public", "private", "protected"], proc_internals=True)
        mdm = loader.import_repo("ford._markdown")
        proj.markdown(mdm.MetaMarkdown(project=proj, base_url=".."))
        ws = proj.modules[0].subroutines[0].types[0]
        for ent in [ws] + list(ws.variables) + list(ws.boundprocs):
            for h in re.findall(r"<a href=['\"]([^'\"]*)['\"]", ent.doc):
                if not h.startswith("../"):
                    bad.append(f"comment of {ent.obj} `{ent.name}` (described on proc/scale.html): link `{h}` is not relative to that page")
            if "[[" in ent.doc:
                bad.append(f"comment of {ent.obj} `{ent.name}`: an unconverted [[...]] reference is left")
        if bad:
            return {"confirmed": True, "input": inp, "actual": sorted(set(bad))[:8], "expected": "every reference is a link that leads to its target from the page it is shown on",
                    "how": f"end-to-end run; {n} links on {npages} pages followed; the links expected from the comments looked up by their text"}
    return None


def extra_mods_quoted():
    """the documented spelling of a module outside the project: `extra_mods: json_module: "http://..."` (quoted, a blank after the colon).  [[json_module]] links to that URL as it is"""
    st = loader.import_repo("ford.settings")
    mdm = loader.import_repo("ford._markdown")
    fp = loader.import_repo("ford.fortran_project")
    import io, contextlib
    src = {"src/m.f90": "module m\n  !! uses [[json_module]]\n  use json_module\nend module m\n"}
    bad = []
    for spelling in ('json_module: "http://jacobwilliams.github.io/json-fortran"', "json_module:'http://jacobwilliams.github.io/json-fortran'", "json_module: http://jacobwilliams.github.io/json-fortran"):
        realrun.reset_names()
        with realrun.project_dir(src) as d:
            import pathlib
            with contextlib.redirect_stdout(io.StringIO()), contextlib.redirect_stderr(io.StringIO()):
                settings, _ = st.load_markdown_settings(pathlib.Path(d), f"---\nsrc_dir: ./src\npreprocess: false\nextra_mods: {spelling}\n---\ntext\n", "proj.md")
                settings.normalise_paths(pathlib.Path(d)) if hasattr(settings, "normalise_paths") else None
                proj = fp.Project(settings)
                proj.correlate()
                md = mdm.MetaMarkdown(project=proj, base_url=".")
                out = md.reset().convert("[[json_module]]", context=proj.modules[0])
        m = re.search(r"<a href=['\"]([^'\"]*)['\"]", out)
        if not m or m.group(1) != "http://jacobwilliams.github.io/json-fortran":
            bad.append(f"extra_mods: {spelling}  ->  [[json_module]] rendered as {out.strip()[:120]}")
    if bad:
        return {"confirmed": True, "input": {"project file metadata": "extra_mods: json_module: \"http://...\""}, "actual": bad, "expected": "a link to http://jacobwilliams.github.io/json-fortran",
                "how": "real settings loader + Project + MetaMarkdown.convert"}
    return None

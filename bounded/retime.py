"""Bounded stand-in for the termination clause of C20 on the regex side: every compiled pattern of the parsing modules is run (match and search) on pumped
statement lines - long identifiers followed by a text that makes the overall match fail - in a child process; a single match that does not finish within the
budget is catastrophic backtracking (the run would hang on such a line).  Usage as a child: python -m bounded.retime <progress file>"""
from __future__ import annotations
import itertools, json, os, re, subprocess, sys, tempfile, time

VERIF = os.path.dirname(os.path.dirname(os.path.abspath(__file__)))
MODULES = ["ford.sourceform", "ford.reader", "ford.utils", "ford.fixed2free2", "ford.md_admonition", "ford._markdown", "ford.settings"]
TEMPLATES = ["namelist /grp/ {I}{S}", "integer :: {I}{S}", "integer, dimension({I}) :: {I}{S}", "call {I}{S}", "use {I}{S}", "use {I}, only: {I} => {I}{S}", "type, extends({I}) :: {I}{S}",
             "subroutine {I}({I}, {I}){S}", "public :: {I}, {I}{S}", "common /blk/ {I}{S}", "procedure :: {I} => {I}{S}", "generic :: {I} => {I}, {I}{S}", "final :: {I}{S}",
             "interface {I}{S}", "enumerator :: {I} = 1{S}", "{I} = {I}({I}){S}", "100 format({I}){S}", "module procedure {I}, {I}{S}", "end subroutine {I}{S}", "x = '{I}' // {I}{S}",
             "character(len={I}, kind={I}) :: {I}{S}", "!! {I} @note {I}{S}", "{I}: {I}{S}", "    {I}{S}", "[[{I}({I}):{I}({I})]]{S}", "      {I}{S}", "c {I}{S}", "|{I}|{S}",
             "pure elemental function {I}({I}) result({I}) bind(c, name='{I}'){S}", "associate ({I} => {I}%{I}){S}", "if ({I}({I})) call {I}%{I}({I}){S}",
             # a quote that is never closed (arbitrary text, a literal cut off by a truncation), followed by a long tail
             "print *, 'this isn't closed {I}{S}", 'msg = "never closed {I} {I}{S}', "This file isn't Fortran at all {I}{S}"]
SPOILERS = ["", "(1:2)", "%c", " = 1", " /g2/ x", " !", ")", " &", ", ", "::", "$", "\x01", " @", "'", '"', "]]", "|", ";"]
IDS = ["a" * 40, "ab_" * 14, "a1" * 20, "a, " * 14 + "a", "a " * 20]


def patterns():
    sys.path.insert(0, VERIF)
    from harness import loader
    out = []
    for modname in MODULES:
        try:
            mod = loader.import_repo(modname)
        except Exception:
            continue
        seen = set()
        for owner in [mod] + [v for v in vars(mod).values() if isinstance(v, type) and getattr(v, "__module__", "") == mod.__name__]:
            for name, val in vars(owner).items():
                if isinstance(val, re.Pattern) and id(val) not in seen:
                    seen.add(id(val))
                    out.append((f"{modname}.{owner.__name__ + '.' if owner is not mod else ''}{name}", val))
    return out


def lines():
    for t, s, i in itertools.product(TEMPLATES, SPOILERS, IDS):
        yield t.replace("{I}", i).replace("{S}", s)


def child(progress):
    pats = patterns()
    ls = list(lines())
    worst = (0.0, "", "")
    with open(progress, "w") as f:
        for name, p in pats:
            for k, line in enumerate(ls):
                f.seek(0)
                f.write(json.dumps([name, line]) + "\n")
                f.truncate()
                f.flush()
                t0 = time.perf_counter()
                p.match(line)
                p.search(line)
                dt = time.perf_counter() - t0
                if dt > worst[0]:
                    worst = (dt, name, line)
        f.seek(0)
        f.write(json.dumps(["done", len(pats), len(ls), worst]) + "\n")
        f.truncate()


def search(budget_s=120):
    os.makedirs(os.path.join(VERIF, "out", "tmp"), exist_ok=True)
    fd, progress = tempfile.mkstemp(dir=os.path.join(VERIF, "out", "tmp"), suffix=".retime")
    os.close(fd)
    try:
        env = dict(os.environ)
        try:
            r = subprocess.run([sys.executable, "-m", "bounded.retime", progress], cwd=VERIF, capture_output=True, text=True, timeout=budget_s, env=env)
            last = json.loads(open(progress).read().splitlines()[0])
            if last[0] != "done":
                return {"confirmed": False, "note": "child ended early: " + (r.stdout + r.stderr)[-300:]}, None
            dt, name, line = last[3]
            info = {"patterns": last[1], "lines": last[2], "slowest_s": round(dt, 4), "slowest": name}
            if dt > 2.0:
                return {"confirmed": True, "input": {"pattern": name, "line": line}, "actual": f"{dt:.1f} s for one line", "expected": "matching time linear in the length of the line",
                        "how": "pattern.match + pattern.search on a pumped statement line"}, info
            return None, info
        except subprocess.TimeoutExpired:
            try:
                name, line = json.loads(open(progress).read().splitlines()[0])[:2]
            except Exception:
                name, line = "?", "?"
            return {"confirmed": True, "input": {"pattern": name, "line": line}, "actual": f"no result within {budget_s} s (the child was killed while matching this line)",
                    "expected": "every match returns", "how": "pattern.match / pattern.search on a pumped statement line, child process with a wall-clock budget"}, None
    finally:
        try:
            os.unlink(progress)
        except OSError:
            pass


if __name__ == "__main__":
    child(sys.argv[1])

"""Bounded stand-ins for C03 on the real pipeline:
 (a) attachment: generated programs with a unique tracer word sequence in every entity's comment, the four marker styles, alternative marker
     characters, inline / own-line placement, blank and ordinary comment lines between entities -> each entity's doc_list holds exactly its words;
 (b) rendering: documentation bodies built from paragraphs, lists, code blocks and note boxes -> the rendered HTML holds every tracer word once, in order."""
from __future__ import annotations
import itertools, re, html
from bounded import realrun
from harness import loader

ENTITIES = [("module", "m"), ("var", "v1"), ("var", "v2"), ("type", "t1"), ("comp", "c1"), ("sub", "s1"), ("arg", "a1"), ("func", "f1")]


def words(tag):
    return [f"{tag}w{i}" for i in (1, 2, 3)]


def program(style, marks, inline, noise):
    """style: 'doc' (following, !!), 'predoc' (preceding, !>), 'doc_alt' (block following, !*), 'predoc_alt' (block preceding, !|)"""
    dm, pm, da, pa = marks
    L = []

    def emit(stmt, tag, indent, can_inline=True):
        w = words(tag)
        first, rest = " ".join(w[:2]), w[2]
        if tag == "v2":
            first = "Caveat: " + first          # a first line that looks like `key: value` but is not one of the metadata keys is text
        if style == "doc":
            if inline and can_inline:
                L.append(f"{indent}{stmt} !{dm} {first}")
                L.append(f"{indent}  !{dm} {rest}")
            else:
                L.append(f"{indent}{stmt}")
                L.append(f"{indent}  !{dm} {first}")
                L.append(f"{indent}  !{dm} {rest}")
        elif style == "predoc":
            L.append(f"{indent}!{pm} {first}")
            L.append(f"{indent}!{pm} {rest}")
            if noise == 2:
                L.extend(["", f"{indent}! an ordinary comment INNER{tag}", ""])
            L.append(f"{indent}{stmt}")
        elif style == "doc_alt":
            L.append(f"{indent}{stmt}")
            L.append(f"{indent}!{da} {first}")
            L.append(f"{indent}! {rest}")
        else:
            L.append(f"{indent}!{pa} {first}")
            L.append(f"{indent}! {rest}")
            if noise == 2:
                # a blank line ends the block in which every comment is documentation
                L.extend(["", f"{indent}! an ordinary comment INNER{tag}", ""])
            L.append(f"{indent}{stmt}")
        if noise:
            L.append("")
            L.append(f"{indent}! an ordinary comment NOISE{tag}")
            L.append("")
    emit("module m", "m", "", can_inline=False)
    L.append("  implicit none")
    emit("integer :: v1", "v1", "  ")
    emit("real :: v2", "v2", "  ")
    # two entities declared on one line share one comment: both get its metadata and its words
    if style == "doc":
        L.append("  integer :: p1, p2")
        L.append(f"  !{dm} deprecated: true")
        L.append(f"  !{dm} version: 7")
        L.append(f"  !{dm}")
        L.append(f"  !{dm} sharedw1 sharedw2")
    emit("type :: t1", "t1", "  ", can_inline=False)
    emit("integer :: c1", "c1", "    ")
    L.append("  end type t1")
    L.append("contains")
    emit("subroutine s1(a1)", "s1", "  ", can_inline=False)
    emit("integer :: a1", "a1", "    ")
    L.append("  end subroutine s1")
    emit("function f1() result(r)", "f1", "  ", can_inline=False)
    L.append("    integer :: r")
    L.append("    r = 1")
    L.append("  end function f1")
    L.append("end module m")
    return "\n".join(L) + "\n"


def doc_of(f):
    m = f.modules[0]
    t = m.types[0]
    s = m.subroutines[0]
    return {"m": m, "v1": m.variables[0], "v2": m.variables[1], "t1": t, "c1": t.variables[0], "s1": s, "a1": s.args[0], "f1": m.functions[0]}


MARKS = [("!", ">", "*", "|"), ("^", "]", "~", "@")]


def attach_cases():
    for style, marks, inline, noise in itertools.product(["doc", "predoc", "doc_alt", "predoc_alt"], MARKS, [False, True], [False, True, 2]):
        if inline and style != "doc":
            continue
        if noise == 2 and style not in ("predoc", "predoc_alt"):
            continue
        yield style, marks, inline, noise


def search_attachment():
    for style, marks, inline, noise in attach_cases():
        text = program(style, marks, inline, noise)
        dm, pm, da, pa = marks
        try:
            f = realrun.parse_source(text, docmark=dm, predocmark=pm, docmark_alt=da, predocmark_alt=pa)
        except Exception as e:
            return {"confirmed": True, "input": {"source": text, "markers": marks}, "actual": f"{type(e).__name__}: {e}", "expected": "parses", "how": f"style {style}"}
        ents = doc_of(f)
        if style == "doc":
            for nm in ("p1", "p2"):
                pv = [v for v in f.modules[0].variables if v.name == nm][0]
                got = (" ".join(pv.doc_list).split(), bool(pv.meta.deprecated), str(pv.meta.version))
                if got != (["sharedw1", "sharedw2"], True, "7"):
                    return {"confirmed": True, "input": {"source": text, "markers": marks}, "actual": {nm: got}, "expected": {nm: (["sharedw1", "sharedw2"], True, "7")},
                            "how": "two variables declared on one line with a shared comment that starts with metadata lines"}
        for tag, ent in ents.items():
            allw = " ".join(ent.doc_list).split()
            got = [x for x in allw if re.match(r"^[a-z]\w*w\d$", x)]
            leaked = [x for x in allw if x.startswith(("NOISE", "INNER")) or x == "ordinary"]
            if leaked:
                return {"confirmed": True, "input": {"source": text, "markers": marks}, "actual": {tag: allw}, "expected": {tag: words(tag)},
                        "how": f"doc_list of entity '{tag}' holds the text of an ordinary comment ({leaked[0]}); style={style}, inline={inline}, comments/blank lines between entities={noise}"}
            if got != words(tag):
                return {"confirmed": True, "input": {"source": text, "markers": marks}, "actual": {tag: got}, "expected": {tag: words(tag)},
                        "how": f"doc_list of entity '{tag}' after parsing; style={style}, inline={inline}, comments/blank lines between entities={noise}"}
    return None


# ---- rendering
BLOCKS = {
    "para": lambda t: [f"{t}p1 {t}p2"],
    "list": lambda t: [f"- {t}l1", f"- {t}l2"],
    "code": lambda t: [f"    {t}c1 = {t}c2"],
    "note": lambda t: [f"@note {t}n1 {t}n2"],
    "note_end": lambda t: [f"@note {t}n1", f"{t}n2", "@endnote"],
    "note_end_post": lambda t: [f"@warning {t}n1", f"@endwarning {t}n2 {t}n3"],
    "note_inline_end": lambda t: [f"@bug {t}n1 {t}n2 @endbug"],
    "note_list": lambda t: [f"@todo", f"- {t}n1", f"- {t}n2", "@endtodo"],
    "note_unterminated": lambda t: [f"@history {t}n1", f"{t}n2"],
    "pre_note": lambda t: [f"{t}p1 @note {t}n1 {t}n2"],                                   # text before the marker on the same line
    "note_end_then_text": lambda t: ["@note", f"{t}n1", "@endnote", f"{t}p1 {t}p2"],       # text on the line after a bare end marker
    "note_inline_end_then_text": lambda t: [f"@note {t}n1 @endnote", f"{t}p1"],
    "marker_inside_a_word": lambda t: [f"{t}p1 @notes {t}p2"],                             # '@notes' is not a marker
}
# the tracer words of each block kind that belong inside a box (all others are shown outside any box)
BOXED = {"note": ("n1", "n2"), "note_end": ("n1", "n2"), "note_end_post": ("n1",), "note_inline_end": ("n1", "n2"), "note_list": ("n1", "n2"), "note_unterminated": ("n1", "n2"),
         "pre_note": ("n1", "n2"), "note_end_then_text": ("n1",), "note_inline_end_then_text": ("n1",)}
ENDED = ("note_end", "note_end_post", "note_inline_end", "note_list", "note_end_then_text", "note_inline_end_then_text")
SEPS = [[""], []]       # blank line between blocks or blocks directly adjacent


def render(lines):
    mdm = loader.import_repo("ford._markdown")
    md = mdm.MetaMarkdown()
    return md.reset().convert("\n".join(lines))


def tracer_words(lines):
    return [w for w in re.findall(r"[A-Za-z]\w*", " ".join(lines)) if re.match(r"^[a-z]\d+[plcn]\d$", w)]


def render_cases(maxblocks=3):
    kinds = list(BLOCKS)
    for n in (1, 2, 3)[:maxblocks]:
        for combo in itertools.product(kinds, repeat=n):
            if n == 3 and (hash(combo) % 7) != 0 and not realrun.thorough():
                continue            # quick tier: a seventh of the three-block bodies (PYTHONHASHSEED is fixed by bin/check); thorough tier: all of them
            for sep in SEPS:
                lines = []
                for i, k in enumerate(combo):
                    ended = combo[i - 1] in ENDED if i else False
                    if i and (sep or not (ended or (k.startswith("note") and combo[i - 1].startswith("note")))):
                        # markdown itself needs a blank line between ordinary blocks; note boxes may be adjacent to each other
                        lines += [""]
                    lines += BLOCKS[k](f"b{i}")
                yield combo, sep, lines


def search_render():
    for combo, sep, lines in render_cases():
        exp = tracer_words(lines)
        try:
            out = render(list(lines))
        except Exception as e:
            return {"confirmed": True, "input": lines, "actual": f"{type(e).__name__}: {e}", "expected": exp, "how": "MetaMarkdown.convert"}
        text = html.unescape(re.sub(r"<[^>]+>", " ", out))
        got = [w for w in re.findall(r"[A-Za-z]\w*", text) if re.match(r"^[a-z]\d+[plcn]\d$", w)]
        if got != exp:
            return {"confirmed": True, "input": lines, "actual": got, "expected": exp, "how": f"words of the rendered HTML, blocks {combo}"}
        # which words sit inside a note box
        inside = set()
        for m in re.finditer(r'<div class="alert[^"]*">(.*?)</div>', out, re.S):
            inside |= {w for w in re.findall(r"[A-Za-z]\w*", html.unescape(re.sub(r"<[^>]+>", " ", m.group(1)))) if re.match(r"^[a-z]\d+[plcn]\d$", w)}
        want_inside = {f"b{i}{suffix}" for i, k in enumerate(combo) for suffix in BOXED.get(k, ())}
        # an indented code block right after a box is, for Markdown itself, more body of the box: membership is not compared for those layouts
        ambiguous = any(k == "code" and i and combo[i - 1] in BOXED for i, k in enumerate(combo))
        if inside != want_inside and not ambiguous:
            return {"confirmed": True, "input": lines, "actual": {"inside a box": sorted(inside)}, "expected": {"inside a box": sorted(want_inside)},
                    "how": f"membership of the tracer words in note boxes of the rendered HTML, blocks {combo}"}
    return None


# ---- whole-project rendering: the converter is shared by all entities, every comment is a document of its own
STATEFUL = [   # (doc lines with per-document markdown state, tracer words the rendering must hold - exactly these, in order)
    (lambda t: [f"{t}p1 with a footnote[^1] {t}p2", "", f"[^1]: {t}f1 {t}f2"], lambda t: [f"{t}p1", f"{t}p2", f"{t}f1", f"{t}f2"]),
    (lambda t: [f"{t}p1 [{t}l1][ref] {t}p2", "", f"[ref]: http://example.org/{t}u1"], lambda t: [f"{t}p1", f"{t}l1", f"{t}p2"]),
    (lambda t: [f"{t}p1 [{t}l1][ref] {t}p2"], lambda t: [f"{t}p1", f"{t}l1", f"{t}p2"]),                 # an undefined reference stays text: no URL from a neighbour
    (lambda t: [f"--- {t}p1 {t}p2", f"{t}p3"], lambda t: [f"{t}p1", f"{t}p2", f"{t}p3"]),                 # a first line that merely starts like a YAML delimiter
    (lambda t: [f"...{t}p1 {t}p2", f"{t}p3"], lambda t: [f"{t}p1", f"{t}p2", f"{t}p3"]),
    (lambda t: [f"{t}p1 footnote again[^1]", "", f"[^1]: {t}f1"], lambda t: [f"{t}p1", f"{t}f1"]),
]
TRACER = re.compile(r"^e\d+[plfu]\d$")


def project_render_source(dm="!"):
    L = ["module tracers", f"  !{dm} e0p1 module words e0p2", "  implicit none"]
    exp = {"tracers": ["e0p1", "e0p2"]}
    for i, (mk, want) in enumerate(STATEFUL, start=1):
        L.append(f"  integer :: var{i}")
        for dl in mk(f"e{i}"):
            L.append(f"    !{dm} {dl}" if dl and not dl.startswith(("---", "...")) else f"    !{dm}{dl}")
        exp[f"var{i}"] = want(f"e{i}")
    # a documentation line of the container that follows a statement which takes no documentation
    L += ["  private :: var1", f"  !{dm} e9p1 late container words e9p2"]
    exp["tracers"] += ["e9p1", "e9p2"]
    L += ["contains", "  subroutine summarised()", f"    !{dm} summary: e8p1 short e8p2", f"    !{dm}", f"    !{dm} e8p3 body e8p4", "  end subroutine summarised", "end module tracers", ""]
    exp["summarised"] = ["e8p3", "e8p4"]
    return "\n".join(L), exp


def search_project_render():
    mdm = loader.import_repo("ford._markdown")
    for dm in ("!", "!>"):
        src, exp = project_render_source(dm)
        try:
            proj = realrun.build_project({"src/tracers.f90": src}, display=["public", "private"], docmark=dm, predocmark="|", predocmark_alt="#", docmark_alt="*")
            md = mdm.MetaMarkdown(aliases={}, project=proj)
            proj.markdown(md)
        except Exception as e:
            return {"confirmed": True, "input": {"source": src, "docmark": dm}, "actual": f"{type(e).__name__}: {e}", "expected": "renders", "how": "Project + Project.markdown"}
        m = proj.modules[0]
        ents = {"tracers": m, "summarised": m.subroutines[0]}
        ents.update({v.name: v for v in m.variables})
        for name, want in exp.items():
            text = html.unescape(re.sub(r"<[^>]+>", " ", ents[name].doc))
            got = [w for w in re.findall(r"[A-Za-z]\w*", text) if TRACER.match(w)]
            if got != want:
                return {"confirmed": True, "input": {"source": src, "docmark": dm}, "actual": {name: got}, "expected": {name: want},
                        "how": "tracer words in the rendered documentation (entity.doc) after Project.markdown with one shared converter, as FORD runs it"}
            hrefs = re.findall(r'href="(http://example\.org/[^"]*)"', ents[name].doc)
            own = [h for h in hrefs if name.replace("var", "e") + "u" in h]
            if hrefs != own:
                return {"confirmed": True, "input": {"source": src, "docmark": dm}, "actual": {name: hrefs}, "expected": {name: own},
                        "how": "link targets in the rendered documentation: a reference-style link resolves only against definitions of the same comment"}
        summ = html.unescape(re.sub(r"<[^>]+>", " ", str(ents["summarised"].meta.summary)))
        gots = [w for w in re.findall(r"[A-Za-z]\w*", summ) if TRACER.match(w)]
        if gots != ["e8p1", "e8p2"]:
            return {"confirmed": True, "input": {"source": src, "docmark": dm}, "actual": {"summary": summ.strip()[:200]}, "expected": {"summary words": ["e8p1", "e8p2"]},
                    "how": "the `summary:` metadata of an entity as rendered (meta.summary)"}
    return None


def count_cases():
    return sum(1 for _ in attach_cases()), sum(1 for _ in render_cases())


def include_cases():
    """declarations pulled in with INCLUDE are read with the markers of the including file: the same entities and documentation as when they are written in place"""
    decls = ["  integer :: first", "  !> doc before second", "  integer :: second", "  integer :: third", "  !* block after third", "  ! goes on here", "", "  integer :: fourth", "  !! plain doc of fourth",
             "  !| block before fifth", "  ! still before fifth", "  integer :: fifth"]
    marks = dict(docmark="!", predocmark=">", docmark_alt="*", predocmark_alt="|")
    inplace = "module m\n  implicit none\n" + "\n".join(decls) + "\nend module m\n"
    including = "module m\n  implicit none\n  include 'decls.inc'\nend module m\n"
    sf = loader.import_repo("ford.sourceform")
    st = loader.import_repo("ford.settings")
    res = []
    for files, main in (({"m.f90": inplace}, "m.f90"), ({"m.f90": including, "decls.inc": "\n".join(decls) + "\n"}, "m.f90")):
        realrun.reset_names()
        with realrun.project_dir(files) as d:
            import os, io, contextlib
            with contextlib.redirect_stdout(io.StringIO()), contextlib.redirect_stderr(io.StringIO()):
                try:
                    f = sf.FortranSourceFile(os.path.join(d, main), st.ProjectSettings(preprocess=False, quiet=True, warn=False, **marks))
                    res.append([(v.name, [x.strip() for x in v.doc_list if x.strip()]) for v in f.modules[0].variables])
                except Exception as e:
                    res.append(f"{type(e).__name__}: {e}")
    if res[0] != res[1]:
        return {"confirmed": True, "input": {"declarations": decls, "markers": marks}, "actual": {"included": res[1]}, "expected": {"written in place": res[0]},
                "how": "real parser: the same declarations written in the module and pulled in with INCLUDE"}
    return None


def common_cases():
    """one comment on a COMMON statement with several blocks documents every block of the statement (following and preceding styles)"""
    for nblocks in (1, 2, 3):
        blocks = " ".join(f"/blk{k}/ v{k}" for k in range(nblocks))
        for style, lines in (("following", [f"  common {blocks}", "  !! commonw1 commonw2"]), ("preceding", ["  !> commonw1 commonw2", f"  common {blocks}"])):
            src = "subroutine s()\n" + "".join(f"  integer :: v{k}\n" for k in range(nblocks)) + "\n".join(lines) + "\n  integer :: after\n  !! afterw1\nend subroutine s\n"
            try:
                f = realrun.parse_source(src, predocmark=">")
                got = [(c.name, " ".join(c.doc_list).split()) for c in f.subroutines[0].common]
            except Exception as e:
                got = f"{type(e).__name__}: {e}"
            want = [(f"blk{k}", ["commonw1", "commonw2"]) for k in range(nblocks)]
            if got != want:
                return {"confirmed": True, "input": {"source": src}, "actual": got, "expected": want, "how": f"real parser: doc_list of the blocks of one COMMON statement ({style} comment, {nblocks} blocks)"}
    return None


def inherited_component_metadata():
    """leading metadata lines set the metadata of the entity they document - also for a component of a type that another type extends"""
    src = ("module m\n  type :: base\n    integer :: n\n      !! deprecated: true\n      !! version: 3\n      !!\n      !! componentw1 componentw2\n  end type base\n"
           "  type, extends(base) :: child\n    integer :: own\n      !! version: 4\n      !!\n      !! ownw1\n  end type child\nend module m\n")
    proj = realrun.build_project({"src/m.f90": src}, display=["public", "private", "protected"])
    types = {t.name: t for t in proj.types}
    n = [v for v in types["base"].variables if v.name == "n"][0]
    inherited = [v for v in types["child"].variables if v.name == "n"]
    own = [v for v in types["child"].variables if v.name == "own"][0]
    mdm = loader.import_repo("ford._markdown")
    proj.markdown(mdm.MetaMarkdown(aliases={}, project=proj))
    words = lambda e: re.findall(r"[A-Za-z]\w*", html.unescape(re.sub(r"<[^>]+>", " ", str(e))))
    got = {"base%n": (bool(n.meta.deprecated), str(n.meta.version), " ".join(n.doc_list).split()), "child%n is base%n": bool(inherited) and inherited[0] is n,
           "child%own": (bool(own.meta.deprecated), str(own.meta.version), " ".join(own.doc_list).split()),
           "rendered base%n": words(n.doc), "rendered summary of base%n": words(n.meta.summary)[:2], "rendered child%own": words(own.doc)}
    want = {"base%n": (True, "3", ["componentw1", "componentw2"]), "child%n is base%n": True, "child%own": (False, "4", ["ownw1"]),
            "rendered base%n": ["componentw1", "componentw2"], "rendered summary of base%n": ["componentw1", "componentw2"], "rendered child%own": ["ownw1"]}
    if got != want:
        return {"confirmed": True, "input": {"source": src}, "actual": got, "expected": want, "how": "real pipeline (Project.correlate): metadata and documentation of the components of a type and of its extension"}
    return None


def metadata_block_cases():
    """leading metadata lines set the entity's metadata; the metadata ends where the first line stands that is not a `key: value` line of a *metadata key* (or the continuation of
    one): a text line that merely looks like one (`Note: ...`, `Warning: ...`) and everything after it is documentation and is rendered"""
    src = ("module m\n  !! author: Bob\n  !! Note: notew1 notew2\n  !! version: versionw1\n  !!\n  !! bodyw1 bodyw2\n  integer :: x\n    !! deprecated: true\n    !! Warning: warnw1\n    !! tailw1\n"
           "  integer :: y\n    !! Todo: todow1 todow2\n    !!\n    !! yw1\n  integer :: z\n    !! version: 7\n    !!     contw1\n    !! zw1\nend module m\n")
    proj = realrun.build_project({"src/m.f90": src}, display=["public", "private", "protected"])
    mdm = loader.import_repo("ford._markdown")
    proj.markdown(mdm.MetaMarkdown(aliases={}, project=proj))
    m = proj.modules[0]
    v = {e.name: e for e in m.variables}
    words = lambda e: [w for w in re.findall(r"[A-Za-z]\w*", html.unescape(re.sub(r"<[^>]+>", " ", str(e.doc)))) if re.fullmatch(r"[a-z]+w\d", w)]
    got = {"m": (str(m.meta.author), words(m)), "x": (bool(v["x"].meta.deprecated), words(v["x"])), "y": words(v["y"]), "z": (str(v["z"].meta.version).split(), words(v["z"]))}
    want = {"m": ("Bob", ["notew1", "notew2", "versionw1", "bodyw1", "bodyw2"]), "x": (True, ["warnw1", "tailw1"]), "y": ["todow1", "todow2", "yw1"], "z": (["7", "contw1"], ["zw1"])}
    if got != want:
        return {"confirmed": True, "input": {"source": src}, "actual": got, "expected": want,
                "how": "real pipeline + Project.markdown: metadata values and the tracer words of the rendered documentation, in order"}
    return None


def inherited_generic_doc():
    from bounded import c07
    bad = c07.inherited_generics(("docs",))
    if bad:
        return {"confirmed": True, "input": {"source": c07.INHERITED_GENERIC}, "actual": bad, "expected": "the comment of a generic binding is rendered for every type that inherits the binding",
                "how": "real pipeline + Project.markdown: tracer words of the binding's documentation per type"}
    return None


def generic_source_docs():
    """files of an extra file type: their documentation comments are collected under the same marker rules, indented or not; ordinary comments stay out"""
    src = ("# ordinary ordw1\n#! plainw1 plainw2\ndef f():\n    #* altw1\n    #  altw2 altw3\n\n    # ordinary ordw2\n    x = 1  #! inlinew1\n#* topw1\n#  topw2\n")
    st = loader.import_repo("ford.settings")
    proj = realrun.build_project({"src/m.f90": "module m\nend module m\n", "src/tool.py": src}, extra_filetypes={"py": st.ExtraFileType("py", "#")})
    files = getattr(proj, "extra_files", [])
    if not files:
        return {"confirmed": True, "input": {"tool.py": src}, "actual": "no extra file found", "expected": "tool.py documented", "how": "real Project with extra_filetypes"}
    mdm = loader.import_repo("ford._markdown")
    proj.markdown(mdm.MetaMarkdown(aliases={}, project=proj))
    got = [w for w in re.findall(r"[a-z]+w\d", html.unescape(re.sub(r"<[^>]+>", " ", str(files[0].doc))))]
    want = ["plainw1", "plainw2", "altw1", "altw2", "altw3", "inlinew1", "topw1", "topw2"]
    if got != want:
        return {"confirmed": True, "input": {"tool.py": src, "extra_filetypes": "py #"}, "actual": got, "expected": want,
                "how": "real Project + Project.markdown: tracer words of the documentation of a file of an extra file type, in order"}
    # preceding documentation switched off (`predocmark` empty): the ordinary comments still stay out
    proj = realrun.build_project({"src/m.f90": "module m\nend module m\n", "src/tool.py": src}, extra_filetypes={"py": st.ExtraFileType("py", "#")}, predocmark="")
    files = getattr(proj, "extra_files", [])
    if files:
        proj.markdown(mdm.MetaMarkdown(aliases={}, project=proj))
        got = [w for w in re.findall(r"[a-z]+w\d", html.unescape(re.sub(r"<[^>]+>", " ", str(files[0].doc))))]
        if got != want:
            return {"confirmed": True, "input": {"tool.py": src, "extra_filetypes": "py #", "predocmark": ""}, "actual": got, "expected": want,
                    "how": "real Project + Project.markdown with predocmark empty: tracer words of the documentation of a file of an extra file type"}
    return None


def multi_name_statement_docs():
    """a comment that follows a statement naming several entities (`procedure :: a, b, c`, `final :: a, b`, `module procedure a, b`) documents the name it follows - the last one -
    once; the three kinds of statement agree"""
    src = ("module m\n  implicit none\n  type :: t\n  contains\n    procedure :: pa, pb, pc\n      !! bounddoc\n    final :: fa, fb\n      !! finaldoc\n  end type t\n"
           "  interface gen\n    module procedure ma, mb\n      !! modprocdoc\n  end interface gen\ncontains\n"
           + "".join(f"  subroutine {n}(self)\n    {'type' if n[0] == 'f' else 'class'}(t) :: self\n  end subroutine {n}\n" for n in ("pa", "pb", "pc", "fa", "fb"))
           + "  subroutine ma(x)\n    integer :: x\n  end subroutine ma\n  subroutine mb(x)\n    real :: x\n  end subroutine mb\nend module m\n")
    try:
        m = realrun.parse_source(src).modules[0]
        t = m.types[0]
        got = {"procedure ::": {b.name: [l.strip() for l in b.doc_list] for b in t.boundprocs},
               "final ::": {f.name: [l.strip() for l in f.doc_list] for f in t.finalprocs},
               "module procedure": {p.name: [l.strip() for l in p.doc_list] for p in m.interfaces[0].modprocs}}
    except Exception as e:
        got = f"{type(e).__name__}: {e}"
    want = {"procedure ::": {"pa": [], "pb": [], "pc": ["bounddoc"]}, "final ::": {"fa": [], "fb": ["finaldoc"]}, "module procedure": {"ma": [], "mb": ["modprocdoc"]}}
    if got != want:
        return {"confirmed": True, "input": {"source": src}, "actual": got, "expected": want, "how": "real parser: doc_list of every name of three multi-name statements"}
    return None


def pageless_entity_docs():
    """an entity without a page of its own (a type local to a procedure, its components; shown with proc_internals) is documented by what its summary shows: the whole comment"""
    src = ("module m\ncontains\n  subroutine worker()\n    !! worker doc\n    type :: local_t\n      !! typeone typetwo\n      !!\n      !! typethree typefour\n      !!\n      !! - typefive\n"
           "      integer :: comp\n        !! compone\n        !!\n        !! comptwo compthree\n    end type local_t\n  end subroutine worker\nend module m\n")
    proj = realrun.build_project({"src/m.f90": src}, proc_internals=True)
    mdm = loader.import_repo("ford._markdown")
    proj.markdown(mdm.MetaMarkdown(aliases={}, project=proj))
    w = proj.modules[0].subroutines[0]
    t = w.types[0]
    bad = []
    for label, e, want in (("type local_t", t, ["typeone", "typetwo", "typethree", "typefour", "typefive"]), ("component comp", t.variables[0], ["compone", "comptwo", "compthree"])):
        if e.get_url():
            continue
        shown = re.findall(r"(?:type|comp)[a-z]+", html.unescape(re.sub(r"<[^>]+>", " ", str(e.meta.summary or ""))))
        if shown != want:
            bad.append((label, shown, want))
    if bad:
        return {"confirmed": True, "input": {"source": src, "settings": {"proc_internals": True}}, "actual": bad, "expected": "the summary of an entity that has no page holds its whole documentation",
                "how": "real Project + Project.markdown: words of meta.summary of entities whose get_url() is None"}
    return None

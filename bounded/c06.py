"""Refutation search / bounded stand-in for C06 on the real pipeline: three-module projects A <- B <- C generated from an abstract
model of USE forms, compared with an independent implementation of the standard's rules."""
from __future__ import annotations
import itertools
from bounded import realrun

A_TEXT = """module a
  implicit none
  private
  public :: t, s, v
  type :: t
    integer :: c
  end type t
  type :: hid
    integer :: c
  end type hid
  integer :: v
contains
  subroutine s()
  end subroutine s
end module a
"""
EXPORTS_A = {"t": "type", "s": "proc", "v": "var"}     # hid is private

# (label, USE statements text, only?, list of (local, remote))
FORMS = [
    ("plain", "use a", False, []),
    ("colon", "use :: a", False, []),
    ("nonintr", "use, non_intrinsic :: a", False, []),
    ("only_all", "use a, only: t, s, v", True, [("t", "t"), ("s", "s"), ("v", "v")]),
    ("only_one", "use a, only: t", True, [("t", "t")]),
    ("only_case", "USE A, ONLY : T , S", True, [("t", "t"), ("s", "s")]),
    ("rename", "use a, lt => t, ls => s, lv => v", False, [("lt", "t"), ("ls", "s"), ("lv", "v")]),
    ("rename_one", "use a, lt => t", False, [("lt", "t")]),
    ("only_rename", "use a, only: lt => t, s", True, [("lt", "t"), ("s", "s")]),
    ("two_uses", "use a, only: t\n  use a, only: s", True, [("t", "t"), ("s", "s")]),
    ("only_hidden", "use a, only: t, hid", True, [("t", "t")]),
    ("rename_case", "use a, Lt => t, LS => S", False, [("lt", "t"), ("ls", "s")]),
    ("only_rename_case", "use a, only: Lt => T, V", True, [("lt", "t"), ("v", "v")]),
    ("two_locals", "use a, only: p => t, q => t", True, [("p", "t"), ("q", "t")]),
    ("name_and_rename", "use a, only: t, u => t, s", True, [("t", "t"), ("u", "t"), ("s", "s")]),
    ("two_locals_no_only", "use a, p => t, q => t", False, [("p", "t"), ("q", "t")]),
    ("rename_swap", "use a, s => t, t => s", False, [("s", "t"), ("t", "s")]),
    ("rename_chain", "use a, s => t, q => s", False, [("s", "t"), ("q", "s")]),
    ("only_rename_chain", "use a, only: s => t, q => s, v", True, [("s", "t"), ("q", "s"), ("v", "v")]),
    ("only_empty", "use a, only:", True, []),
    ("only_empty_blank", "use a, only :  ", True, []),
]
# two local names for one remote entity (once a known finding: used_names was keyed by the remote name; repaired)
KNOWN_FORM = ("two_locals", "use a, only: p => t, q => t", True, [("p", "t"), ("q", "t")])
UNIVERSE = ["t", "s", "v", "hid", "lt", "ls", "lv", "p", "q", "u"]


def imported(only, items):
    """standard's rule: local name -> remote name"""
    if only:
        return {l: r for l, r in items if r in EXPORTS_A}
    ren = {r: l for l, r in items}
    out = {}
    for r in EXPORTS_A:
        if r in ren:
            for l, rr in items:
                if rr == r:
                    out[l] = r
        else:
            out[r] = r
    return out


def b_text(use_txt, default, publist, privlist=()):
    acc = f"  {default}\n" if default else ""
    pub = f"  public :: {', '.join(publist)}\n" if publist else ""
    prv = f"  private :: {', '.join(privlist)}\n" if privlist else ""
    return f"module b\n  {use_txt}\n  implicit none\n{acc}{pub}{prv}  integer :: own\nend module b\n"


C_TEXT = "module c\n  use b\n  implicit none\nend module c\n"


def cases():
    for (label, use_txt, only, items), default in itertools.product(FORMS, ["", "private"]):
        imp = imported(only, items)
        for publist in ([], sorted(imp)[:1]):
            yield label, use_txt, only, items, default, publist, []
        if not default and imp:
            # an access statement naming a use-associated entity: it is not re-exported
            yield label, use_txt, only, items, default, [], sorted(imp)[-1:]


def table_keys(mod):
    return {"type": set(mod.all_types), "proc": set(mod.all_procs), "var": set(mod.all_vars)}


def check(proj, only, items, default, publist, privlist=()):
    mods = {m.name.lower(): m for m in proj.modules}
    a, b, c = mods["a"], mods["b"], mods["c"]
    imp = imported(only, items)
    bad = []
    objs = {"t": a.types[0] if a.types and a.types[0].name == "t" else None, "s": a.all_procs.get("s"), "v": a.all_vars.get("v")}
    for scope, vis in (("b", imp), ("c", {l: r for l, r in imp.items() if (default != "private" or l in publist) and l not in privlist})):
        m = mods[scope]
        keys = table_keys(m)
        for n in UNIVERSE:
            for kind in ("type", "proc", "var"):
                exp = n in vis and EXPORTS_A[vis[n]] == kind
                act = n in keys[kind]
                if exp != act:
                    bad.append(f"module {scope}: name `{n}` as {kind}: expected {'visible' if exp else 'absent'}, FORD has it {'visible' if act else 'absent'}")
                elif exp:
                    tab = {"type": m.all_types, "proc": m.all_procs, "var": m.all_vars}[kind]
                    if tab[n] is not {"type": a.all_types, "proc": a.all_procs, "var": a.all_vars}[kind][vis[n]]:
                        bad.append(f"module {scope}: `{n}` is bound to a different entity than a's `{vis[n]}`")
    return bad


DEEP = {
    "src/z_base.f90": "module z_base\n  implicit none\n  integer :: base_count\n  type :: base_t\n    integer :: c\n  end type base_t\ncontains\n  subroutine base_sub()\n  end subroutine base_sub\nend module z_base\n",
    "src/m_mid.f90": "module m_mid\n  use z_base\n  implicit none\nend module m_mid\n",
    "src/a_top.f90": ("module a_top\n  implicit none\ncontains\n  subroutine outer()\n  contains\n    subroutine inner()\n      use m_mid\n      type(base_t) :: v\n      call base_sub()\n"
                      "    end subroutine inner\n  end subroutine outer\nend module a_top\n"),
}


def deep_use():
    """a USE two procedure levels below a module, of a module that re-exports a third one: the modules must be correlated in dependency order"""
    proj = realrun.build_project(DEEP, display=["public", "private", "protected"], proc_internals=True)
    mods = {m.name.lower(): m for m in proj.modules}
    outer = mods["a_top"].subroutines[0]
    inner = outer.subroutines[0]
    z = mods["z_base"]
    bad = []
    if inner.all_procs.get("base_sub") is not z.all_procs.get("base_sub"):
        bad.append("internal procedure a_top::outer::inner uses m_mid, which re-exports z_base: base_sub is not visible in inner")
    if inner.all_types.get("base_t") is not z.all_types.get("base_t"):
        bad.append("... base_t is not visible in inner")
    v = inner.variables[0]
    if isinstance(v.proto[0], str):
        bad.append("type(base_t) in inner stays unresolved text")
    if not inner.calls or isinstance(inner.calls[0], str):
        bad.append("call base_sub() in inner stays unresolved text")
    return bad


SUBMOD = {
    "src/c_mod.f90": "module c_mod\n  implicit none\n  type :: t_c\n    integer :: c\n  end type t_c\ncontains\n  subroutine p_c()\n  end subroutine p_c\nend module c_mod\n",
    "src/r_mod.f90": "module r_mod\n  use c_mod\n  implicit none\nend module r_mod\n",
    "src/a_mod.f90": "module a_mod\n  implicit none\n  interface\n    module subroutine work()\n    end subroutine work\n  end interface\nend module a_mod\n",
    "src/a_sub.f90": ("submodule (a_mod) a_sub\n  use r_mod\n  implicit none\ncontains\n  module subroutine work()\n    type(t_c) :: v\n    call p_c()\n  end subroutine work\n"
                      "  subroutine helper()\n    use r_mod\n    type(t_c) :: w\n  end subroutine helper\nend submodule a_sub\n"),
}


def submodule_use():
    """a submodule that uses a re-exporting module which sorts after it by name: its own USE statements must order its correlation like a module's"""
    proj = realrun.build_project(SUBMOD, display=["public", "private", "protected"], proc_internals=True)
    sub = proj.submodules[0]
    c = [m for m in proj.modules if m.name.lower() == "c_mod"][0]
    bad = []
    if sub.all_types.get("t_c") is not c.all_types.get("t_c"):
        bad.append("submodule a_sub uses r_mod, which re-exports c_mod: t_c is not visible in a_sub")
    if sub.all_procs.get("p_c") is not c.all_procs.get("p_c"):
        bad.append("... p_c is not visible in a_sub")
    for proc in list(getattr(sub, "modsubroutines", [])) + list(sub.subroutines):
        for v in proc.variables:
            if v.proto and isinstance(v.proto[0], str):
                bad.append(f"type(t_c) :: {v.name} in a_sub::{proc.name} stays unresolved text")
    return bad


OPER = {
    "src/m.f90": ("module m\n  implicit none\n  interface operator(.plus.)\n    module procedure addi\n  end interface\n  interface assignment(=)\n    module procedure asg\n  end interface\n"
                  "contains\n  function addi(a, b)\n    integer, intent(in) :: a, b\n    integer :: addi\n    addi = a + b\n  end function addi\n"
                  "  subroutine asg(a, b)\n    integer, intent(out) :: a\n    logical, intent(in) :: b\n    a = 0\n  end subroutine asg\nend module m\n"),
    "src/u.f90": "module u\n  use m, only: operator (.plus.), assignment ( = )\n  implicit none\nend module u\n",
    "src/v.f90": "module v\n  use m, only: operator(.plus.), assignment(=)\n  implicit none\nend module v\n",
}


def operator_blanks():
    """generic identifiers in an ONLY list are the same name however the blanks are placed: `operator (.plus.)` = `operator(.plus.)`"""
    proj = realrun.build_project(OPER, display=["public", "private", "protected"])
    mods = {m.name.lower(): m for m in proj.modules}
    want = {k for k in mods["m"].all_procs if k.startswith(("operator", "assignment"))}
    bad = []
    for n in ("u", "v"):
        got = {k for k in mods[n].all_procs if k.startswith(("operator", "assignment"))}
        if got != want:
            bad.append(f"module {n}: imports {sorted(got)}, the ONLY list names {sorted(want)}")
    return bad


HIDES = {
    "src/kinds_a.f90": "module kinds_a\n  implicit none\n  type :: cfg\n    integer :: from_a\n  end type cfg\ncontains\n  subroutine setup()\n  end subroutine setup\nend module kinds_a\n",
    "src/kinds_b.f90": "module kinds_b\n  implicit none\n  type :: cfg\n    integer :: from_b\n  end type cfg\n  integer :: level\ncontains\n  subroutine setup()\n  end subroutine setup\nend module kinds_b\n",
    "src/host.f90": ("module host\n  use kinds_a\n  implicit none\n  integer :: level\ncontains\n  subroutine inner_user()\n    use kinds_b, only: cfg, setup, level\n    type(cfg) :: c\n    call setup()\n"
                     "  end subroutine inner_user\n  subroutine plain_user()\n    type(cfg) :: c\n    call setup()\n  end subroutine plain_user\nend module host\n"),
}


def use_hides_host():
    """a USE in a nested scope that imports a name its host already has (declared there or use-associated there): the imported entity is the one the nested scope sees"""
    proj = realrun.build_project(HIDES, display=["public", "private", "protected"], proc_internals=True)
    mods = {m.name.lower(): m for m in proj.modules}
    a, b, h = mods["kinds_a"], mods["kinds_b"], mods["host"]
    subs = {p.name: p for p in h.subroutines}
    bad = []
    for name, src, what in (("inner_user", b, "kinds_b (its own USE)"), ("plain_user", a, "kinds_a (through the host)")):
        p = subs[name]
        if p.all_types.get("cfg") is not src.all_types.get("cfg"):
            bad.append(f"host::{name}: type cfg is not the one of {what}")
        if p.all_procs.get("setup") is not src.all_procs.get("setup"):
            bad.append(f"host::{name}: procedure setup is not the one of {what}")
    if subs["inner_user"].all_vars.get("level") is not b.all_vars.get("level"):
        bad.append("host::inner_user: variable level is the host's, not the one imported from kinds_b")
    return bad


SHADOW = {
    "src/mpi.f90": "module mpi\n  !! a serial stand-in for the MPI module\n  implicit none\n  integer, parameter :: mpi_comm_world = 0\n  type :: mpi_status\n    integer :: code\n  end type mpi_status\ncontains\n"
                   "  subroutine mpi_init(ierr)\n    integer, intent(out) :: ierr\n    ierr = 0\n  end subroutine mpi_init\nend module mpi\n",
    "src/extra.f90": "module vendor_lib\n  implicit none\n  type :: handle\n    integer :: h\n  end type handle\nend module vendor_lib\n",
    "src/app.f90": "module app\n  use mpi\n  use vendor_lib, only: handle\n  use iso_fortran_env, only: real64\n  implicit none\n  type(mpi_status) :: st\n  type(handle) :: hd\ncontains\n"
                   "  subroutine start()\n    integer :: ierr\n    call mpi_init(ierr)\n  end subroutine start\nend module app\n",
}


def shadowed_external():
    """a module of the project wins over an intrinsic / `extra_mods` module of the same name: USE imports the project module's entities"""
    proj = realrun.build_project(SHADOW, display=["public", "private", "protected"], extra_mods={"vendor_lib": "https://vendor.example/lib"})
    mods = {m.name: m for m in proj.modules}
    app = mods["app"]
    bad = []
    uses = {getattr(u, "name", u): type(u).__name__ for u in app.uses}
    for n in ("mpi", "vendor_lib"):
        if uses.get(n) != "FortranModule":
            bad.append(f"`use {n}` in app resolves to {uses.get(n)}, not to the project's module {n}")
    if uses.get("iso_fortran_env") not in ("ExternalModule",):
        bad.append(f"`use iso_fortran_env` resolves to {uses.get('iso_fortran_env')}")
    st, hd = [v for v in app.variables if v.name == "st"][0], [v for v in app.variables if v.name == "hd"][0]
    if isinstance(st.proto[0], str) or st.proto[0].parent is not mods["mpi"]:
        bad.append("type(mpi_status) in app is not the type declared in the project's module mpi")
    if isinstance(hd.proto[0], str) or hd.proto[0].parent is not mods["vendor_lib"]:
        bad.append("type(handle) in app is not the type declared in the project's module vendor_lib")
    start = app.subroutines[0]
    if not start.calls or isinstance(start.calls[0], str) or start.calls[0].parent is not mods["mpi"]:
        bad.append("call mpi_init in app::start does not resolve to the subroutine of the project's module mpi")
    return bad


OVERLAP = {
    "src/grid.f90": "module grid_mod\n  implicit none\n  integer :: rows, cols, depth\n  type :: cell\n    integer :: c\n  end type cell\n  type :: node\n    integer :: n\n  end type node\ncontains\n"
                    "  subroutine push()\n  end subroutine push\n  subroutine pop()\n  end subroutine pop\nend module grid_mod\n",
    "src/swap.f90": "module swap_mod\n  use grid_mod, rows => cols, cols => rows, cell => node, node => cell, push => pop, pop => push\n  implicit none\nend module swap_mod\n",
    "src/shuffle.f90": "module shuffle_mod\n  use grid_mod, width => rows, rows => depth, spare => cell, cell => node, shove => push, push => pop\n  implicit none\nend module shuffle_mod\n",
}


def overlapping_renames():
    """rename clauses of one USE statement are simultaneous: the remote name of one clause may be the local name of another (a swap, a chain); every clause refers to the entity the
    used module exports under that name"""
    proj = realrun.build_project(OVERLAP, display=["public", "private", "protected"])
    mods = {m.name: m for m in proj.modules}
    g = mods["grid_mod"]
    ent = {"rows": g.all_vars["rows"], "cols": g.all_vars["cols"], "depth": g.all_vars["depth"], "cell": g.all_types["cell"], "node": g.all_types["node"], "push": g.all_procs["push"], "pop": g.all_procs["pop"]}
    want = {"swap_mod": {"rows": "cols", "cols": "rows", "depth": "depth", "cell": "node", "node": "cell", "push": "pop", "pop": "push"},
            "shuffle_mod": {"width": "rows", "rows": "depth", "cols": "cols", "spare": "cell", "cell": "node", "shove": "push", "push": "pop"}}
    bad = []
    for mn, exp in want.items():
        m = mods[mn]
        tables = {}
        for t in (m.all_vars, m.all_types, m.all_procs):
            tables.update(t)
        got = {k: next((n for n, e in ent.items() if e is v), "?") for k, v in tables.items() if any(e is v for e in ent.values())}
        if got != exp:
            bad.append(f"{mn}: local name -> entity of grid_mod is {dict(sorted(got.items()))}, the USE statement says {dict(sorted(exp.items()))}")
    return bad


VIA_IMPORTED = {
    "src/a.f90": ("module a\n  implicit none\n  type :: t\n  contains\n    procedure :: meth\n  end type t\n  type :: holder\n    type(t) :: inner\n  end type holder\n  type(t) :: shared\n  type(holder) :: box\n"
                  "contains\n  subroutine meth(self)\n    class(t), intent(in) :: self\n  end subroutine meth\nend module a\n"),
    "src/b.f90": "module b\n  use a, only: thing => shared, box\n  implicit none\nend module b\n",
    "src/c.f90": ("module c\n  use b\n  implicit none\ncontains\n  subroutine via_renamed_variable()\n    call thing%meth()\n  end subroutine via_renamed_variable\n"
                  "  subroutine via_component()\n    call box%inner%meth()\n  end subroutine via_component\nend module c\n"),
    "src/d.f90": "program d\n  use a\n  implicit none\n  call shared%meth()\nend program d\n",
}


def through_imported_variables():
    """a reference made through a use-associated variable (renamed, re-exported, or a component of one) resolves to the exporting module's entity, whatever the order of the files"""
    import itertools
    names = sorted(VIA_IMPORTED)
    for order in list(itertools.permutations(names))[::5]:
        files = {f"src/{i}_{n.split('/')[1]}": VIA_IMPORTED[n] for i, n in enumerate(order)}
        proj = realrun.build_project(files)
        got = {}
        for m in proj.modules:
            for p in m.subroutines:
                if p.name.startswith("via_"):
                    got[p.name] = [getattr(c, "name", c) if not isinstance(c, str) else f"<unresolved {c}>" for c in p.calls]
        for p in proj.programs:
            got["program d"] = [getattr(c, "name", c) if not isinstance(c, str) else f"<unresolved {c}>" for c in p.calls]
        want = {"via_renamed_variable": ["meth"], "via_component": ["meth"], "program d": ["meth"]}
        if got != want:
            return {"file order": [n.split("/")[1] for n in order], "calls": got, "expected": want}
    return None


NML_FILES = {
    "src/a.f90": "module m_a\n  implicit none\n  integer :: x\n  character(len=3) :: tag = 'abc'\nend module m_a\n",
    "src/b.f90": "module m_b\n  use m_a, zx => x\n  implicit none\nend module m_b\n",
    "src/c.f90": ("module m_c\n  use m_b, only: lx => zx\n  use m_a, only: tag\n  implicit none\n  namelist /nml/ lx\ncontains\n  subroutine s(tag)\n    character(len=*), intent(in) :: tag\n    namelist /inner/ tag, lx\n"
                  "  end subroutine s\nend module m_c\n"),
}


def namelist_members():
    """the members of a namelist are the variables their names denote in the scope of the NAMELIST statement: a use-associated variable under its local name (through any chain of
    renames), a dummy argument before a host variable of the same name"""
    proj = realrun.build_project(NML_FILES)
    c = next(m for m in proj.modules if m.name == "m_c")
    show = lambda v: v if isinstance(v, str) else (v.name, v.full_type, getattr(getattr(v, "parent", None), "name", None))
    got = {"nml": [show(v) for v in c.namelists[0].variables], "inner": [show(v) for v in c.subroutines[0].namelists[0].variables]}
    want = {"nml": [("x", "integer", "m_a")], "inner": [("tag", "character(len=*)", "s"), ("x", "integer", "m_a")]}
    if got != want:
        return {"members": got, "expected": want}
    return None


def search():
    bad = namelist_members()
    if bad:
        return {"confirmed": True, "input": {"files": NML_FILES}, "actual": bad, "expected": "namelist members resolve by the scope's names", "how": "bounded search on the real pipeline: namelists naming renamed and shadowed variables"}
    bad = through_imported_variables()
    if bad:
        return {"confirmed": True, "input": {"files": VIA_IMPORTED}, "actual": bad, "expected": "calls through use-associated variables resolve to the binding of the exporting module's type",
                "how": "bounded search on the real pipeline: 5 file orders of a four-file project"}
    bad = overlapping_renames()
    if bad:
        return {"confirmed": True, "input": {"files": OVERLAP}, "actual": bad, "expected": "the rename clauses of a USE statement apply simultaneously", "how": "bounded search on the real pipeline: swapped and chained renames without ONLY"}
    bad = shadowed_external()
    if bad:
        return {"confirmed": True, "input": {"files": SHADOW, "settings": {"extra_mods": {"vendor_lib": "https://vendor.example/lib"}}}, "actual": bad,
                "expected": "a USE statement names the project's own module when it has one of that name", "how": "bounded search on the real pipeline: project modules named like an intrinsic and an extra module"}
    from bounded import c07
    bad = c07.interface_body_uses()
    if bad:
        return {"confirmed": True, "input": {"files": c07.IFACE_BODIES}, "actual": bad, "expected": "a USE inside an interface body imports into that body",
                "how": "bounded search on the real pipeline: USE statements in the bodies of a generic and of a plain interface block"}
    bad = use_hides_host()
    if bad:
        return {"confirmed": True, "input": {"files": HIDES}, "actual": bad, "expected": "a use-associated name hides the host's entity of the same name",
                "how": "bounded search on the real pipeline: a contained procedure imports names its host module also has"}
    bad = operator_blanks()
    if bad:
        return {"confirmed": True, "input": {"files": OPER}, "actual": bad, "expected": "both spellings of the ONLY list import the two generic interfaces",
                "how": "bounded search on the real pipeline: ONLY lists naming operator / assignment generics with and without blanks"}
    bad = submodule_use()
    if bad:
        return {"confirmed": True, "input": {"files": SUBMOD}, "actual": bad, "expected": "USE association in a submodule through a re-exporting module",
                "how": "bounded search on the real pipeline: c_mod <- r_mod <- submodule a_sub of a_mod (a_sub sorts before r_mod)"}
    bad = deep_use()
    if bad:
        return {"confirmed": True, "input": {"files": DEEP}, "actual": bad, "expected": "USE association through a re-exporting module, wherever the USE statement is nested",
                "how": "bounded search on the real pipeline: module chain z_base <- m_mid <- a_top::outer::inner"}
    for label, use_txt, only, items, default, publist, privlist in cases():
        files = {"src/a.f90": A_TEXT, "src/b.f90": b_text(use_txt, default, publist, privlist), "src/c.f90": C_TEXT}
        try:
            proj = realrun.build_project(files, display=["public", "private", "protected"])
        except Exception as e:
            return {"confirmed": True, "input": {"files": files}, "actual": f"{type(e).__name__}: {e}", "expected": "no failure", "how": f"case {label}"}
        bad = check(proj, only, items, default, publist, privlist)
        if bad:
            return {"confirmed": True, "input": {"files": files}, "actual": bad[:4],
                    "expected": "names visible in b and (re-exported) in c per the standard's USE rules",
                    "how": f"bounded search on the real pipeline, USE form '{label}', b default '{default or 'public'}', public list {publist}, private list {privlist}"}
    return None


def known_case():
    label, use_txt, only, items = KNOWN_FORM
    files = {"src/a.f90": A_TEXT, "src/b.f90": b_text(use_txt, "", []), "src/c.f90": C_TEXT}
    proj = realrun.build_project(files, display=["public", "private", "protected"])
    bad = check(proj, only, items, "", [])
    if bad:
        return {"confirmed": True, "input": {"files": files}, "actual": bad[:4], "expected": "both local names p and q denote a's t", "how": "real pipeline, USE form 'two_locals'"}
    return None


def count_cases():
    return sum(1 for _ in cases()) + 1

"""Bounded stand-in / refutation search for C05 on the real pipeline: small generated programs x display settings;
executable form of the prune postcondition: every entity left in a child list of a unit is selected."""
from __future__ import annotations
import itertools
from bounded import realrun
from contracts.display import children_lists, HIDDEN_EMPTY

KINDS = ["variable", "type", "subroutine", "function", "interface", "absinterface", "enum", "namelist", "common"]


def unit_text(perm_default: str, entity_perm: str, documented: bool, in_proc: bool):
    doc = lambda t: f"    !! doc {t}\n" if documented else ""
    attr = f", {entity_perm}" if entity_perm else ""
    spec = []
    spec.append(f"  integer{attr} :: v1\n" + doc("v1"))
    spec.append(f"  type{attr} :: t1\n" + doc("t1") + "    integer :: c\n  end type t1\n")
    spec.append("  enum, bind(c)\n" + doc("enum") + "    enumerator :: red = 1\n  end enum\n")
    spec.append("  integer :: nv\n  namelist /nml/ nv\n" + doc("nml"))
    spec.append("  integer :: cv\n  common /blk/ cv\n" + doc("blk"))
    spec.append("  interface gen\n" + doc("gen") + "    module procedure s1\n  end interface gen\n" if not in_proc else "")
    spec.append("  abstract interface\n    subroutine absi()\n" + doc("absi") + "    end subroutine absi\n  end interface\n")
    acc = (f"  {perm_default}\n" if perm_default else "")
    stmts = "".join(spec)
    procs = "  subroutine s1()\n" + doc("s1") + "  end subroutine s1\n  function f1()\n" + doc("f1") + "    integer :: f1\n  end function f1\n"
    if in_proc:
        inner = f"  subroutine outer()\n    !! doc outer\n{stmts.replace(attr, '')}  contains\n{procs}  end subroutine outer\n"
        return f"module m\n  !! doc m\n  implicit none\ncontains\n{inner}end module m\n"
    extra = (f"  {entity_perm} :: s1, f1\n" if entity_perm else "")
    return f"module m\n  !! doc m\n  implicit none\n{acc}{extra}{stmts}contains\n{procs}end module m\n"


def check_project(proj, hide_undoc):
    """executable postcondition of prune on every code unit of the project"""
    bad = []
    lists = [l for l in children_lists() if l not in ("args", "bindings", "modules", "programs", "submodules", "blockdata")]
    for f in proj.files:
        for ent in realrun.walk_entities(f):
            if not hasattr(ent, "prune") or type(ent).__name__ in ("FortranSourceFile",):
                continue
            if not getattr(ent, "visible", False):
                continue
            hidden = ent.obj == "proc" and not ent.meta.proc_internals
            for l in lists:
                for x in getattr(ent, l, []) or []:
                    if isinstance(x, str) or not hasattr(x, "permission"):
                        continue
                    if l in ("boundprocs", "finalprocs") and type(ent).__name__ != "FortranType":
                        continue
                    sel = (x.permission in ent.display) and (not hide_undoc or bool(x.doc_list))
                    if hidden and l in HIDDEN_EMPTY:
                        bad.append((type(ent).__name__, ent.name, l, getattr(x, "name", ""), x.permission, "procedure internals shown although proc_internals is off"))
                    elif not hidden and not sel:
                        bad.append((type(ent).__name__, ent.name, l, getattr(x, "name", ""), x.permission,
                                    f"unselected entity left in list (display={ent.display}, hide_undoc={hide_undoc}, documented={bool(x.doc_list)})"))
    # project-level lists that get pages of their own: only entities whose whole chain of parents is displayed
    for lst in ("procedures", "types", "absinterfaces", "namelists", "submodprocedures"):
        for x in getattr(proj, lst, []):
            a, chain_ok = x, True
            while a is not None:
                if not getattr(a, "visible", True):
                    chain_ok = False
                a = getattr(a, "parent", None)
            if not chain_ok:
                bad.append(("Project", lst, getattr(x, "name", ""), getattr(getattr(x, "parent", None), "name", ""), "an entity below an undisplayed parent is in a project list that gets pages"))
    return bad


def hidden_procedure_namelist():
    """a namelist inside a procedure that display hides must not get a page (the project list is filled at parse time)"""
    text = ("module m\n  implicit none\n  private\n  public :: pub\ncontains\n  subroutine pub()\n    !! public one\n    integer :: a\n    namelist /pubnml/ a\n"
            "  end subroutine pub\n  subroutine hidden()\n    !! hidden one\n    integer :: b\n    namelist /hidnml/ b\n  end subroutine hidden\nend module m\n")
    for st in (dict(display=["public", "protected"]), dict(display=["public", "protected"], proc_internals=True)):
        proj = realrun.build_project({"src/m.f90": text}, **st)
        bad = check_project(proj, False)
        if bad:
            return {"confirmed": True, "input": {"source": text, "settings": st}, "actual": bad[:3], "expected": "no page for the namelist of the private procedure `hidden`",
                    "how": "real pipeline; project lists vs the visibility of every ancestor"}
    return None


def module_procedure_body():
    """the body of a separate module procedure written as `module procedure name ... end procedure` is a procedure too: with proc_internals off its locals are not shown"""
    text = ("module par\n  implicit none\n  interface\n    module subroutine work(n)\n      integer, intent(in) :: n\n    end subroutine work\n  end interface\nend module par\n"
            "submodule (par) impl\ncontains\n  module procedure work\n    !! implementation\n    integer :: local_counter\n      !! a local\n    type :: local_t\n      integer :: c\n    end type local_t\n"
            "  contains\n    subroutine inner()\n      !! inner\n    end subroutine inner\n  end procedure work\nend submodule impl\n")
    for st in (dict(display=["public", "private", "protected"], proc_internals=False),):
        proj = realrun.build_project({"src/m.f90": text}, **st)
        bad = check_project(proj, False)
        sub = proj.submodules[0]
        for mp in getattr(sub, "modprocedures", []):
            for l in ("variables", "types", "subroutines", "functions"):
                left = [getattr(x, "name", "") for x in getattr(mp, l, [])]
                if left:
                    bad.append((type(mp).__name__, mp.name, l, left, "internals of a module-procedure body shown although proc_internals is off"))
        if bad:
            return {"confirmed": True, "input": {"source": text, "settings": st}, "actual": bad[:3], "expected": "locals of the `module procedure` body are not listed",
                    "how": "real pipeline; child lists of the FortranModuleProcedureImplementation after prune"}
    return None


def metadata_key_case():
    """metadata keys are case-insensitive (FORD lower-cases them when it reads them): `Display:` / `Proc_Internals:` in an entity's comment override the project's setting
    like `display:` / `proc_internals:` do"""
    out = {}
    for key_d, key_p in (("display", "proc_internals"), ("Display", "Proc_Internals"), ("DISPLAY", "PROC_INTERNALS")):
        text = (f"module m\n  !! {key_d}: private\n  !!\n  !! module doc\n  implicit none\n  integer, private :: hid\n    !! hid doc\n  integer, public :: pub\n    !! pub doc\ncontains\n"
                f"  subroutine s()\n    !! {key_p}: true\n    !!\n    !! s doc\n    integer :: loc\n      !! loc doc\n  end subroutine s\nend module m\n"
                f"module n\n  !! n doc\n  implicit none\ncontains\n  subroutine t()\n    !! {key_p}: true\n    !!\n    !! t doc\n    integer :: loc2\n      !! loc2 doc\n  end subroutine t\nend module n\n")
        proj = realrun.build_project({"src/m.f90": text}, display=["public", "protected"], proc_internals=False)
        mods = {x.name: x for x in proj.modules}
        out[key_d] = {"variables of m": sorted(v.name for v in mods["m"].variables), "locals of n::t": sorted(v.name for r in mods["n"].subroutines for v in r.variables)}
    want = {"variables of m": ["hid"], "locals of n::t": ["loc2"]}
    bad = {k: v for k, v in out.items() if v != want}
    if bad:
        return {"confirmed": True, "input": {"source": text, "settings": {"display": ["public", "protected"], "proc_internals": False}}, "actual": bad, "expected": {k: want for k in bad},
                "how": "real pipeline: what is left in the child lists after prune when the overriding metadata key is spelt in lower, capitalised and upper case"}
    return None


def hidden_constructor():
    """a type and the generic interface of the same name are one identifier: when the type is private (on the TYPE statement) and display leaves private entities out, the
    constructor interface is not shown either"""
    text = ("module m\n  !! doc\n  implicit none\n  type, private :: t\n    !! type doc\n    integer :: c\n  end type t\n  interface t\n    !! UNSELECTEDCTOR doc\n    module procedure make_t\n  end interface t\n"
            "  type :: shown\n    !! shown doc\n    integer :: d\n  end type shown\n  interface shown\n    !! shown ctor\n    module procedure make_shown\n  end interface shown\ncontains\n"
            "  function make_t() result(r)\n    !! make doc\n    type(t) :: r\n  end function make_t\n  function make_shown() result(r)\n    !! make doc\n    type(shown) :: r\n  end function make_shown\nend module m\n")
    proj = realrun.build_project({"src/m.f90": text}, display=["public", "protected"])
    m = proj.modules[0]
    got = {"types": sorted(x.name for x in m.types), "interfaces": sorted(x.name for x in m.interfaces)}
    want = {"types": ["shown"], "interfaces": ["shown"]}
    if got != want:
        return {"confirmed": True, "input": {"source": text, "settings": {"display": ["public", "protected"]}}, "actual": got, "expected": want,
                "how": "real pipeline: types and interfaces left in the module's lists after prune"}
    return None


def dropped_members_are_not_linked():
    """a component or binding that the display options exclude is neither described on its type's page nor linked to: it is out of the type's lists *and* prints as a plain name"""
    text = ("module m\n  implicit none\n  type :: t\n    !! t doc\n    integer :: shown\n      !! shown doc\n    integer, private :: secret_comp\n      !! secret doc\n  contains\n    procedure :: pub_bind => impl\n"
            "    procedure, private :: secret_bind => impl\n  end type t\ncontains\n  subroutine impl(self)\n    class(t) :: self\n  end subroutine impl\nend module m\n")
    proj = realrun.build_project({"src/m.f90": text}, correlate=False)
    t = proj.modules[0].types[0]
    members = list(t.variables) + list(t.boundprocs)
    import io, contextlib
    with contextlib.redirect_stdout(io.StringIO()), contextlib.redirect_stderr(io.StringIO()):
        proj.correlate()
    kept = {id(x) for x in list(t.variables) + list(t.boundprocs)}
    bad = [(x.name, "listed" if id(x) in kept else "dropped", bool(getattr(x, "visible", False)), str(x)[:60]) for x in members
           if (id(x) in kept) != bool(getattr(x, "visible", False)) or (id(x) not in kept and "<a " in str(x))]
    if bad or {x.name for x in members if id(x) in kept} != {"shown", "pub_bind"}:
        return {"confirmed": True, "input": {"source": text, "display": "public, protected (default)"}, "actual": bad or sorted(x.name for x in members if id(x) in kept),
                "expected": "shown and pub_bind listed, visible and linked; secret_comp and secret_bind dropped, not visible, plain names", "how": "real Project + correlate: every member of a type before and after pruning"}
    return None


def toplevel_internals_case():
    """the display options reach the contents of a procedure that stands outside any module like those of a module procedure"""
    text = ("subroutine outer()\n  !! outer doc\n  integer :: documented\n    !! doc\n  integer :: undocumented\ncontains\n  subroutine inner_doc()\n    !! inner doc\n  end subroutine inner_doc\n"
            "  subroutine inner_undoc()\n  end subroutine inner_undoc\nend subroutine outer\n")
    for st in (dict(proc_internals=True, hide_undoc=True), dict(proc_internals=True, hide_undoc=True, display=["public", "private", "protected"])):
        proj = realrun.build_project({"src/o.f90": text}, **st)
        o = next(p for p in proj.procedures if p.name == "outer")
        got = (sorted(p.name for p in o.subroutines), sorted(v.name for v in o.variables))
        if got != (["inner_doc"], ["documented"]):
            return {"confirmed": True, "input": {"source": text, "settings": st}, "actual": got, "expected": (["inner_doc"], ["documented"]),
                    "how": "real Project + correlate: internal procedures and variables left on the page of a top-level procedure with hide_undoc"}
    return None


def display_spellings():
    """`display` given as one value (a TOML string, a keyword argument) selects what the one-element list selects, in any letter case"""
    text = "module m\n  implicit none\n  private\n  public :: pub\ncontains\n  subroutine pub()\n    !! public one\n  end subroutine pub\n  subroutine hid()\n    !! hidden one\n  end subroutine hid\nend module m\n"
    res = {}
    for label, disp in (("list", ["private"]), ("one string", "private"), ("upper case", ["PRIVATE"]), ("one upper-case string", "Private")):
        try:
            proj = realrun.build_project({"src/m.f90": text}, display=disp)
            res[label] = sorted(p.name for p in proj.procedures)
        except Exception as e:
            res[label] = f"{type(e).__name__}: {e}"
    if any(v != ["hid"] for v in res.values()):
        return {"confirmed": True, "input": {"source": text, "display": "['private'] / 'private' / ['PRIVATE'] / 'Private'"}, "actual": res, "expected": {k: ["hid"] for k in res},
                "how": "real Project + correlate: procedures that get a page under each spelling of the display option"}
    return None


def cases():
    for pd, ep, doc, inproc in itertools.product(["", "private"], ["", "private", "public"], [True, False], [False, True]):
        for display in (["public", "protected"], ["private"], ["public", "private", "protected"]):
            for hide in (False, True):
                for pi in (False, True):
                    if inproc is False and pi:
                        continue
                    yield dict(perm_default=pd, entity_perm=ep, documented=doc, in_proc=inproc), dict(display=display, hide_undoc=hide, proc_internals=pi)


def search(limit=None):
    hit = hidden_procedure_namelist() or module_procedure_body() or metadata_key_case() or hidden_constructor() or display_spellings() or dropped_members_are_not_linked() or toplevel_internals_case() or __import__("bounded.c04", fromlist=["x"]).multi_name_binding_case() or __import__("bounded.c04", fromlist=["x"]).protected_and_public_case()
    if hit:
        return hit
    n = 0
    for prog, st in cases():
        text = unit_text(**prog)
        try:
            proj = realrun.build_project({"src/m.f90": text}, **st)
        except Exception as e:
            continue
        n += 1
        bad = check_project(proj, st["hide_undoc"])
        if bad:
            return {"confirmed": True, "input": {"source": text, "settings": st}, "actual": bad[:3],
                    "expected": "after Project.correlate(), every entity left in a child list of a displayed unit is selected by display/hide_undoc/proc_internals",
                    "how": "bounded search on the real pipeline (Project(...).correlate()) with generated modules"}
        if limit and n >= limit:
            break
    return None


def count_cases():
    return sum(1 for _ in cases())


# ---- whole-site scenarios: links (also those written into popover attributes) never lead to pages of unselected entities, and their text is nowhere
SITE_CASES = {
    "separate_module_procedure": ({"src/par.f90":
        "module par\n  !! module doc\n  implicit none\n  interface\n    module subroutine work(n)\n      !! interface doc\n      integer, intent(in) :: n\n    end subroutine work\n"
        "    module function twice(n) result(r)\n      !! interface doc\n      integer, intent(in) :: n\n      integer :: r\n    end function twice\n  end interface\nend module par\n"
        "submodule (par) impl\n  !! submodule doc\ncontains\n  module subroutine work(n)\n    !! UNSELECTEDIMPL doc\n    integer, intent(in) :: n\n  end subroutine work\n"
        "  module procedure twice\n    !! UNSELECTEDIMPL doc\n    r = 2 * n\n  end procedure twice\nend submodule impl\n"}, "", ["UNSELECTEDIMPL"]),
    "hidden_parent_type": ({"src/shapes.f90":
        "module shapes\n  !! module doc\n  implicit none\n  private\n  type :: base_t\n    !! base doc\n    integer :: n\n      !! component doc\n  contains\n    procedure :: show\n  end type\n"
        "  type, public, extends(base_t) :: child_t\n    !! child doc\n  end type\ncontains\n  subroutine show(self)\n    !! UNSELECTEDSHOW doc\n    class(base_t) :: self\n  end subroutine show\n"
        "end module shapes\n"}, "", []),       # (the inherited public binding `show` is part of child_t: its text may appear there; only the links are checked)
    "common_block_used_in_a_hidden_procedure": ({"src/blocks.f90":
        "module blocks\n  !! module doc\n  implicit none\n  private\n  public :: pubsub\ncontains\n  subroutine pubsub()\n    !! pub doc\n    integer :: a\n    common /blk/ a\n  end subroutine pubsub\n"
        "  subroutine privsub()\n    !! UNSELECTEDPRIV doc\n    integer :: a\n    common /blk/ a\n  end subroutine privsub\nend module blocks\n"
        "subroutine outside()\n  !! outside doc\n  integer :: a\n  common /blk/ a\nend subroutine outside\n"}, "proc_internals: true\n", ["UNSELECTEDPRIV"]),
    "hidden_specifics_with_long_docs": ({"src/gen.f90":
        "module gen_m\n  !! module doc\n  implicit none\n  private\n  public :: gen, pub_t\n  interface gen\n    !! generic doc\n    module procedure spec_a\n  end interface gen\n"
        "  type :: pub_t\n    !! type doc\n  contains\n    procedure :: bound => impl_b\n  end type pub_t\ncontains\n"
        "  subroutine spec_a(x)\n    !! first paragraph of spec_a\n    !!\n    !! SECONDPARA of spec_a\n    integer :: x\n  end subroutine spec_a\n"
        "  subroutine impl_b(self)\n    !! first paragraph of impl_b\n    !!\n    !! SECONDPARA of impl_b\n    class(pub_t) :: self\n  end subroutine impl_b\nend module gen_m\n"}, "", []),
    "private_namelist": ({"src/nml.f90":
        "module mm\n  !! module doc\n  implicit none\n  private\n  integer :: a\n    !! UNSELECTEDVAR doc\n  namelist /secretnml/ a\n    !! UNSELECTEDNML doc\nend module mm\n"
        "module pp\n  !! public module\n  implicit none\n  integer :: b\n  namelist /pubnml/ b\n    !! pub nml doc\ncontains\n  subroutine s()\n    integer :: c\n    namelist /procnml/ c\n"
        "  end subroutine s\nend module pp\n"}, "search: true\n", ["UNSELECTEDNML", "UNSELECTEDVAR"]),
}


def site_cases(only=None):
    from bounded import site
    import os
    for name, (files, meta, forbidden) in SITE_CASES.items():
        if only and name != only:
            continue
        # (incl_src off: the pages that list the raw source naturally hold every comment)
        with site.site(files, "src_dir: ./src\noutput_dir: ./doc\nincl_src: false\n" + meta) as (pd, status):
            out = os.path.join(pd, "doc")
            if status != "ok" or not os.path.isdir(out):
                return {"confirmed": True, "input": {"scenario": name, "files": files, "meta": meta}, "actual": status[:400], "expected": "FORD runs", "how": "full FORD run"}
            problems, nl, npages = site.walk_links(out)
            p2, _ = site.search_index_links(out)
            leaks = []
            for d, _, ff in os.walk(out):
                for f in ff:
                    if f.endswith((".html", ".json", ".js")) and not d.endswith(os.sep + "src"):
                        text = open(os.path.join(d, f), encoding="utf-8", errors="replace").read()
                        leaks += [f"{os.path.relpath(os.path.join(d, f), out)}: holds the text '{w}' of an entity the display options exclude" for w in forbidden if w in text]
            if name == "hidden_specifics_with_long_docs":
                # the specifics have no page: what the displayed pages say about them is their whole documentation
                for page in ("interface/gen.html", "type/pub_t.html"):
                    text = open(os.path.join(out, page), encoding="utf-8", errors="replace").read() if os.path.exists(os.path.join(out, page)) else ""
                    if "SECONDPARA" not in text:
                        leaks.append(f"{page}: the documentation of the procedure shown there stops after its first paragraph (it has no page of its own to read on)")
            if name == "private_namelist":
                have = sorted(os.listdir(os.path.join(out, "namelist"))) if os.path.isdir(os.path.join(out, "namelist")) else []
                if have != ["procnml.html", "pubnml.html"]:
                    leaks.append(f"namelist pages written: {have}, expected those of the public namelist and of the namelist of the public procedure")
            bad = problems + p2 + leaks
            if bad:
                return {"confirmed": True, "input": {"scenario": name, "files": files, "meta": meta}, "actual": bad[:6],
                        "expected": "every link (also those in popover attributes) leads to a written page; no text of an unselected entity anywhere",
                        "how": f"full FORD run with the default display (public, protected), scenario '{name}': {nl} links on {npages} pages followed"}
    return None

"""Bounded stand-in for C16: project A is documented with `externalize`, project B is built against it (local path, end to end; remote URL in process
with urlopen replaced).  Checked: modules.json lists exactly A's modules and their public entities with URLs that exist in A's output; every link of
B that leaves B's output lands on an existing page / id of A that carries the linked name; B's own entities win name clashes; a missing, corrupt or
mis-shaped description costs only the links."""
from __future__ import annotations
import contextlib, io, json, os, re, shutil, tempfile, urllib.parse
from bounded import realrun, site
from harness import loader

A_FILES = {
    "src/core.f90": ("module liba_core\n  !! core of A\n  implicit none\n  private\n  public :: shape_t, area, gen, pi_ish, make\n  real :: pi_ish = 3.0\n  real :: secret = 1.0\n"
                     "  type :: shape_t\n    !! a shape\n    real :: side\n  contains\n    procedure :: grow\n  end type shape_t\n  type :: hidden_t\n    integer :: h\n  end type hidden_t\n"
                     "  interface gen\n    module procedure area\n  end interface gen\ncontains\n  function area(s) result(a)\n    !! area of a shape\n    type(shape_t), intent(in) :: s\n    real :: a\n"
                     "    a = s%side\n  end function area\n  subroutine grow(self)\n    class(shape_t), intent(inout) :: self\n  end subroutine grow\n  subroutine make(s)\n    type(shape_t), intent(out) :: s\n"
                     "  end subroutine make\n  subroutine internal_only()\n  end subroutine internal_only\nend module liba_core\n"),
    "src/helper.f90": "module helper\n  !! a module of A whose name B uses for a procedure\n  integer :: hv\nend module helper\n",
    # the public face of A re-exports two entities under new names
    "src/api.f90": ("module liba_api\n  !! what A offers\n  use liba_core, only: solve => area, grid_t => shape_t, make\n  implicit none\n  private\n  public :: solve, grid_t\nend module liba_api\n"),
    "src/utils.f90": "module utils\n  !! A's utils\n  implicit none\n  type :: vec_t\n    real :: x\n  end type vec_t\ncontains\n  function norm(v) result(n)\n    type(vec_t) :: v\n    real :: n\n    n = v%x\n  end function norm\nend module utils\n",
}
B_FILES = {
    "src/b.f90": ("module b_mod\n  !! uses [[liba_core]] and [[shape_t]] and [[area]]\n  use liba_core\n  implicit none\n  type, extends(shape_t) :: square_t\n    !! extends the external type\n"
                  "    type(shape_t) :: inner\n  end type square_t\ncontains\n  subroutine work(q)\n    type(square_t) :: q\n    real :: r\n    call make(q%inner)\n    r = area(q%inner)\n    r = gen(q%inner)\n    r = pi_ish\n  end subroutine work\n"
                  "  subroutine local_wins()\n    !! has an internal procedure named like one of A's\n    call make()\n  contains\n    subroutine make()\n      !! the internal one\n    end subroutine make\n"
                  "  end subroutine local_wins\nend module b_mod\n"),
    "src/utils.f90": "module utils\n  !! B's own utils\n  implicit none\n  type :: vec_t\n    real :: y\n  end type vec_t\ncontains\n  function norm(v) result(n)\n    type(vec_t) :: v\n    real :: n\n    n = v%y\n  end function norm\nend module utils\n",
    "src/api_user.f90": "module b_api_user\n  !! uses the re-exported names\n  use liba_api, only: solve, grid_t\n  implicit none\n  type(grid_t) :: g\ncontains\n  subroutine run_it()\n    real :: r\n    r = solve(g)\n  end subroutine run_it\nend module b_api_user\n",
    "src/h.f90": "subroutine helper()\n  !! B's own helper, see [[helper]]\nend subroutine helper\n",
    "src/p.f90": "program main\n  !! see [[utils]] and [[vec_t]] and [[norm]] and [[helper]]\n  use utils\n  use b_mod\n  type(vec_t) :: v\n  type, extends(vec_t) :: vv\n  end type vv\n  print *, norm(v)\nend program main\n",
}
META_A = "src_dir: ./src\noutput_dir: ./doc\ngraph: false\nsearch: false\nexternalize: true\n"
META_B = "src_dir: ./src\noutput_dir: ./doc\ngraph: true\nsearch: false\nexternal: liba = ../A/doc\n"


def json_urls(d, out, path=""):
    if isinstance(d, dict):
        if "external_url" in d and "name" in d:
            out.append((path + "/" + str(d["name"]), d["name"], d["external_url"], d.get("obj")))
        for k, v in d.items():
            json_urls(v, out, path + "/" + str(d.get("name", "")) if isinstance(d.get("name"), str) else path)
    elif isinstance(d, list):
        for x in d:
            json_urls(x, out, path)


def resolves(root, url):
    u = urllib.parse.urlsplit(url)
    t = os.path.normpath(os.path.join(root, urllib.parse.unquote(u.path)))
    if not os.path.isfile(t):
        return f"{url}: no such file in the documentation of A"
    if u.fragment and u.fragment not in site.scan(t).ids:
        return f"{url}: no id {u.fragment!r} in that page"
    return None


def expected_export():
    """names the export must carry, computed from A's real project objects"""
    proj = realrun.build_project(A_FILES, display=["public", "protected"])
    exp = {}
    for m in proj.modules:
        exp[m.name] = {k: sorted(getattr(m, k)) for k in ("pub_procs", "pub_types", "pub_vars", "pub_absints")}
    return exp


def check_export(adoc):
    bad = []
    p = os.path.join(adoc, "modules.json")
    if not os.path.exists(p):
        return ["modules.json was not written"]
    data = json.load(open(p))
    mods = data["modules"] if isinstance(data, dict) else data
    exp = expected_export()
    got = {}
    for m in mods:
        got[m["name"]] = {k: sorted((m.get(k) or {}).keys()) for k in ("pub_procs", "pub_types", "pub_vars", "pub_absints")}
    if got != exp:
        bad.append(f"modules.json lists {got}, A's modules and public entities are {exp}")
    api = {"pub_procs": ["solve"], "pub_types": ["grid_t"], "pub_vars": [], "pub_absints": []}
    if "liba_api" in exp and got.get("liba_api") != api:
        bad.append(f"modules.json lists {got.get('liba_api')} for liba_api; it re-exports `solve` and `grid_t` (the local names its PUBLIC statement lists) and keeps `make` private")
    # the plain entity lists of a module hold nothing that another project cannot access
    for m in mods:
        public = set().union(*[set((m.get(k) or {}).keys()) for k in ("pub_procs", "pub_types", "pub_vars", "pub_absints")])
        for k in ("functions", "subroutines", "interfaces", "absinterfaces", "types", "variables"):
            for x in m.get(k) or []:
                nm = (x.get("name") if isinstance(x, dict) else str(x)).lower()
                if nm not in public:
                    bad.append(f"modules.json exports {k[:-1]} '{nm}' of module {m['name']}, which is not a public entity of that module")
    urls = []
    json_urls(mods, urls)
    for where, name, url, obj in urls:
        if not url:
            continue
        r = resolves(adoc, url)
        if r:
            bad.append(f"exported {obj} {where}: {r}")
        elif obj in ("module", "type", "proc") and "#" not in url and os.path.basename(url).split(".")[0].split("~")[0] != name.lower():
            bad.append(f"exported {obj} {where}: URL {url} is not the page of '{name}'")
    return bad


LINK = re.compile(r"""<a\b[^>]*\bhref=(?:"([^"]+)"|'([^']+)')[^>]*>(.*?)</a>""", re.S)


def check_b_links(bdoc, adoc, must_be_external, must_be_local, no_external_on=()):
    bad, ext_seen, n_ext = [], {}, 0
    bdoc, adoc = os.path.realpath(bdoc), os.path.realpath(adoc)
    for d, _, ff in os.walk(bdoc):
        for f in ff:
            if not f.endswith(".html"):
                continue
            p = os.path.join(d, f)
            text = open(p, encoding="utf-8", errors="replace").read()
            for m in LINK.finditer(text):
                url, label = m.group(1) or m.group(2), re.sub(r"<[^>]+>", "", m.group(3)).strip()
                if site.EXTERNAL.match(url) or url.startswith("#"):
                    continue
                u = urllib.parse.urlsplit(url)
                t = os.path.normpath(os.path.join(os.path.dirname(p), urllib.parse.unquote(u.path)))
                rel = os.path.relpath(p, bdoc)
                if t.startswith(bdoc + os.sep) or t == bdoc:
                    if not os.path.exists(t):
                        bad.append(f"{rel}: link {url!r} ({label}) points to {os.path.relpath(t, bdoc)} in B's own tree, which was not written")
                    continue
                n_ext += 1
                if rel in no_external_on:
                    bad.append(f"{rel}: '{label}' is linked to {url!r} outside B although everything this page refers to is defined by B itself")
                if not t.startswith(adoc + os.sep):
                    bad.append(f"{rel}: link {url!r} ({label}) leaves both documentation trees")
                    continue
                if not os.path.isfile(t):
                    bad.append(f"{rel}: link {url!r} ({label}) points to a page that does not exist in A's documentation")
                    continue
                if u.fragment and u.fragment not in site.scan(t).ids:
                    bad.append(f"{rel}: link {url!r} ({label}): no id {u.fragment!r} in A's page")
                    continue
                ext_seen.setdefault(label.lower(), set()).add(os.path.relpath(t, adoc) + ("#" + u.fragment if u.fragment else ""))
                if label.lower() in must_be_local:
                    bad.append(f"{rel}: '{label}' is defined by B itself but is linked to A's documentation ({os.path.relpath(t, adoc)})")
    for name, target in must_be_external.items():
        if target not in ext_seen.get(name, set()):
            bad.append(f"B never links '{name}' to A's {target} (links into A for that name: {sorted(ext_seen.get(name, []))})")
    return bad, n_ext


def export_with_private_display():
    """A documented with display: private still exports only what is accessible"""
    with site.site(A_FILES, META_A + "display: public\n         private\n         protected\n", proj="A") as (pa, sa):
        if not sa.startswith("ok"):
            return [f"building A failed: {sa}"]
        return check_export(os.path.join(pa, "doc"))


def end_to_end():
    os.makedirs(realrun.TMPROOT, exist_ok=True)
    sb = tempfile.mkdtemp(dir=realrun.TMPROOT)
    try:
        with site.site(A_FILES, META_A, sandbox=sb, proj="A") as (pa, sa):
            if not sa.startswith("ok"):
                return [f"building A failed: {sa}"], 0
            adoc = os.path.join(pa, "doc")
            bad = check_export(adoc)
            with site.site(B_FILES, META_B, sandbox=sb, proj="B") as (pb, sbst):
                if not sbst.startswith("ok"):
                    return bad + [f"building B against A failed: {sbst}"], 0
                b2, n = check_b_links(os.path.join(pb, "doc"), adoc,
                                      {"liba_core": "module/liba_core.html", "shape_t": "type/shape_t.html", "area": "proc/area.html", "make": "proc/make.html"},
                                      {"utils", "vec_t", "norm", "b_mod", "square_t", "work", "helper"}, no_external_on=("proc/local_wins.html",))
                # names that A's module liba_api re-exports under new names reach the entities of A from B
                for page, target in (("module/b_api_user.html", "type/shape_t.html"), ("proc/run_it.html", "proc/area.html")):
                    pp = os.path.join(pb, "doc", page)
                    text = open(pp, encoding="utf-8").read() if os.path.exists(pp) else ""
                    if not re.search(r"href=['\"][^'\"]*A/doc/" + re.escape(target), text):
                        b2.append(f"{page}: no link to A's {target} (the entity B imports from liba_api under its re-exported name)")
                return bad + b2, n
    finally:
        shutil.rmtree(sb, ignore_errors=True)


BROKEN = {
    "modules.json missing": None,
    "not JSON": "<html>404 not found</html>",
    "truncated JSON": '{"ford-metadata": {"version": "7"}, "modules": [{"name": "liba_core", "external_url": "./module/liba',
    "binary garbage": b"\xff\xfe\x00\x01garbage\x80",
    "wrong shape: list of numbers": "[1, 2, 3]",
    "wrong shape: modules without names": '{"ford-metadata": {"version": "7"}, "modules": [{"obj": "module"}]}',
    "wrong shape: scalar": "42",
    "unknown entity kind": '{"ford-metadata": {"version": "7"}, "modules": [{"name": "m", "external_url": "./module/m.html", "obj": "spaceship"}]}',
}


def broken_descriptions():
    bad = []
    for label, content in BROKEN.items():
        files = dict(B_FILES)
        if content is not None:
            files["../A/doc/modules.json"] = content
        else:
            files["../A/doc/readme.txt"] = "no description here"
        with site.site(files, META_B, proj="B") as (pb, st):
            if not st.startswith("ok"):
                bad.append(f"external description '{label}': the run of B failed with {st}")
            elif not os.path.exists(os.path.join(pb, "doc", "module", "b_mod.html")):
                bad.append(f"external description '{label}': B's own pages were not written")
    return bad


def absolute_local_path():
    os.makedirs(realrun.TMPROOT, exist_ok=True)
    sb = tempfile.mkdtemp(dir=realrun.TMPROOT)
    try:
        with site.site(A_FILES, META_A, sandbox=sb, proj="A") as (pa, sa):
            with site.site(B_FILES, META_B.replace("../A/doc", os.path.join(pa, "doc")), sandbox=sb, proj="B") as (pb, st):
                if not st.startswith("ok"):
                    return [f"external project given by an absolute local path: the run of B failed with {st}"]
                bad, n = check_b_links(os.path.join(pb, "doc"), os.path.join(pa, "doc"), {"shape_t": "type/shape_t.html"}, {"utils"})
                return bad
    finally:
        shutil.rmtree(sb, ignore_errors=True)


def remote_rebasing():
    """export A in process, import it through a replaced urlopen for several spellings of the configured URL"""
    ep = loader.import_repo("ford.external_project")
    fp = loader.import_repo("ford.fortran_project")
    projA = realrun.build_project(A_FILES, display=["public", "protected"])
    os.makedirs(realrun.TMPROOT, exist_ok=True)
    d = tempfile.mkdtemp(dir=realrun.TMPROOT)
    bad = []
    try:
        ep.dump_modules(projA, d)
        payload = open(os.path.join(d, "modules.json"), "rb").read()
        expected = {}
        for m in projA.modules:
            expected[("module", m.name)] = m.get_url()
            for t in m.types:
                if t.permission == "public":
                    expected[("type", t.name)] = t.get_url()
            for p in m.routines:
                if p.permission == "public":
                    expected[("proc", p.name)] = p.get_url()
        for base in ("https://example.org/docs/liba", "https://example.org/docs/liba/", "http://host", "https://example.org/a/b/c"):
            fetched = []

            class Resp:
                def read(self):
                    return payload

            def fake_urlopen(u, *a, **k):
                fetched.append(u)
                return Resp()
            projB = realrun.build_project(B_FILES, correlate=False, external={"liba": base})
            old = ep.urlopen
            ep.urlopen = fake_urlopen
            try:
                with contextlib.redirect_stdout(io.StringIO()):
                    ep.load_external_modules(projB)
            finally:
                ep.urlopen = old
            want_base = base if base.endswith("/") else base + "/"
            if fetched != [want_base + "modules.json"]:
                bad.append(f"external URL {base!r}: description fetched from {fetched}, expected {want_base}modules.json")
            got = {}
            for lst, kind in (("extModules", "module"), ("extTypes", "type"), ("extProcedures", "proc")):
                for x in getattr(projB, lst):
                    if getattr(x, "parent", None) is None or kind != "proc" or x.parent.obj == "module":
                        got.setdefault((kind, x.name), x.get_url())
            # what the templates print for an imported entity: str(entity) is an anchor on that URL, for the members of an imported type as well
            for t in projB.extTypes:
                for x in [t] + list(getattr(t, "variables", [])) + list(getattr(t, "boundprocs", [])):
                    try:
                        text = str(x)
                    except Exception as e:
                        bad.append(f"external URL {base!r}: printing the imported {type(x).__name__} '{x.name}' raises {type(e).__name__}: {e}")
                        continue
                    if f"href='{x.get_url()}'" not in text:
                        bad.append(f"external URL {base!r}: the imported {type(x).__name__} '{x.name}' is printed as {text!r}, without a link to {x.get_url()}")
            for key, rel in expected.items():
                if got.get(key) != want_base + rel:
                    bad.append(f"external URL {base!r}: {key[0]} {key[1]} is linked to {got.get(key)!r}, A documents it at {want_base + rel!r}")
    finally:
        shutil.rmtree(d, ignore_errors=True)
    return bad


EXT_A = {"src/a.f90": ("module a_mod\n  !! A\n  implicit none\n  private\n  public :: a_abs, a_iface, a_base, init_plain\n  abstract interface\n    subroutine a_iface(self)\n      !! iface doc\n      import :: a_abs\n"
                       "      class(a_abs), intent(inout) :: self\n    end subroutine a_iface\n  end interface\n  type, abstract :: a_abs\n    !! abstract type\n  contains\n    procedure(a_iface), deferred :: run\n"
                       "  end type a_abs\n  type :: a_base\n    !! base type\n    integer :: n\n  contains\n    procedure :: init\n    procedure :: show\n  end type a_base\ncontains\n"
                       "  subroutine init(self)\n    class(a_base) :: self\n  end subroutine init\n  subroutine show(self)\n    class(a_base) :: self\n  end subroutine show\n  subroutine init_plain(n)\n    integer :: n\n  end subroutine init_plain\nend module a_mod\n")}
EXT_B = {"src/b.f90": ("module b_mod\n  !! B\n  use a_mod\n  implicit none\n  type, abstract :: b_abs\n    !! abstract in B with a deferred binding to A's interface\n  contains\n"
                       "    procedure(a_iface), deferred :: step\n  end type b_abs\n  type, extends(a_base) :: b_child\n    !! extends A's type\n    integer :: extra\n  contains\n    procedure :: more\n    procedure, nopass :: ext_bound => init_plain\n"
                       "  end type b_child\n  interface b_gen\n    !! a generic of B that also names a procedure of A\n    procedure init_plain\n    module procedure more_plain\n  end interface b_gen\n"
                       "contains\n  subroutine more(self)\n    class(b_child) :: self\n  end subroutine more\n  subroutine more_plain(x)\n    real :: x\n  end subroutine more_plain\nend module b_mod\n")}


def external_entities_in_declarations():
    """B declares a deferred binding through an abstract interface of A and extends a type of A that has bindings; built with every `sort` option: the run succeeds and
    every link of B into A exists there"""
    bad, n = [], 0
    os.makedirs(realrun.TMPROOT, exist_ok=True)
    for sort in ("src", "alpha", "permission", "permission-alpha", "type", "type-alpha"):
        sb = tempfile.mkdtemp(dir=realrun.TMPROOT)
        try:
            with site.site(EXT_A, META_A, sandbox=sb, proj="A") as (pa, sa):
                if not sa.startswith("ok"):
                    return [f"building A failed: {sa}"], 0
                with site.site(EXT_B, META_B + f"sort: {sort}\n", sandbox=sb, proj="B") as (pb, sbst):
                    if not sbst.startswith("ok"):
                        bad.append(f"sort: {sort}: building B against A failed: {sbst[:200]}")
                        continue
                    b2, k = check_b_links(os.path.join(pb, "doc"), os.path.join(pa, "doc"), {"a_iface": "interface/a_iface.html", "a_base": "type/a_base.html",
                                                                                                     "init": "type/a_base.html#boundprocedure-init", "show": "type/a_base.html#boundprocedure-show"},
                                          {"b_abs", "b_child", "more"})
                    bad += [f"sort: {sort}: {x}" for x in b2]
                    n += k
        finally:
            shutil.rmtree(sb, ignore_errors=True)
    return bad, n


SAME_A = {"src/shapes.f90": ("module shapes\n  !! first module of A\n  implicit none\n  type :: circle\n    !! a circle\n    integer :: n\n  contains\n    procedure :: area => circle_area\n  end type circle\n"
                             "contains\n  subroutine init()\n    !! init of shapes\n  end subroutine init\n  subroutine circle_area(self)\n    class(circle) :: self\n  end subroutine circle_area\nend module shapes\n"),
          "src/solids.f90": ("module solids\n  !! second module of A\n  implicit none\n  type :: sphere\n    !! a sphere\n    integer :: n\n  contains\n    procedure :: area => sphere_area\n  end type sphere\n"
                             "contains\n  subroutine init()\n    !! init of solids\n  end subroutine init\n  subroutine sphere_area(self)\n    class(sphere) :: self\n  end subroutine sphere_area\nend module solids\n")}
SAME_B = {"src/b.f90": ("module b_mod\n  !! B uses the second module only, see [[sphere:area]] and [[sphere:n]]\n  use solids\n  implicit none\n  type, extends(sphere) :: ball\n    !! extends sphere\n  end type ball\n"
                        "contains\n  subroutine work()\n    !! calls solids' init\n    call init()\n  end subroutine work\nend module b_mod\n")}


def same_names_in_a():
    """A has two modules with a procedure `init`, and two types with a component `n` and a binding `area`; B uses the second module only: its links lead to the second module's
    entities (`proc/init~2.html`, `type/sphere.html#...~2`), never to the namesakes of the first"""
    os.makedirs(realrun.TMPROOT, exist_ok=True)
    sb = tempfile.mkdtemp(dir=realrun.TMPROOT)
    try:
        with site.site(SAME_A, META_A, sandbox=sb, proj="A") as (pa, sa):
            if not sa.startswith("ok"):
                return [f"building A failed: {sa}"]
            adoc = os.path.join(pa, "doc")
            with site.site(SAME_B, META_B, sandbox=sb, proj="B") as (pb, sbst):
                if not sbst.startswith("ok"):
                    return [f"building B against A failed: {sbst[:300]}"]
                bad, n = check_b_links(os.path.join(pb, "doc"), adoc, {"init": "proc/init~2.html", "sphere": "type/sphere.html"}, {"ball", "work", "b_mod"})
                # no link of B may lead to the first module's namesakes
                for d, _, ff in os.walk(os.path.join(pb, "doc")):
                    for f in ff:
                        if f.endswith(".html"):
                            t = open(os.path.join(d, f), encoding="utf-8", errors="replace").read()
                            for wrong in ("proc/init.html", "type/circle.html"):
                                if "A/doc/" + wrong in t or "../A/doc/" + wrong in t:
                                    bad.append(f"{os.path.relpath(os.path.join(d, f), os.path.join(pb, 'doc'))}: links to A's {wrong}, an entity of module shapes that B does not use")
                return bad
    finally:
        shutil.rmtree(sb, ignore_errors=True)


def hide_undoc_in_a():
    """A is documented with hide_undoc: its undocumented public entities have no pages; B must not link to them (it may still name them)"""
    os.makedirs(realrun.TMPROOT, exist_ok=True)
    sb = tempfile.mkdtemp(dir=realrun.TMPROOT)
    try:
        with site.site(A_FILES, META_A + "hide_undoc: true\n", sandbox=sb, proj="A") as (pa, sa):
            if not sa.startswith("ok"):
                return [f"building A failed: {sa}"]
            with site.site(B_FILES, META_B, sandbox=sb, proj="B") as (pb, sbst):
                if not sbst.startswith("ok"):
                    return [f"building B against A failed: {sbst[:300]}"]
                bad, n = check_b_links(os.path.join(pb, "doc"), os.path.join(pa, "doc"), {"liba_core": "module/liba_core.html", "shape_t": "type/shape_t.html", "area": "proc/area.html"}, set())
        # an undocumented type of A (no page there) with a binding, extended and used in B: it costs the links, not the run, and the name is shown as written
        with site.site(UNDOC_A, META_A + "hide_undoc: true\n", sandbox=sb, proj="A2") as (pa, sa):
            if not sa.startswith("ok"):
                return bad + [f"building A2 failed: {sa}"]
            with site.site(UNDOC_B, META_B.replace("../A/doc", "../A2/doc"), sandbox=sb, proj="B2") as (pb, sbst):
                if not sbst.startswith("ok"):
                    return bad + [f"building B2 against A2 (hide_undoc, an undocumented type with a binding that B2 extends) failed: {sbst[:300]}"]
                page = open(os.path.join(pb, "doc", "type", "child.html"), encoding="utf-8").read()
                m = re.search(r'id="type-def-statement">\s*(.*?)</h2>', page, re.S)
                head = re.sub(r"<[^>]+>", "", m.group(1)).strip() if m else None
                if head != "type, public, extends(base_t) :: child":
                    bad.append(f"type/child.html: the heading reads {head!r}, the source says `type, extends(base_t) :: child`")
                b2, n = check_b_links(os.path.join(pb, "doc"), os.path.join(pa, "doc"), {"amod": "module/amod.html"}, set())
                bad += b2
                modpage = open(os.path.join(pb, "doc", "module", "bmod.html"), encoding="utf-8").read()
                if re.search(r"<a [^>]*>\s*base_t\s*</a>", modpage):
                    bad.append("module/bmod.html: the reference [[base_t]] to an entity of A that has no page there is rendered as a link " + re.search(r"<a [^>]*>\s*base_t\s*</a>", modpage).group()[:80])
        # B itself documented with hide_undoc while it extends a type of A that has bindings and components
        with site.site(EXT_A, META_A, sandbox=sb, proj="A3") as (pa, sa):
            if not sa.startswith("ok"):
                return bad + [f"building A3 failed: {sa}"]
            with site.site(EXT_B, META_B.replace("../A/doc", "../A3/doc") + "hide_undoc: true\n", sandbox=sb, proj="B3") as (pb, sbst):
                if not sbst.startswith("ok"):
                    bad.append(f"building B3 with hide_undoc against A3 (B3 extends a type of A3 that has bindings) failed: {sbst[:300]}")
        return bad
    finally:
        shutil.rmtree(sb, ignore_errors=True)


UNDOC_A = {"src/a.f90": "module amod\n  !! A's module\n  implicit none\n  type :: base_t\n    integer :: n\n  contains\n    procedure :: show\n  end type base_t\ncontains\n  subroutine show(self)\n    class(base_t) :: self\n"
                        "  end subroutine show\nend module amod\n"}
UNDOC_B = {"src/b.f90": "module bmod\n  !! B, see [[amod]] and [[base_t]] and [[amod:base_t]]\n  use amod\n  implicit none\n  type, extends(base_t) :: child\n    !! child doc\n  end type child\n  type(base_t) :: v\n    !! v doc\nend module bmod\n"}


def search(parts=("end_to_end", "broken", "absolute", "remote")):
    for part in parts:
        if part == "end_to_end":
            bad, n = end_to_end()
            bad = bad or export_with_private_display()
        elif part == "broken":
            bad = broken_descriptions() or second_project_after_a_broken_one()
        elif part == "absolute":
            bad = absolute_local_path() or relative_external_path_from_elsewhere()
        elif part == "declarations":
            bad, _ = external_entities_in_declarations()
            bad = bad or imported_binding_flags()
        elif part == "same_names":
            bad = same_names_in_a()
        elif part == "hide_undoc":
            bad = hide_undoc_in_a()
        else:
            bad = remote_rebasing()
        if bad:
            return {"confirmed": True, "input": {"scenario": part, "A": EXT_A if part == "declarations" else A_FILES, "B": EXT_B if part == "declarations" else B_FILES}, "actual": bad[:6],
                    "expected": "links into A exist and name the entity; B's own entities win; a bad description costs only the links",
                    "how": "real FORD runs: A with externalize, then B with external: liba = <A's output>"}
    return None


def imported_binding_flags():
    """a binding that a type of B inherits from a type of A is declared in B's pages as it is in A's source: `procedure :: area` is neither generic nor deferred after the
    round trip through modules.json"""
    ext = loader.import_repo("ford.external_project")
    os.makedirs(realrun.TMPROOT, exist_ok=True)
    sb = tempfile.mkdtemp(dir=realrun.TMPROOT)
    try:
        src_a = ("module amod\n  type :: shape_t\n    integer :: n\n  contains\n    procedure :: area\n    procedure(area), deferred :: later\n    generic :: g => area\n  end type shape_t\ncontains\n"
                 "  subroutine area(self)\n    class(shape_t) :: self\n  end subroutine area\nend module amod\n")
        pa = realrun.build_project({"src/a.f90": src_a})
        os.makedirs(os.path.join(sb, "A", "doc"))
        with contextlib.redirect_stdout(io.StringIO()):
            ext.dump_modules(pa, os.path.join(sb, "A", "doc"))
        pb = realrun.build_project({"src/b.f90": "module bmod\n  use amod\n  type, extends(shape_t) :: box_t\n  end type box_t\nend module bmod\n"}, external={"liba": os.path.join(sb, "A", "doc")})
        t = [t for t in pb.types if t.name == "box_t"][0]
        got = {bp.name: (bool(getattr(bp, "generic", None)) if getattr(bp, "generic", None) in (True, False) else repr(getattr(bp, "generic", None)),
                         bool(getattr(bp, "deferred", None)) if getattr(bp, "deferred", None) in (True, False) else repr(getattr(bp, "deferred", None))) for bp in t.boundprocs}
        want = {"area": (False, False), "later": (False, True), "g": (True, False)}
        if got != want:
            return [f"bindings box_t inherits from A's shape_t, (generic, deferred): {got}, in A's source: {want}"]
        decl = {bp.name: bp.full_declaration for bp in t.boundprocs if bp.name == "area"}
        if decl != {"area": "procedure, public"}:
            return [f"declaration shown for the inherited `procedure :: area`: {decl}"]
    except Exception as e:
        return [f"{type(e).__name__}: {e}"]
    finally:
        shutil.rmtree(sb, ignore_errors=True)
    return None


def relative_external_path_from_elsewhere():
    """`external: liba = ../A/doc` is relative to B's project file, wherever FORD is started"""
    import pathlib, io, contextlib
    ext = loader.import_repo("ford.external_project")
    os.makedirs(realrun.TMPROOT, exist_ok=True)
    sb = tempfile.mkdtemp(dir=realrun.TMPROOT)
    cwd = os.getcwd()
    try:
        pa = realrun.build_project({"src/a.f90": "module amod\n  !! doc\n  integer :: av\nend module amod\n"})
        os.makedirs(os.path.join(sb, "A", "doc"))
        os.makedirs(os.path.join(sb, "B"))
        os.makedirs(os.path.join(sb, "else", "where"))
        with contextlib.redirect_stdout(io.StringIO()):
            ext.dump_modules(pa, os.path.join(sb, "A", "doc"))
        pb = realrun.build_project({"src/b.f90": "module bmod\n  use amod\nend module bmod\n"}, correlate=False)
        pb.external = {"liba": "../A/doc"}
        pb.settings.directory = pathlib.Path(sb, "B")
        os.chdir(os.path.join(sb, "else", "where"))
        out = io.StringIO()
        with contextlib.redirect_stdout(out), contextlib.redirect_stderr(out):
            ext.load_external_modules(pb)
        names = sorted(m.name for m in pb.extModules if getattr(m, "name", None) == "amod")
        if names != ["amod"]:
            return [f"B (project file in <sandbox>/B, `external: liba = ../A/doc`), FORD started in <sandbox>/else/where: external modules loaded {names}, expected ['amod']; output: {out.getvalue()[-200:]}"]
    except Exception as e:
        return [f"{type(e).__name__}: {e}"]
    finally:
        os.chdir(cwd)
        shutil.rmtree(sb, ignore_errors=True)
    return None


def second_project_after_a_broken_one():
    """B lists two external projects; the first has no readable description.  That costs the links into the first one: the links into A (listed second) are all there"""
    os.makedirs(realrun.TMPROOT, exist_ok=True)
    sb = tempfile.mkdtemp(dir=realrun.TMPROOT)
    try:
        with site.site(A_FILES, META_A, sandbox=sb, proj="A") as (pa, sa):
            if not sa.startswith("ok"):
                return [f"building A failed: {sa}"]
            meta_b = META_B.replace("external: liba = ../A/doc\n", "external: gone = ../missing/doc\n          liba = ../A/doc\n")
            with site.site(B_FILES, meta_b, sandbox=sb, proj="B") as (pb, sbst):
                if not sbst.startswith("ok"):
                    return [f"building B against a missing project and A failed: {sbst[:300]}"]
                bad, n = check_b_links(os.path.join(pb, "doc"), os.path.join(pa, "doc"),
                                       {"liba_core": "module/liba_core.html", "shape_t": "type/shape_t.html", "area": "proc/area.html", "make": "proc/make.html"}, set(), no_external_on=("proc/local_wins.html",))
                return [f"with an unreadable external project listed before A: {b}" for b in bad]
    finally:
        shutil.rmtree(sb, ignore_errors=True)


def command_line_externalize():
    """`externalize: true` in the project file, `ford proj.md` on a real command line without the flag: modules.json is written"""
    import subprocess, sys
    from harness import loader
    os.makedirs(realrun.TMPROOT, exist_ok=True)
    sb = tempfile.mkdtemp(dir=realrun.TMPROOT)
    try:
        for k, v in A_FILES.items():
            os.makedirs(os.path.dirname(os.path.join(sb, k)), exist_ok=True)
            open(os.path.join(sb, k), "w").write(v)
        open(os.path.join(sb, "proj.md"), "w").write("---\nproject: A\npreprocess: false\n" + META_A + "---\ntext\n")
        r = subprocess.run([sys.executable, "-m", "ford", "proj.md"], cwd=sb, env=dict(os.environ, PYTHONPATH=loader.REPO, PYTHONHASHSEED="0"), capture_output=True, text=True, timeout=600)
        have = os.path.exists(os.path.join(sb, "doc", "modules.json"))
        if r.returncode != 0 or not have:
            return {"confirmed": True, "input": {"project file": "externalize: true", "command": "python -m ford proj.md"}, "actual": {"exit": r.returncode, "doc/modules.json written": have},
                    "expected": {"exit": 0, "doc/modules.json written": True}, "how": "real command-line run in a fresh process"}
    finally:
        shutil.rmtree(sb, ignore_errors=True)
    return None

"""Bounded stand-in for C13 on the real graph builders: generated projects with chains, a diamond, mutual recursion, type extension and composition,
a generic binding with one specific; for several depth / node limits: no dangling edge, inverse graphs are exact inverses, limits respected,
`graph: false` removes the entity."""
from __future__ import annotations
import re, contextlib, io
from bounded import realrun
from harness import loader


def project():
    f = {}
    f["src/chain.f90"] = ("module chain\n  implicit none\ncontains\n" +
                          "".join(f"  subroutine p{i}()\n    call p{i+1}()\n  end subroutine p{i}\n" for i in range(1, 5)) +
                          "  subroutine p5()\n    call p1()\n    call lonely()\n    call shy()\n  contains\n    subroutine shy()\n      !! graph: false\n      call p1()\n    end subroutine shy\n  end subroutine p5\n  subroutine lonely()\n    !! graph: false\n  end subroutine lonely\nend module chain\n")
    f["src/uses.f90"] = ("module base\nend module base\nmodule left\n  use base\nend module left\nmodule right\n  use base\nend module right\n"
                         "module top\n  use left\n  use right\n  use quiet\nend module top\nmodule quiet\n  !! graph: false\n  use base\n  interface\n    module subroutine qs()\n    end subroutine qs\n  end interface\nend module quiet\n"
                         "submodule (quiet) quiet_impl\ncontains\n  module subroutine qs()\n  end subroutine qs\nend submodule quiet_impl\n")
    f["src/types.f90"] = ("module types\n  implicit none\n  type :: t0\n    integer :: a\n  end type t0\n  type, extends(t0) :: t1\n  end type t1\n  type, extends(t1) :: t2\n    type(t0) :: comp\n  end type t2\n"
                          "  type :: alpha\n  contains\n    procedure :: ei\n    generic :: g => ei\n    procedure :: init => init_a\n  end type alpha\n  type :: beta\n  contains\n    procedure :: init => init_b\n  end type beta\ncontains\n  subroutine ei(self)\n    class(alpha) :: self\n    call eight()\n  end subroutine ei\n"
                          "  subroutine eight()\n  end subroutine eight\n  subroutine foo()\n    type(alpha) :: y\n    call y%g()\n  end subroutine foo\n"
                          "  subroutine init_a(self)\n    class(alpha) :: self\n  end subroutine init_a\n  subroutine init_b(self)\n    class(beta) :: self\n  end subroutine init_b\n"
                          "  subroutine two_inits()\n    type(alpha) :: ya\n    type(beta) :: yb\n    call ya%init()\n    call yb%init()\n  end subroutine two_inits\nend module types\n")
    # a parent type with a derived-type component, extended twice: composition belongs to the type that declares the component
    f["src/holders.f90"] = ("module holders\n  use types\n  implicit none\n  type :: holder\n    type(t0) :: kept\n  end type holder\n  type, extends(holder) :: h1\n  end type h1\n"
                            "  type, extends(h1) :: h2\n    integer :: own\n  end type h2\n  type :: poly_holder\n    class(t0), allocatable :: anything\n  end type poly_holder\nend module holders\n")
    # a parameterised derived type: a call through an object declared with type parameters goes to the type's binding
    f["src/pdt.f90"] = ("module pdt\n  implicit none\n  type :: matrix(k, n)\n    integer, kind :: k = 4\n    integer, len :: n\n  contains\n    procedure :: scale => matrix_scale\n  end type matrix\ncontains\n"
                        "  subroutine matrix_scale(self)\n    class(matrix(4,*)) :: self\n  end subroutine matrix_scale\n  subroutine pdt_driver()\n    type(matrix(4,10)) :: m\n    call m%scale()\n  end subroutine pdt_driver\nend module pdt\n")
    # a USE two procedure levels down is still a dependency of the file
    # a call through a name that an inner ASSOCIATE re-defines goes to the inner selector's binding
    f["src/assoc.f90"] = ("module assoc_shapes\n  implicit none\n  type :: circle_t\n  contains\n    procedure :: draw => draw_circle\n  end type circle_t\n  type :: square_t\n  contains\n    procedure :: draw => draw_square\n"
                          "  end type square_t\ncontains\n  subroutine draw_circle(self)\n    class(circle_t) :: self\n  end subroutine draw_circle\n  subroutine draw_square(self)\n    class(square_t) :: self\n"
                          "  end subroutine draw_square\n  subroutine render()\n    type(circle_t) :: c\n    type(square_t) :: s\n    associate (item => c)\n      associate (item => s)\n        call item%draw()\n"
                          "      end associate\n    end associate\n  end subroutine render\nend module assoc_shapes\n")
    # two files with one base name in different directories: the file graphs tell them apart
    f["src/grid/util.f90"] = "module grid_util\n  integer :: gu\nend module grid_util\n"
    f["src/io/util.f90"] = "module io_util\n  use grid_util\nend module io_util\n"
    # separate module procedures, implemented in both spellings: each interface has an edge to its implementation
    f["src/sep.f90"] = ("module sep\n  implicit none\n  interface\n    module subroutine sone()\n    end subroutine sone\n    module subroutine stwo()\n    end subroutine stwo\n  end interface\nend module sep\n"
                        "submodule (sep) sep_impl\ncontains\n  module subroutine sone()\n  end subroutine sone\n  module procedure stwo\n  end procedure stwo\nend submodule sep_impl\n")
    f["src/deep.f90"] = ("module deep\n  implicit none\ncontains\n  subroutine outer()\n  contains\n    subroutine inner()\n      use base\n    end subroutine inner\n  end subroutine outer\nend module deep\n"
                         "program deep_main\ncontains\n  subroutine level1()\n  contains\n    subroutine level2()\n      use deep\n    end subroutine level2\n  end subroutine level1\nend program deep_main\n")
    return f


# the relations the project-wide graphs are documented to show, for project(): (from, to, style)
TYPE_EDGES = {("t1", "t0", "solid"), ("t2", "t1", "solid"), ("t2", "t0", "dashed"), ("h1", "holder", "solid"), ("h2", "h1", "solid"), ("holder", "t0", "dashed"), ("poly_holder", "t0", "dashed")}
FILE_EDGES = {("holders.f90", "types.f90"), ("deep.f90", "uses.f90"), ("deep.f90", "deep.f90"), ("util.f90~2", "util.f90")}
USE_EDGES = {("left", "base"), ("right", "base"), ("top", "left"), ("top", "right"), ("holders", "types"), ("io_util", "grid_util"), ("sep_impl", "sep")}
# (a USE statement inside a contained procedure is an edge of the *file* graph - compilation order - not of the module graph, which shows the USE statements of the
# module's own scope)


def exact_relations(gm):
    bad = []

    def edges_of(g, styled=False):
        out = set()
        for m in re.finditer(r'^\s*"([^"]+)" -> "([^"]+)" \[([^\]]*)\]', g.dot.source, re.M):
            a, b = m.group(1).split("~", 1)[1], m.group(2).split("~", 1)[1]
            st = re.search(r"style=(\w+)", m.group(3))
            out.add((a, b, st.group(1) if st else "")) if styled else out.add((a, b))
        return out
    got = edges_of(gm.typegraph, True)
    if got != TYPE_EDGES:
        bad.append(f"project type graph: unexpected edges {sorted(got - TYPE_EDGES)}, missing edges {sorted(TYPE_EDGES - got)} (solid = extends, dashed = has a component of)")
    got = {(a, b) for a, b in edges_of(gm.filegraph) if a != b}
    want = {(a, b) for a, b in FILE_EDGES if a != b}
    if got != want:
        bad.append(f"project file graph: unexpected edges {sorted(got - want)}, missing edges {sorted(want - got)} (a file depends on the files of the modules used anywhere inside it)")
    # a caller that invokes bindings of the same name on objects of two types calls two procedures
    for e in gm.graph_objs:
        if e.name == "two_inits" and hasattr(e, "callsgraph"):
            got = {b for a, b in edges_of(e.callsgraph) if a == "two_inits"}
            if got != {"init_a", "init_b"}:
                bad.append(f"calls graph of two_inits: edges to {sorted(got)}, expected to init_a (alpha%init) and init_b (beta%init)")
    for e in gm.graph_objs:
        if e.name == "pdt_driver" and hasattr(e, "callsgraph"):
            got = {b for a, b in edges_of(e.callsgraph) if a == "pdt_driver"}
            if got != {"matrix_scale"}:
                bad.append(f"calls graph of pdt_driver: edges to {sorted(got)}, expected to matrix_scale (the binding `scale` of the parameterised type of `m`)")
    for e in gm.graph_objs:
        if e.name == "render" and hasattr(e, "callsgraph"):
            got = {b for a, b in edges_of(e.callsgraph)}
            if "draw_square" not in got or "draw_circle" in got:
                bad.append(f"calls graph of render: procedures reached {sorted(got)}, expected square_t%draw -> draw_square only (the inner ASSOCIATE re-defines `item`)")
        if e.name == "draw_square" and hasattr(e, "calledbygraph"):
            if not edges_of(e.calledbygraph):
                bad.append("called-by graph of draw_square is empty although render calls it through square_t%draw")
    impl = {(a, b) for a, b in edges_of(gm.callgraph) if a in ("sone", "stwo")}
    if impl != {("sone", "sone"), ("stwo", "stwo")}:
        bad.append(f"project call graph: interface-to-implementation edges of the separate module procedures {sorted(impl)}, expected one for `module subroutine sone` and one for `module procedure stwo`")
    got = edges_of(gm.usegraph)
    if got != USE_EDGES:
        bad.append(f"project module graph: unexpected edges {sorted(got - USE_EDGES)}, missing edges {sorted(USE_EDGES - got)}")
    return bad


def parse_dot(src):
    nodes = set(re.findall(r'^\s*"([^"]+)" \[', src, re.M))
    edges = re.findall(r'^\s*"([^"]+)" -> "([^"]+)"', src, re.M)
    return nodes, edges


def build(maxdepth, maxnodes):
    proj = realrun.build_project(project(), display=["public", "private", "protected"], proc_internals=True, graph=True, graph_maxdepth=maxdepth, graph_maxnodes=maxnodes)
    graphs = loader.import_repo("ford.graphs")
    out = io.StringIO()
    with contextlib.redirect_stdout(out), contextlib.redirect_stderr(out):
        gm = graphs.GraphManager("", "..", False, False, save_graphs=False)
        for lst in ("modules", "submodules", "programs", "procedures", "types", "files"):
            for e in getattr(proj, lst):
                gm.register(e)
        gm.graph_all()
    return proj, gm


def check(proj, gm, maxdepth, maxnodes):
    bad = []
    per_entity = {}
    for e in gm.graph_objs:
        for gname in ("usesgraph", "usedbygraph", "inhergraph", "inherbygraph", "callsgraph", "calledbygraph", "afferentgraph", "efferentgraph"):
            g = getattr(e, gname, None)
            if g is None or not hasattr(g, "dot"):
                continue
            nodes, edges = parse_dot(g.dot.source)
            per_entity[(e.name, type(e).__name__, gname)] = (nodes, edges, g)
            for a, b in edges:
                if a not in nodes or b not in nodes:
                    bad.append(f"{gname} of {e.name}: edge {a} -> {b} has an endpoint that is not a node of the graph")
            if len(g.added) > max(maxnodes, 1) and str(g) != "":
                bad.append(f"{gname} of {e.name}: {len(g.added)} nodes drawn although graph_maxnodes = {maxnodes}")
            if len(g.added) > maxnodes and len(g.added) > len(g.root):
                bad.append(f"{gname} of {e.name}: grew to {len(g.added)} nodes, beyond graph_maxnodes = {maxnodes}")
    # the project graphs
    for gname in ("usegraph", "typegraph", "callgraph", "filegraph"):
        g = getattr(gm, gname, None)
        if g is not None and hasattr(g, "dot"):
            nodes, edges = parse_dot(g.dot.source)
            for a, b in edges:
                if a not in nodes or b not in nodes:
                    bad.append(f"project {gname}: dangling edge {a} -> {b}")
    # inverses (first hop): x calls y  <=>  y is called by x
    def first_hop(key_graph, root_id):
        return {(a, b) for (a, b) in key_graph[1] if a == root_id or b == root_id}
    ids = {}
    for (name, cls, gname), (nodes, edges, g) in per_entity.items():
        ids[(name, cls)] = g.root[0].ident
    for (name, cls, gname), (nodes, edges, g) in per_entity.items():
        inv = {"callsgraph": "calledbygraph", "usesgraph": "usedbygraph", "inhergraph": "inherbygraph"}.get(gname)
        if not inv:
            continue
        rid = g.root[0].ident
        for a, b in edges:
            if a != rid:
                continue
            # b's inverse graph must show a -> b, when b has one, is large enough and was not truncated at hop 1
            for (n2, c2, g2), (nodes2, edges2, gg) in per_entity.items():
                if g2 == inv and gg.root[0].ident == b and gg.truncated != 1 and (a, b) not in edges2:
                    bad.append(f"{gname} of {name} has {a} -> {b} but {inv} of {n2} lacks it")
    # depth limit: the calls graph of p1 (chain p1 -> p2 -> ... -> p5 -> p1) and the used-by graph of `base` hold exactly the entities within graph_maxdepth hops
    if maxnodes > 1000 and maxdepth < 5:
        for (name, cls, gname), (nodes, edges, g) in per_entity.items():
            if name == "p1" and gname == "callsgraph":
                want = {f"p{i}" for i in range(1, min(5, 1 + maxdepth) + 1)}
                got = {n.split("~")[-1] for n in nodes}
                if got != want:
                    bad.append(f"calls graph of p1 with graph_maxdepth = {maxdepth}: nodes {sorted(got)}, expected the procedures within {maxdepth} hops {sorted(want)}")
    if any(e.name in ("lonely", "quiet") for e in gm.graph_objs):
        bad.append("entity with `graph: false` was registered for graphs")
    # ... and has no node in the project-wide graphs either, although other entities refer to it
    for gname, hidden in (("callgraph", "lonely"), ("callgraph", "shy"), ("usegraph", "quiet")):
        g = getattr(gm, gname, None)
        if g is not None and hasattr(g, "dot"):
            nodes, edges = parse_dot(g.dot.source)
            hit = [n for n in nodes if n.split("~")[-1] == hidden] + [f"{a} -> {b}" for a, b in edges if hidden in (a.split("~")[-1], b.split("~")[-1])]
            if hit:
                bad.append(f"project {gname}: the entity '{hidden}' carries `graph: false` but appears in the graph: {hit[:3]}")
    return bad


def expected_specifics(gm):
    bad = []
    for e in gm.graph_objs:
        if e.name == "foo" and hasattr(e, "callsgraph"):
            nodes, edges = parse_dot(e.callsgraph.dot.source)
            labels = " ".join(sorted(nodes))
            if not any("g" == n.split("~")[-1] or n.endswith("~g") or "alpha" in n for n in nodes):
                bad.append(f"calls graph of foo does not show the generic binding alpha%g: nodes {sorted(nodes)}")
        if e.name == "p1" and hasattr(e, "callsgraph"):
            nodes, edges = parse_dot(e.callsgraph.dot.source)
    return bad


def search():
    configs = ((10000, 100000000), (2, 100000000), (10000, 3), (1, 2), (3, 4))
    if realrun.thorough():
        configs = tuple((d, n) for d in (1, 2, 3, 4, 10000) for n in (2, 3, 4, 6, 10, 100000000))
    for maxdepth, maxnodes in configs:
        try:
            proj, gm = build(maxdepth, maxnodes)
        except Exception as e:
            return {"confirmed": True, "input": {"graph_maxdepth": maxdepth, "graph_maxnodes": maxnodes}, "actual": f"{type(e).__name__}: {e}", "expected": "graphs", "how": "GraphManager.graph_all"}
        bad = check(proj, gm, maxdepth, maxnodes) + (expected_specifics(gm) + exact_relations(gm) if maxnodes > 100 and maxdepth > 100 else [])
        if bad:
            return {"confirmed": True, "input": {"graph_maxdepth": maxdepth, "graph_maxnodes": maxnodes, "files": sorted(project())}, "actual": bad[:4],
                    "expected": "no dangling edge; inverse graphs are inverses; limits respected; graph: false honoured", "how": "DOT sources of the real graph objects"}
    return None


def count_cases():
    return 5 if not realrun.thorough() else 30

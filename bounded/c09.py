"""Bounded stand-in for C09 (URL builders only): for every entity of generated projects, get_url() is relative, free of '..', and an entity whose URL
names a page of its own is in one of the project lists from which Documentation.__init__ builds pages (read from its AST); anchors point to the
page of a parent that has one."""
from __future__ import annotations
import ast, os, re
from bounded import realrun
from harness import loader


def page_lists():
    """names of the project lists that get pages, read from the AST of Documentation.__init__"""
    fn = loader.find_def("ford.output", "Documentation.__init__")
    names = []
    for n in ast.walk(fn):
        if isinstance(n, (ast.Assign, ast.AnnAssign)) and "entity_list_page_map" in ast.unparse(n.targets[0] if isinstance(n, ast.Assign) else n.target):
            for t in ast.walk(n.value):
                if isinstance(t, ast.Tuple) and len(t.elts) == 2 and isinstance(t.elts[0], ast.Attribute) and ast.unparse(t.elts[0].value) == "project":
                    names.append(t.elts[0].attr)
    for n in ast.walk(fn):
        if isinstance(n, ast.Call) and ast.unparse(n.func).endswith("entity_list_page_map.append"):
            for t in ast.walk(n):
                if isinstance(t, ast.Attribute) and ast.unparse(t.value) == "project":
                    names.append(t.attr)
    return names


PROJECTS = {
    "kitchen sink": {
        "src/m.f90": ("module m\n  !! doc\n  implicit none\n  integer :: a\n  namelist /modnml/ a\n  type :: t\n    integer :: c\n  contains\n    procedure :: b\n    generic :: gb => b\n    final :: fin\n  end type t\n  type, extends(t) :: t2\n  end type t2\n"
                      "  interface gen\n    module procedure s\n  end interface gen\n  abstract interface\n    subroutine ai()\n    end subroutine ai\n  end interface\n  enum, bind(c)\n    enumerator :: red\n  end enum\n"
                      "  common /blk/ a\ncontains\n  subroutine s()\n    integer :: loc\n    namelist /procnml/ loc\n  contains\n    subroutine inner()\n    end subroutine inner\n  end subroutine s\n"
                      "  subroutine b(self)\n    class(t) :: self\n  end subroutine b\n  subroutine fin(self)\n    type(t) :: self\n  end subroutine fin\nend module m\n"),
        "src/p.f90": "program main\n  use m\n  integer :: z\n  namelist /prognml/ z\n  call s()\nend program main\n",
        "src/sm.f90": "module par\n  interface\n    module subroutine w()\n    end subroutine w\n  end interface\nend module par\nsubmodule (par) chi\ncontains\n  module subroutine w()\n  end subroutine w\nend submodule chi\n",
        "src/ext.f90": "subroutine toplevel()\nend subroutine toplevel\nblock data bd\n  integer :: q\n  common /cq/ q\nend block data bd\n",
    },
    "only a program": {"src/p.f90": "program\n  print *, 1\nend program\n"},
}


def check(proj):
    lists = page_lists()
    have_page = set()
    for l in lists:
        for x in getattr(proj, l, []):
            have_page.add(id(x))
    bad = []
    for f in proj.files:
        for e in realrun.walk_entities(f):
            try:
                url = e.get_url()
            except Exception as ex:
                bad.append(f"{type(e).__name__} {getattr(e, 'name', '?')}: get_url raised {type(ex).__name__}: {ex}")
                continue
            if url is None:
                continue
            if url.startswith(("/", "http")) or ".." in url.split("/") or url.count("#") > 1:
                bad.append(f"{type(e).__name__} {e.name}: URL {url!r} is absolute, leaves the tree or has two fragments")
            d = e.get_dir()
            owner = e.parent if getattr(e, "is_interface_procedure", False) else e
            if d is not None and "#" not in url and getattr(e, "visible", True) and id(owner) not in have_page and id(e) not in have_page:
                bad.append(f"{type(e).__name__} '{e.name}' has the page URL {url} but is in none of the project lists that get pages ({', '.join(lists)})")
            if "#" in url:
                page = url.split("#")[0]
                par = e.parent
                while par is not None and par.get_dir() is None:
                    par = par.parent
                if par is None or par.get_url() is None or par.get_url().split("#")[0] != page:
                    bad.append(f"{type(e).__name__} {e.name}: anchor URL {url} does not point into the page of its nearest ancestor with a page")
    return bad


def search():
    for label, files in PROJECTS.items():
        for incl_src in (True, False):
            proj = realrun.build_project(files, display=["public", "private", "protected"], proc_internals=True, incl_src=incl_src)
            bad = check(proj)
            if bad:
                return {"confirmed": True, "input": {"project": label, "files": files, "incl_src": incl_src}, "actual": bad[:4], "expected": "every page URL belongs to an entity that gets a page",
                        "how": "get_url() of every entity after Project.correlate() vs the lists Documentation.__init__ builds pages from"}
    return None


def count_cases():
    return 2 * len(PROJECTS)


# ------------------------------------------------------------------------------------------------ whole-site link walk (real end-to-end runs)
KS = {k: v for k, v in PROJECTS["kitchen sink"].items()}
PAGES = {"pages/index.md": "---\ntitle: Pages\n---\nhello [[m]] and [sub](sub/index.html)\n", "pages/sub/index.md": "---\ntitle: Sub\n---\nsub [up](../index.html) [[s]]\n",
         "pages/sub/leaf.md": "---\ntitle: Leaf\n---\nleaf [[t]] [[t:b]] ![img](|media|/x.png)\n", "media/x.png": "png"}
SHAPES = {
    "only a program": {"src/p.f90": "program main\n  !! doc\n  integer :: z\n  print *, z\nend program main\n"},
    "one file one extra": {"src/p.f90": "program main\n  print *, 1\nend program main\n", "src/c.c": "/*! doc */ int f(void){return 0;}\n"},
    "two programs": {"src/p.f90": "program main\nend program main\n", "src/q.f90": "program other\nend program other\n"},
    "procedures only": {"src/s.f90": "subroutine a()\n call b()\nend subroutine a\nsubroutine b()\nend subroutine b\n"},
    "one blockdata": {"src/s.f90": "block data bd\n !! bd doc, see [[pair_t]]\n type pair_t\n  !! pair doc\n  sequence\n  real :: lo, hi\n end type pair_t\n integer :: q\n type(pair_t) :: lim\n common /cq/ q\n common /limits/ lim\nend block data bd\n"},
    "references to members inherited from a hidden type": {"src/m.f90": "module m\n  !! module doc\n  implicit none\n  private\n  public :: child_t\n  type :: base_t\n    !! base doc\n    integer :: n\n      !! n doc\n"
                                                                       "  contains\n    procedure :: act\n  end type base_t\n  type, extends(base_t) :: child_t\n    !! child doc, see [[child_t:act]] and [[child_t:n]]\n"
                                                                       "  end type child_t\ncontains\n  subroutine act(self)\n    !! act doc\n    class(base_t) :: self\n  end subroutine act\nend module m\n"},
    "two blockdata": {"src/s.f90": "block data bd\n integer :: q\n common /cq/ q\nend block data bd\nblock data be\n integer :: r\n common /cr/ r\nend block data be\n"},
    "module and submodule files": {"src/a.f90": "module par\n interface\n  module subroutine w()\n  end subroutine w\n end interface\nend module par\n",
                                   "src/b.f90": "submodule (par) chi\ncontains\n module subroutine w()\n end subroutine w\nend submodule chi\n"},
    "hidden parent type": {"src/t.f90": "module tm\n type, private :: hid\n end type hid\n type, extends(hid), public :: shown\n end type shown\n type(shown) :: v\ncontains\n"
                                        " subroutine pub()\n  call priv()\n end subroutine pub\n subroutine priv()\n end subroutine priv\nend module tm\n"},
    "capitalised file names": {"src/Shapes.f90": "module shapes\n  !! doc, see [[Shapes.f90]]\n  integer :: n\ncontains\n  subroutine draw()\n    !! draw doc\n  end subroutine draw\nend module shapes\n",
                               "src/Main.f90": "program main\n  !! main doc\n  use shapes\n  call draw()\nend program main\n"},
    "custom icon": {"src/m.f90": "module m\n  !! doc\n  integer :: n\nend module m\n", "src/p.f90": "program main\n  use m\nend program main\n", "assets/logo-16.png": "png"},
    "interface function returning a type": {"src/v.f90": "module vecs\n  !! doc\n  implicit none\n  type :: vec\n    !! vec doc\n    real :: x\n  end type vec\n  interface\n    function extv(a) result(r)\n      !! extv doc\n"
                                                        "      import :: vec\n      real, intent(in) :: a\n      type(vec) :: r\n    end function extv\n  end interface\nend module vecs\n"},
    "kitchen sink": KS,
    "constructors local types and file links": {
        "src/tool.c": "/*! a C helper, see [[geo]] */ int tool(void){return 0;}\n",
        "src/geo.f90": ("module geo\n  !! module doc, see [[geo.f90(file)]] and [[tool.c]] and [[helper]]\n  implicit none\n  private\n  public :: circle, helper, host, disc\n  type :: circle\n    !! circle doc\n    real :: r\n  end type circle\n"
                        "  interface circle\n    !! constructor doc\n    module procedure new_circle\n  end interface circle\n"
                        "  type :: base_t\n    !! hidden base\n    integer :: n\n  contains\n    procedure :: show\n  end type base_t\n  type, extends(base_t) :: disc\n    !! disc doc\n  end type disc\n"
                        "  interface\n    module function twice(n) result(r)\n      !! interface doc\n      integer, intent(in) :: n\n      integer :: r\n    end function twice\n  end interface\n  public :: twice\n"
                        "contains\n  function new_circle(r) result(c)\n    !! new doc\n    real, intent(in) :: r\n    type(circle) :: c\n    c%r = r\n  end function new_circle\n"
                        "  subroutine show(self)\n    !! show doc\n    class(base_t) :: self\n  end subroutine show\n"
                        "  subroutine host()\n    !! host doc\n    type :: loc\n      !! summary: a short text of its own\n      !!\n      !! local type doc, see [[geo]] and [[helper]]\n      integer :: i\n    end type loc\n    type :: loc2\n      !! second local type, see [[geo]] and [[helper]]\n      integer :: j\n        !! component doc, see [[circle]]\n    end type loc2\n    type(loc) :: x\n  end subroutine host\n"
                        "  subroutine helper()\n    !! helper doc\n  end subroutine helper\nend module geo\n"
                        "submodule (geo) geo_impl\ncontains\n  module procedure twice\n    !! implementation doc\n    r = 2 * n\n  end procedure twice\nend submodule geo_impl\n"),
    },
}
OPTIONS = [
    "graph: false\nsearch: false\n",
    "graph: true\nsearch: true\nincl_src: false\n",
    "graph: true\nsearch: false\nproc_internals: true\ndisplay: public\n         private\n         protected\npage_dir: ./pages\nmedia_dir: ./media\n",
    "graph: false\nsearch: true\nsort: type-alpha\nincl_src: true\n",
]


def site_problems(files, options):
    import os
    from bounded import site
    f = dict(files)
    if "page_dir" in options:
        f.update(PAGES)
    if "assets/logo-16.png" in f:
        options = options + "favicon: ./assets/logo-16.png\n"
    meta = ("src_dir: ./src\noutput_dir: ./doc\nextra_filetypes: c //!\nsummary: A summary that links to [[m]] and [[main]] and [home](|url|/index.html) and <a href=\"|url|/index.html\" class=\"x\">in raw HTML</a> and <a href='|url|/index.html' class='y'>with single quotes</a>\n"
            "author: Somebody\nauthor_description: Wrote [[m]], see [the lists](|url|/index.html)\n")
    with site.site(f, meta + options) as (pd, status):
        if not status.startswith("ok"):
            return [f"the run failed: {status}"], 0
        out = os.path.join(pd, "doc")
        pr, n, npages = site.walk_links(out)
        sp, ns = site.search_index_links(out)
        # a relocatable site does not mention where it was built (generated pages only: the copied sources and the search index of their text aside)
        leak = []
        for d, _, ff in os.walk(out):
            for name in ff:
                if name.endswith(".html"):
                    if os.path.realpath(pd) in open(os.path.join(d, name), encoding="utf-8", errors="replace").read():
                        leak.append(f"{os.path.relpath(os.path.join(d, name), out)}: the page text holds the absolute path of the build directory")
        return sorted(set(pr + sp + leak)), n + ns


def dotdot_output():
    """the project file lives in docs/ and names its directories through '..' (src_dir: ../src, output_dir: ../site): the site must be as relocatable as any other"""
    import os
    from bounded import site
    files = dict(KS)
    meta = "src_dir: ../src\noutput_dir: ../site\ngraph: false\nsearch: true\n"
    with site.site(files, meta, name="docs/proj.md") as (pd, status):
        if not status.startswith("ok"):
            return {"confirmed": True, "input": {"files": files, "project_file": "docs/proj.md", "options": meta}, "actual": status[:400], "expected": "FORD runs", "how": "full run"}
        out = os.path.join(pd, "site")
        pr, n, npages = site.walk_links(out)
        sp, ns = site.search_index_links(out)
        bad = sorted(set(pr + sp))
        if bad or not npages:
            return {"confirmed": True, "input": {"files": files, "project_file": "docs/proj.md", "options": meta}, "actual": bad[:5] or "no page written", "links_checked": n,
                    "expected": "every internal link is relative and leads to a written file",
                    "how": "real end-to-end run with the project file in docs/ and output_dir: ../site; every HTML page parsed"}
    return None


def site_search(shape_names=None, options=None):
    for name, files in SHAPES.items():
        if shape_names is not None and name not in shape_names:
            continue
        for o in (options or OPTIONS):
            bad, n = site_problems(files, o)
            if bad:
                return {"confirmed": True, "input": {"project": name, "files": files, "options": o}, "actual": bad[:5], "links_checked": n,
                        "expected": "every internal href / src / xlink:href is relative, stays inside the output directory, names a file that was written, and its fragment is an id in that file",
                        "how": "real end-to-end run (load_settings, parse_arguments, main) in a sandbox; every HTML page parsed; search index urls checked"}
    return None


def project_for(shape):
    """a project with (about) the list lengths of a counter-model of a navigation-link obligation; None when the shape is not realisable"""
    g = lambda k, d=0: int(shape.get(k, d))
    nfiles = max(1, g("files", 1))
    units = []
    host_decl, host_body = [], []
    for i in range(g("types")):
        host_decl.append(f" type :: ty{i}\n  integer :: c\n end type ty{i}\n")
    for i in range(g("absinterfaces")):
        host_decl.append(f" abstract interface\n  subroutine ai{i}()\n  end subroutine ai{i}\n end interface\n")
    nml = [f" integer :: nv{i}\n namelist /nl{i}/ nv{i}\n" for i in range(g("namelists"))]
    nmod, nprog, nproc = g("modules"), g("programs"), g("procedures")
    if (host_decl or nml) and not (nmod or nprog or nproc):
        return None
    if g("submodules") and not nmod:
        return None
    for i in range(nmod):
        decl = "".join(host_decl) if i == 0 else ""
        iface = "".join(f" interface\n  module subroutine w{j}()\n  end subroutine w{j}\n end interface\n" for j in range(g("submodules"))) if i == 0 else ""
        units.append(f"module mod{i}\n{decl}{iface}end module mod{i}\n")
    for j in range(g("submodules")):
        units.append(f"submodule (mod0) sub{j}\ncontains\n module subroutine w{j}()\n end subroutine w{j}\nend submodule sub{j}\n")
    for i in range(nprog):
        decl = ("".join(host_decl) if not nmod and i == 0 else "") + ("".join(nml) if i == 0 else "")
        units.append(f"program prog{i}\n{decl}end program prog{i}\n")
    for i in range(nproc):
        decl = ("".join(host_decl) if not nmod and not nprog and i == 0 else "") + ("".join(nml) if not nprog and i == 0 else "")
        units.append(f"subroutine proc{i}()\n{decl}end subroutine proc{i}\n")
    if nml and not (nprog or nproc):
        units[0] = units[0].replace("end module mod0", "".join(nml) + "end module mod0")
    for i in range(g("blockdata")):
        units.append(f"block data bd{i}\n integer :: q{i}\n common /cq{i}/ q{i}\nend block data bd{i}\n")
    files = {f"src/f{i}.f90": "! file\n" for i in range(nfiles)}
    for k, u in enumerate(units):
        files[f"src/f{k % nfiles}.f90"] += u
    for i in range(g("extra_files")):
        files[f"src/x{i}.c"] = "/*! doc */ int f(void){return 0;}\n"
    return files


def static_pages_in_search_index():
    """every static page that is written is in the search index under the address it is written at"""
    from bounded import site
    files = {"src/m.f90": "module m\n  !! module doc\nend module m\n", "pages/index.md": "---\ntitle: Guide\n---\n\nguidetext\n", "pages/install.md": "---\ntitle: Install\n---\n\ninstalltext\n",
             "pages/advanced/index.md": "---\ntitle: Advanced\n---\n\nadvancedtext\n"}
    with site.site(files, "src_dir: ./src\noutput_dir: ./doc\npage_dir: ./pages\nsearch: true\n") as (pd, status):
        out = os.path.join(pd, "doc")
        if not status.startswith("ok"):
            return {"confirmed": True, "input": {"files": files}, "actual": status[:300], "expected": "FORD runs", "how": "full FORD run"}
        problems, n = site.search_index_links(out)
        text = ""
        for name in ("search/search_database.json", "tipuesearch/tipuesearch_content.js"):
            if os.path.exists(os.path.join(out, name)):
                text += open(os.path.join(out, name), encoding="utf-8", errors="replace").read()
        urls = set(re.findall(r'"(?:url|loc)"\s*:\s*"([^"]*)"', text))
        written = sorted(os.path.relpath(os.path.join(d, f), out).replace(os.sep, "/") for d, _, ff in os.walk(os.path.join(out, "page")) for f in ff if f.endswith(".html"))
        missing = [w for w in written if w not in urls]
        if text and (problems or missing):
            return {"confirmed": True, "input": {"files": files, "options": "page_dir, search: true"}, "actual": {"dangling": problems[:4], "static pages not in the index under their address": missing, "indexed": sorted(urls)[:12]},
                    "expected": "page/index.html, page/install.html, page/advanced/index.html indexed; every indexed address exists", "how": "full FORD run; url fields of the search database against the files written"}
    return None


def replay_shape(shape, page):
    files = project_for(shape)
    opts = "graph: false\nsearch: false\nincl_src: %s\n" % ("true" if shape.get("incl_src", True) else "false")
    if files is not None:
        bad, n = site_problems(files, opts)
        bad = [b for b in bad if page in b] or bad
        if bad:
            return {"confirmed": True, "input": {"files": files, "options": opts}, "actual": bad[:4], "expected": f"lists/{page} exists whenever a page links to it",
                    "how": "project generated from the counter-model's list lengths, real end-to-end run, every link followed"}
    hit = site_search(options=OPTIONS[:1] + OPTIONS[3:])
    return hit or {"confirmed": False, "note": "no generated project reproduced the counter-model"}


def count_site_cases():
    return len(SHAPES) * len(OPTIONS)

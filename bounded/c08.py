"""Bounded stand-in for C08 on the real pipeline: executable parts built from a statement grammar over user functions, a user subroutine,
arrays and intrinsics with known call sets; recorded calls after correlate() must be exactly the user procedures invoked."""
from __future__ import annotations
import itertools
from bounded import realrun

# (statement text, set of user procedures it invokes)
STMTS = [
    ("x = f(y)", {"f"}),
    ("x = f(g(y)) + a(i)", {"f", "g"}),
    ("x = a(i) + b(i, j)", set()),
    ("x = sin(y) + size(a)", set()),
    ("x = sin(f(y))", {"f"}),
    ("call s(x)", {"s"}),
    ("call s(f(x))", {"s", "f"}),
    ("call s", {"s"}),
    ("CALL S ( F ( X ) )", {"s", "f"}),
    ("if (p(x)) call s(y)", {"p", "s"}),
    ("if (p(x)) x = g(y)", {"p", "g"}),
    ("if (p(x)) then\n    x = 1\n    end if", {"p"}),
    ("do while (p(x))\n    x = g(x)\n    end do", {"p", "g"}),
    ("select case (h(i))\n    case (1)\n    x = 1\n    end select", {"h"}),
    ("where (a > 0) a = g(y)", {"g"}),
    ("associate (z => f(y))\n    x = z\n    end associate", {"f"}),
    ("write(*,*) f(y), a(i)", {"f"}),
    ("print *, 'f(x) call s(y)', g(y)", {"g"}),
    ("x = len('g(y)') + i", set()),
    ("allocate(c(n))", set()),
    ("100 format(3(i5))", set()),
    ("200 format (i5, f(8.3))", set()),
    ("go to (100, 200) i", set()),
    ("entry second(y)\n    x = g(y)", {"g"}),
    ("ENTRY third (y) result(r)\n    x = 1", set()),
    ("x = f(y); call s(g(x))", {"f", "s", "g"}),
    ("x = f( &\n      g(y))", {"f", "g"}),
    ("call s(x) ! call p(x)", {"s"}),
    ("if (.not. p(x)) goto 100\n100 continue", {"p"}),
    ("IF (h(i) /= 0) GO TO 200\n200 continue", {"h"}),
    ("call app%log%reset()", {"logger%reset"}),
    ("call app%log%emit(f(x))", {"logger%emit", "f"}),
    ("if (p(x)) call app%log%reset()", {"p", "logger%reset"}),
    ("x = app%log%level(i)", {"logger%level"}),
    ("call app%reset()", {"application%reset"}),
    ("associate (obj => app)\n    associate (obj => app%log)\n    call obj%reset()\n    end associate\n    end associate", {"logger%reset"}),
    ("associate (obj => app%log)\n    associate (obj => app)\n    call obj%reset()\n    end associate\n    call obj%reset()\n    end associate", {"application%reset", "logger%reset"}),
    ("block\n    integer :: w(3)\n    w(1) = i\n    i = w(2) + int(f(y))\n    end block", {"f"}),
    ("block\n    type :: lt\n    integer :: c(2)\n    end type lt\n    x = g(y)\n    end block", {"g"}),
    ("sync images (n)", set()),
    ("selectcase (h(i))\n    case (1)\n    x = 1\n    end select", {"h"}),
    ("call app%log%write(f(x))", {"logger%write", "f"}),
    ("n = app%log%size()", {"logger%size"}),
    ("print *, \"don't\"; call s(x)", {"s"}),
    ("print *, \"don't panic\"; y = len('usage: run; call p(x)')", set()),
    ("print *, 'a 3\" pipe'; x = f(y)", {"f"}),
    ("print *, 'a long literal comes first' // 'call s(f(1))'", set()),
    ("print *, \"value of the function\", ' f(2) ', x", set()),
    ("10  call s\n20  if (p(x)) call s(y)", {"s", "p"}),
    ("dd(1) = y\n    x = dd(2) + ee(1, 2)", set()),
    ("x = float(i) + amax1(x, y) + sngl(dble(y)) + alog10(x)", set()),
    ("x = extf(y)", {"extf"}),
    ("x = extg(y) + extf(x)", {"extf", "extg"}),
    ("call &\n      &s(x)", {"s"}),
    ("if (p(x)) call   &\n      &s", {"p", "s"}),
    ("x = &\n      &f(y)", {"f"}),
    ("associate (app => app%me())\n    x = 1\n    end associate", {"application%me"}),
    ("associate (u => app%me(), app => f(y))\n    x = 1\n    end associate", {"application%me", "f"}),
    ("x = carr(1) + darr(2)", set()),
]
USER = {"f", "g", "h", "p", "s", "reset", "emit", "level", "extf", "extg"}


def program(stmts):
    body = "\n".join("    " + s for s in stmts)
    funcs = ""
    for n in ("f", "g"):
        funcs += f"  function {n}(v) result(r)\n    real :: v, r\n    r = v\n  end function {n}\n"
    funcs += "  function h(v) result(r)\n    integer :: v, r\n    r = v\n  end function h\n"
    funcs += "  function p(v) result(r)\n    real :: v\n    logical :: r\n    r = .true.\n  end function p\n"
    funcs += "  subroutine s(v)\n    real, optional :: v\n  end subroutine s\n"
    types = ("  type :: logger\n  contains\n    procedure :: reset\n    procedure :: emit\n    procedure :: level\n    procedure :: write => log_write\n    procedure :: size => log_size\n  end type logger\n"
             "  type :: application\n    type(logger) :: log\n  contains\n    procedure :: reset => app_reset\n    procedure :: me => app_me\n  end type application\n")
    funcs += "  subroutine log_write(self, v)\n    class(logger) :: self\n    real :: v\n  end subroutine log_write\n"
    funcs += "  function log_size(self) result(r)\n    class(logger) :: self\n    integer :: r\n    r = 0\n  end function log_size\n"
    funcs += "  subroutine app_reset(self)\n    class(application) :: self\n  end subroutine app_reset\n"
    funcs += "  function app_me(self) result(r)\n    class(application) :: self\n    type(application) :: r\n  end function app_me\n"
    funcs += "  subroutine reset(self)\n    class(logger) :: self\n  end subroutine reset\n"
    funcs += "  subroutine emit(self, v)\n    class(logger) :: self\n    real :: v\n  end subroutine emit\n"
    funcs += "  function level(self, k) result(r)\n    class(logger) :: self\n    integer :: k\n    real :: r\n    r = 0.0\n  end function level\n"
    return ("module m\n  implicit none\n" + types + "contains\n" + funcs +
            "  subroutine driver()\n    real :: x, y, a(10), b(3,3)\n    real, allocatable :: c(:)\n    integer :: i, j, n\n    type(application) :: app\n"
            "    REAL, EXTERNAL :: extf\n    real, external :: extg\n    dimension dd(5), ee(2, 3)\n    dimension darr (5)\n    common /cblk/ carr(10)\n" + body +
            "\n  end subroutine driver\nend module m\n"
            "function extf(v) result(r)\n  real :: v, r\n  r = v\nend function extf\nfunction extg(v) result(r)\n  real :: v, r\n  r = v\nend function extg\n")


def cases():
    for s in STMTS:
        yield [s]
    for a, b in itertools.combinations(range(len(STMTS)), 2):
        # quick tier: a fixed eleventh of the pairs; thorough tier: every pair of statements
        if realrun.thorough() or (a * 7 + b * 3) % 11 == 0:
            yield [STMTS[a], STMTS[b]]


def keyword_named_variables_case():
    """a variable may be named like an attribute keyword (`value`, `target`, `save`, `data`, ...): an assignment to it is an executable statement, its function references are calls;
    and a module is found by a USE statement in any letter case (its arrays are then variables, its procedures resolved calls)"""
    files = {"src/tables.f90": ("module Tables\n  implicit none\n  real :: weights(10)\ncontains\n  real function interp(x)\n    real :: x\n    interp = x\n  end function interp\nend module Tables\n"),
             "src/drv.f90": ("module drv\n  implicit none\ncontains\n  subroutine driver(x)\n    USE TABLES\n    real :: x, value, target, save, data\n    value = scale_it(x)\n    target = offset_it(value) + weights(2)\n"
                             "    save = interp(x)\n    data = value\n    call report(data)\n  end subroutine driver\n  real function scale_it(x)\n    real :: x\n    scale_it = x\n  end function scale_it\n"
                             "  real function offset_it(x)\n    real :: x\n    offset_it = x\n  end function offset_it\n  subroutine report(x)\n    real :: x\n  end subroutine report\nend module drv\n")}
    try:
        proj = realrun.build_project(files)
        d = next(p for m in proj.modules for p in m.subroutines if p.name == "driver")
        got = sorted((c if isinstance(c, str) else c.name, "unresolved" if isinstance(c, str) else "resolved") for c in d.calls)
    except Exception as e:
        got = f"{type(e).__name__}: {e}"
    want = [("interp", "resolved"), ("offset_it", "resolved"), ("report", "resolved"), ("scale_it", "resolved")]
    if got != want:
        return {"confirmed": True, "input": {"files": files}, "actual": got, "expected": want, "how": "real Project + correlate: calls of a procedure whose variables are named like attribute keywords and whose USE statement is in upper case"}
    return None


def io_statements_case():
    """input/output and other keyword statements written with parentheses (`rewind(u)`, `backspace(unit=u)`, `flush(u)`, ...) are statements, not references to procedures"""
    stmts = ["open(unit=u, file='f')", "rewind(u)", "rewind(unit=u, iostat=ios)", "backspace(u)", "endfile(u)", "flush(u)", "inquire(unit=u, opened=ok)", "wait(u)", "close(u)",
             "read(u, *) x", "write(u, *) x", "allocate(buf(3))", "deallocate(buf)", "nullify(p)"]
    src = ("program main\n  implicit none\n  integer :: u, ios\n  logical :: ok\n  real :: x\n  real, allocatable :: buf(:)\n  real, pointer :: p\n  " + "\n  ".join(stmts) + "\n  call work(x)\ncontains\n"
           "  subroutine work(y)\n    real :: y\n    rewind(u)\n  end subroutine work\nend program main\n")
    try:
        proj = realrun.build_project({"src/main.f90": src}, proc_internals=True)
        p = proj.programs[0]
        got = {"main": sorted(c if isinstance(c, str) else c.name for c in p.calls), "work": sorted(c if isinstance(c, str) else c.name for c in p.subroutines[0].calls)}
    except Exception as e:
        got = f"{type(e).__name__}: {e}"
    want = {"main": ["work"], "work": []}
    if got != want:
        return {"confirmed": True, "input": {"source": src}, "actual": got, "expected": want, "how": "real Project + correlate: calls of a program that consists of keyword statements written with parentheses"}
    return None


def search():
    hit = extra_vartypes_case() or keyword_named_variables_case() or io_statements_case()
    if hit:
        return hit
    for group in cases():
        text = program([s for s, _ in group])
        exp = set().union(*[e for _, e in group])
        try:
            proj = realrun.build_project({"src/m.f90": text}, display=["public", "private", "protected"], proc_internals=True)
        except Exception as e:
            return {"confirmed": True, "input": {"source": text}, "actual": f"{type(e).__name__}: {e}", "expected": sorted(exp), "how": "real pipeline"}
        drv = [p for p in proj.modules[0].subroutines if p.name == "driver"][0]
        def label(c):
            if isinstance(c, str):
                return c.lower()
            if type(c).__name__ == "FortranBoundProcedure":
                return f"{c.parent.name}%{c.name}".lower()
            return c.name.lower()
        act = [label(c) for c in drv.calls]
        if sorted(act) != sorted(exp):
            return {"confirmed": True, "input": {"source": text, "statements": [s for s, _ in group]}, "actual": sorted(act), "expected": sorted(exp),
                    "how": "driver.calls after Project.correlate() vs the user procedures invoked by construction (each once)"}
    return None


def extra_vartypes_case():
    """declarations that use a type keyword of the `extra_vartypes` option (first or later in the list) are declarations, not references: their parenthesised bounds are not calls"""
    src = ("module m\ncontains\n  subroutine assemble()\n    Vec :: work(10)\n    Mat :: amat(3, 3)\n    integer :: k(2)\n    call fill(work)\n  end subroutine assemble\n  subroutine fill(w)\n    Vec :: w(10)\n  end subroutine fill\nend module m\n")
    try:
        proj = realrun.build_project({"src/m.f90": src}, display=["public", "private", "protected"], proc_internals=True, extra_vartypes=["Vec", "Mat"])
        sub = [p for p in proj.modules[0].subroutines if p.name == "assemble"][0]
        got = {"calls": sorted(c if isinstance(c, str) else c.name for c in sub.calls), "variables": sorted(v.name for v in sub.variables)}
    except Exception as e:
        got = f"{type(e).__name__}: {e}"
    want = {"calls": ["fill"], "variables": ["amat", "k", "work"]}
    if got != want:
        return {"confirmed": True, "input": {"source": src, "settings": {"extra_vartypes": ["Vec", "Mat"]}}, "actual": got, "expected": want, "how": "real pipeline with extra_vartypes: calls and variables of a procedure"}
    return None


def count_cases():
    return sum(1 for _ in cases())

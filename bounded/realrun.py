"""Run the real FORD front end (reader -> parser -> correlate -> prune) on small generated projects.
Used by replay and by the bounded searches that look for a concrete failing input of a refuted obligation."""
from __future__ import annotations
import os, shutil, tempfile, contextlib, io
from harness import loader

TMPROOT = os.path.join(os.path.dirname(os.path.dirname(os.path.abspath(__file__))), "out", "tmp")


@contextlib.contextmanager
def project_dir(files: dict):
    os.makedirs(TMPROOT, exist_ok=True)
    d = tempfile.mkdtemp(dir=TMPROOT)
    try:
        for rel, text in files.items():
            p = os.path.join(d, rel)
            os.makedirs(os.path.dirname(p), exist_ok=True)
            with open(p, "w") as f:
                f.write(text)
        yield d
    finally:
        shutil.rmtree(d, ignore_errors=True)


def reset_names():
    sf = loader.import_repo("ford.sourceform")
    sf.namelist = sf.NameSelector()


def build_project(files: dict, correlate=True, quiet=True, **settings_kw):
    """returns (project, dir is gone afterwards). files: {relative path: text}"""
    fp = loader.import_repo("ford.fortran_project")
    st = loader.import_repo("ford.settings")
    reset_names()
    with project_dir(files) as d:
        import pathlib
        kw = dict(src_dir=[pathlib.Path(d) / "src"], preprocess=False, quiet=True, warn=False, dbg=False)
        kw.update(settings_kw)
        settings = st.ProjectSettings(**kw)
        out = io.StringIO()
        cwd = os.getcwd()
        os.chdir(d)
        try:
            with contextlib.redirect_stdout(out), contextlib.redirect_stderr(out):
                proj = fp.Project(settings)
                if correlate:
                    proj.correlate()
        finally:
            os.chdir(cwd)
        return proj


def parse_source(text: str, name="t.f90", **settings_kw):
    sf = loader.import_repo("ford.sourceform")
    st = loader.import_repo("ford.settings")
    reset_names()
    with project_dir({name: text}) as d:
        settings = st.ProjectSettings(preprocess=False, quiet=True, warn=False, **settings_kw)
        out = io.StringIO()
        with contextlib.redirect_stdout(out), contextlib.redirect_stderr(out):
            return sf.FortranSourceFile(os.path.join(d, name), settings)


def walk_entities(root):
    """every entity reachable through the real `children` iterator (plus files' units)"""
    seen, todo = set(), [root]
    while todo:
        x = todo.pop()
        if id(x) in seen or isinstance(x, str):
            continue
        seen.add(id(x))
        yield x
        try:
            todo.extend(list(x.children))
        except Exception:
            pass


def thorough() -> bool:
    """is the check running in the thorough tier? (set by the property's build(); Bd tasks run in forked children that inherit it)"""
    try:
        from contracts import common
        return common._TIER[0] == "thorough"
    except Exception:
        return False

"""Refutation search / bounded stand-in for C07 on the real pipeline: generated modules in which names are reused across
scopes; expected resolution follows Fortran scoping by construction of the program."""
from __future__ import annotations
import itertools
from bounded import realrun


def _mod(body_procs, spec=""):
    return f"module m\n  implicit none\n{spec}contains\n{body_procs}end module m\n"


F1_TYPE = "  function f1() result(r)\n    type :: tl\n      integer :: c\n    end type tl\n    integer :: r\n    r = 1\n  end function f1\n"
S2_TYPE = "  subroutine s2()\n    type(tl) :: x\n  end subroutine s2\n"
F1_VAR = "  function f1() result(r)\n    integer :: loc\n    integer :: r\n    r = 1\n  end function f1\n"
S2_NML = "  subroutine s2()\n    namelist /n/ loc\n  end subroutine s2\n"
F1_ABS = "  function f1() result(r)\n    abstract interface\n      subroutine ai()\n      end subroutine ai\n    end interface\n    integer :: r\n    r = 1\n  end function f1\n"
S2_PP = "  subroutine s2()\n    procedure(ai), pointer :: pp\n  end subroutine s2\n"


EXT_CHAIN = """module shapes
  implicit none
  type :: a
    integer :: ia
  contains
    procedure :: run => run_a
  end type a
  type, extends(b) :: c
    integer :: ic
  contains
    generic :: go => run
  end type c
  type, extends(a) :: b
    integer :: ib
  end type b
contains
  subroutine run_a(self)
    class(a) :: self
  end subroutine run_a
  subroutine run()
  end subroutine run
  subroutine user()
    type(c) :: x
    call x%run()
  end subroutine user
end module shapes
"""
NESTED_SUBMODULE = """module kernel
  implicit none
  type :: token_t
    integer :: k
  end type token_t
  interface
    module subroutine top()
    end subroutine top
  end interface
end module kernel
submodule (kernel) mid
  implicit none
  type :: helper_t
    integer :: h
  end type helper_t
  abstract interface
    subroutine cb_i()
    end subroutine cb_i
  end interface
  interface
    module subroutine work(x)
      type(helper_t) :: x
    end subroutine work
  end interface
contains
  module subroutine top()
  end subroutine top
end submodule mid
submodule (kernel:mid) leaf
  implicit none
  type(helper_t) :: lv
  procedure(cb_i), pointer :: lp
  type(token_t) :: lt
contains
  module subroutine work(x)
    type(helper_t) :: x
  end subroutine work
end submodule leaf
"""


SUBMODULE_SHADOWING = """module kernel
  implicit none
  type :: t
    integer :: in_module
  end type t
  type :: only_in_module
    integer :: k
  end type only_in_module
  interface
    module subroutine work()
    end subroutine work
  end interface
contains
  subroutine helper()
  end subroutine helper
end module kernel
submodule (kernel) impl
  implicit none
  type :: t
    integer :: in_submodule
  end type t
  type(t) :: v
  type(only_in_module) :: w
contains
  module subroutine work()
    call helper()
  end subroutine work
  subroutine helper()
  end subroutine helper
end submodule impl
"""
CAPITALISED = """module shapes
  implicit none
  type :: point
    real :: x
  end type point
  type :: Circle
    real :: r
  end type Circle
  type, extends(circle) :: Disc
    real :: fill
  end type Disc
  type(CIRCLE) :: unit_circle
contains
  subroutine plot()
    type :: Point
      integer :: ix
    end type Point
    type(point) :: pixel
    type(Point) :: pixel2
    type(Circle) :: c
  end subroutine plot
end module shapes
"""


def cases():
    for order in (0, 1):
        o = (lambda a, b: a + b) if order == 0 else (lambda a, b: b + a)
        yield ("sibling_type", _mod(o(F1_TYPE, S2_TYPE)), order)
        yield ("sibling_var", _mod(o(F1_VAR, S2_NML)), order)
        yield ("sibling_absint", _mod(o(F1_ABS, S2_PP)), order)
    yield ("proc_shadow", _mod("  subroutine helper()\n  end subroutine helper\n  subroutine p()\n    call helper()\n  contains\n"
                              "    subroutine helper()\n    end subroutine helper\n  end subroutine p\n"), 0)
    yield ("type_shadow", _mod("  subroutine p()\n    type :: t\n      integer :: b\n    end type t\n    type(t) :: v\n  end subroutine p\n",
                              spec="  type :: t\n    integer :: a\n  end type t\n"), 0)
    yield ("use_leak", ("module other\n  implicit none\n  type :: t\n    integer :: from_other\n  end type t\n  type :: only_in_other\n    integer :: q\n  end type only_in_other\nend module other\n"
                        "module m\n  implicit none\n  type :: t\n    integer :: from_host\n  end type t\ncontains\n  subroutine first()\n    use other\n    type(t) :: a\n  end subroutine first\n"
                        "  subroutine second()\n    type(t) :: b\n    type(only_in_other), pointer :: c\n  end subroutine second\nend module m\n"), 0)
    yield ("dummy_hides_host", ("module solver\n  implicit none\ncontains\n  subroutine rhs(t)\n    real :: t\n  end subroutine rhs\n  subroutine integrate(rhs, n)\n    interface\n      function rhs(t) result(y)\n"
                                "        real, intent(in) :: t\n        real :: y\n      end function rhs\n    end interface\n    integer :: n\n    procedure(rhs), pointer :: saved\n  end subroutine integrate\n"
                                "  subroutine other()\n    procedure(rhs), pointer :: q\n  end subroutine other\nend module solver\n"), 0)
    yield ("procedure_beats_host_absint", ("module other\n  implicit none\ncontains\n  subroutine imported(x)\n    real :: x\n  end subroutine imported\nend module other\n"
                                           "module m\n  implicit none\n  abstract interface\n    subroutine cb()\n    end subroutine cb\n    subroutine imported()\n    end subroutine imported\n  end interface\n"
                                           "  procedure(cb), pointer :: at_module_level\ncontains\n  subroutine outer()\n    procedure(cb), pointer :: p\n  contains\n    subroutine cb(n)\n      integer :: n\n    end subroutine cb\n"
                                           "  end subroutine outer\n  subroutine user()\n    use other, only: imported\n    procedure(imported), pointer :: q\n  end subroutine user\nend module m\n"), 0)
    yield ("undeclared", _mod("  subroutine p()\n    type(nowhere) :: v\n  end subroutine p\n"), 0)
    yield ("extension_chain_out_of_order", EXT_CHAIN, 0)
    yield ("nested_submodule", NESTED_SUBMODULE, 0)
    yield ("capitalised_local_type", CAPITALISED, 0)
    yield ("submodule_shadowing", SUBMODULE_SHADOWING, 0)


def _find(lst, name):
    for x in lst:
        if getattr(x, "name", None) == name:
            return x
    return None


def check(kind, proj):
    m = proj.modules[0]
    bad = []
    if kind == "sibling_type":
        s2 = _find(m.subroutines, "s2")
        x = _find(s2.variables, "x")
        if not isinstance(x.proto[0], str):
            bad.append("type `tl` declared inside function f1 resolves in sibling subroutine s2")
        if "tl" in m.all_types:
            bad.append("type `tl` local to f1 appears in the name table of its host module m")
    elif kind == "sibling_var":
        if "loc" in m.all_vars:
            bad.append("variable `loc` local to f1 appears in the name table of its host module m")
        s2 = _find(m.subroutines, "s2")
        nl = s2.namelists[0]
        if any(not isinstance(v, str) for v in nl.variables):
            bad.append("namelist in s2 resolved `loc` to the local variable of sibling f1")
    elif kind == "sibling_absint":
        if "ai" in m.all_absinterfaces:
            bad.append("abstract interface `ai` local to f1 appears in the name table of its host module m")
        s2 = _find(m.subroutines, "s2")
        pp = _find(s2.variables, "pp")
        if not isinstance(pp.proto[0], str):
            bad.append("procedure(ai) in s2 resolved to the abstract interface local to sibling f1")
    elif kind == "proc_shadow":
        p = _find(m.subroutines, "p")
        inner = _find(p.subroutines, "helper")
        if not p.calls or p.calls[0] is not inner:
            bad.append(f"`call helper()` inside p resolves to {p.calls[0].parent.name if p.calls and hasattr(p.calls[0],'parent') else p.calls}.helper, not to p's internal procedure helper")
    elif kind == "type_shadow":
        p = _find(m.subroutines, "p")
        v = _find(p.variables, "v")
        if isinstance(v.proto[0], str) or v.proto[0].parent is not p:
            bad.append("type(t) in p resolves to the module-level t although p declares its own t")
    elif kind == "extension_chain_out_of_order":
        ty = {t.name.lower(): t for t in m.types}
        a, b, c = ty["a"], ty["b"], ty["c"]
        if c.extends is not b or b.extends is not a:
            bad.append("extension chain c -> b -> a is not resolved to the type entities")
        run_binding = next(bp for bp in a.boundprocs if bp.name.lower() == "run")
        cb = {bp.name.lower(): bp for bp in c.boundprocs}
        if cb.get("run") is not run_binding:
            bad.append("type c (declared before its parent b) does not inherit the binding `run` of its grandparent a")
        if [v.name.lower() for v in c.variables] != ["ia", "ib", "ic"]:
            bad.append(f"components of c are {[v.name.lower() for v in c.variables]}, expected the inherited ia, ib and its own ic")
        if "go" in cb and cb["go"].bindings != [run_binding]:
            bad.append("generic :: go => run in c does not designate the inherited binding run")
        user = _find(m.subroutines, "user")
        if user.calls != [run_binding]:
            bad.append(f"call x%run() on a type(c) variable resolves to {[getattr(x, 'name', x) for x in user.calls]} instead of the inherited binding")
    elif kind == "nested_submodule":
        sub = {x.name.lower(): x for x in proj.submodules}
        mid, leaf = sub["mid"], sub["leaf"]
        helper = _find(mid.types, "helper_t")
        cb_i = _find(mid.absinterfaces, "cb_i")
        lv, lp, lt = _find(leaf.variables, "lv"), _find(leaf.variables, "lp"), _find(leaf.variables, "lt")
        if lv.proto[0] is not helper:
            bad.append("type(helper_t) in submodule leaf does not resolve to the type declared in its parent submodule mid")
        if lp.proto[0] is not cb_i:
            bad.append("procedure(cb_i) in submodule leaf does not resolve to the abstract interface of its parent submodule mid")
        if lt.proto[0] is not _find(m.types, "token_t"):
            bad.append("type(token_t) in submodule leaf does not resolve to the ancestor module's type")
        work = _find(leaf.modprocedures if hasattr(leaf, "modprocedures") else [], "work") or _find(leaf.modsubroutines, "work")
        if work is None or getattr(work, "module", True) is True or work.module is False:
            bad.append("module subroutine work in leaf is not paired with its interface declared in the parent submodule mid")
    elif kind == "submodule_shadowing":
        sub = proj.submodules[0]
        v, w = _find(sub.variables, "v"), _find(sub.variables, "w")
        if isinstance(v.proto[0], str) or v.proto[0].parent is not sub:
            bad.append("type(t) inside submodule impl resolves to the ancestor module's t although the submodule declares its own t")
        if isinstance(w.proto[0], str) or w.proto[0].parent is not m:
            bad.append("type(only_in_module) inside the submodule does not resolve to the ancestor module's type (host association)")
        work = _find(sub.modsubroutines, "work") or _find(sub.subroutines, "work")
        own_helper = _find(sub.subroutines, "helper")
        if work is None or not work.calls or work.calls[0] is not own_helper:
            bad.append("call helper() inside the submodule resolves to the ancestor module's helper although the submodule has its own")
        iface = [i for i in m.interfaces if getattr(i, "name", "") == "work"]
        if work is not None and (getattr(work, "module", True) is True):
            bad.append("module subroutine work of the submodule is not paired with its interface in the ancestor module")
    elif kind == "capitalised_local_type":
        ty = {t.name: t for t in m.types}
        plot = _find(m.subroutines, "plot")
        local = _find(plot.types, "Point")
        for vn in ("pixel", "pixel2"):
            v = _find(plot.variables, vn)
            if v.proto[0] is not local:
                bad.append(f"type({vn}'s type) in plot resolves to {getattr(v.proto[0], 'parent', None) and v.proto[0].parent.name}'s point, not to plot's own type Point (names are case-insensitive)")
        if _find(plot.variables, "c").proto[0] is not ty["Circle"]:
            bad.append("type(Circle) in plot does not resolve to the module's type Circle")
        if _find(m.variables, "unit_circle").proto[0] is not ty["Circle"]:
            bad.append("type(CIRCLE) does not resolve to type Circle of the same scope")
        if ty["Disc"].extends is not ty["Circle"]:
            bad.append("extends(circle) does not resolve to type Circle")
    elif kind == "use_leak":
        m = [x for x in proj.modules if x.name == "m"][0]
        other = [x for x in proj.modules if x.name == "other"][0]
        first, second = _find(m.subroutines, "first"), _find(m.subroutines, "second")
        a, b, c = _find(first.variables, "a"), _find(second.variables, "b"), _find(second.variables, "c")
        if isinstance(a.proto[0], str) or a.proto[0].parent is not other:
            bad.append("type(t) in first (which has `use other`) does not resolve to other's t")
        if isinstance(b.proto[0], str) or b.proto[0].parent is not m:
            bad.append("type(t) in second resolves to the t that its sibling first imported, not to the host module's t")
        if not isinstance(c.proto[0], str):
            bad.append("type(only_in_other) in second resolves although only its sibling first uses module other")
        if m.all_types.get("t") is not _find(m.types, "t") or "only_in_other" in m.all_types:
            bad.append("the name table of the host module m holds types that its procedure first imported")
    elif kind == "dummy_hides_host":
        integ, other = _find(m.subroutines, "integrate"), _find(m.subroutines, "other")
        saved, q = _find(integ.variables, "saved"), _find(other.variables, "q")
        host_rhs = _find(m.subroutines, "rhs")
        target = saved.proto[0]
        target = getattr(target, "procedure", target)
        if isinstance(target, str) or target is host_rhs or getattr(target, "proctype", "").lower() != "function":
            bad.append("procedure(rhs) inside integrate, whose dummy argument rhs has an interface body, resolves to the module's subroutine rhs")
        if q.proto[0] is not host_rhs:
            bad.append("procedure(rhs) in the sibling procedure other does not resolve to the module's subroutine rhs")
    elif kind == "procedure_beats_host_absint":
        m = [x for x in proj.modules if x.name == "m"][0]
        other = [x for x in proj.modules if x.name == "other"][0]
        outer, user = _find(m.subroutines, "outer"), _find(m.subroutines, "user")
        p, q, top = _find(outer.variables, "p"), _find(user.variables, "q"), _find(m.variables, "at_module_level")
        tgt = lambda v: getattr(v.proto[0], "procedure", v.proto[0])
        if isinstance(p.proto[0], str) or tgt(p).parent is not outer:
            bad.append("procedure(cb) in outer, which has an internal procedure cb, resolves to the module's abstract interface cb")
        if isinstance(q.proto[0], str) or tgt(q).parent is not other:
            bad.append("procedure(imported) in user, which imports `imported` from module other, resolves to the module's abstract interface of that name")
        if isinstance(top.proto[0], str) or not getattr(top.proto[0], "abstract", getattr(getattr(top.proto[0], "parent", None), "abstract", False)):
            pass
    elif kind == "undeclared":
        p = _find(m.subroutines, "p")
        v = _find(p.variables, "v")
        if not isinstance(v.proto[0], str):
            bad.append("undeclared type name got resolved")
    return bad


RENAMED = {
    "src/shapes.f90": ("module shapes\n  implicit none\n  type :: point\n    integer :: from_shapes\n  end type point\n  abstract interface\n    subroutine callback()\n    end subroutine callback\n"
                       "  end interface\ncontains\n  subroutine draw()\n  end subroutine draw\nend module shapes\n"),
    "src/solids.f90": ("module solids\n  use shapes, vertex => point, hook => callback, sketch => draw\n  implicit none\n  type :: point\n    integer :: from_solids\n  end type point\n"
                       "  abstract interface\n    subroutine callback()\n    end subroutine callback\n  end interface\n  type(point) :: own\n  type(vertex) :: theirs\n"
                       "  procedure(callback), pointer :: own_cb\ncontains\n  subroutine draw()\n  end subroutine draw\n  subroutine use_them()\n    call draw()\n    call sketch()\n"
                       "  end subroutine use_them\nend module solids\n"),
    "src/consumer.f90": "module consumer\n  use shapes, vertex => point\n  implicit none\n  type(point) :: nothing_visible\n  type(vertex) :: renamed\nend module consumer\n",
}
SAME_NAME_SUBMODULES = {
    "src/m1.f90": "module m1\n  implicit none\n  interface\n    module subroutine a1()\n    end subroutine a1\n  end interface\nend module m1\n",
    "src/m2.f90": "module m2\n  implicit none\n  interface\n    module subroutine a2()\n    end subroutine a2\n  end interface\nend module m2\n",
    "src/s1.f90": "submodule (m1) impl\n  implicit none\n  type :: token\n    integer :: from_m1\n  end type token\nend submodule impl\n",
    "src/s2.f90": "submodule (m2) impl\n  implicit none\n  type :: token\n    integer :: from_m2\n  end type token\nend submodule impl\n",
    "src/s3.f90": "submodule (m2:impl) child\n  implicit none\ncontains\n  module subroutine a2()\n    type(token) :: t\n  end subroutine a2\nend submodule child\n",
}


def renamed_away():
    """`use m, local => orig` without ONLY: orig is not a name of m in this scope any more - the scope's own `orig` is the one references see, and where there is none the name is undeclared"""
    proj = realrun.build_project(RENAMED, proc_internals=True, display=["public", "private", "protected"])
    mods = {m.name.lower(): m for m in proj.modules}
    sh, so, co = mods["shapes"], mods["solids"], mods["consumer"]
    bad = []
    v = {x.name: x for x in so.variables}
    if v["own"].proto[0] is not _find(so.types, "point"):
        bad.append("solids: type(point) does not resolve to solids' own type point (shapes' point was renamed to vertex)")
    if v["theirs"].proto[0] is not _find(sh.types, "point"):
        bad.append("solids: type(vertex) does not resolve to shapes' point")
    if v["own_cb"].proto[0] is not _find(so.absinterfaces, "callback"):
        bad.append("solids: procedure(callback) does not resolve to solids' own abstract interface")
    ut = _find(so.subroutines, "use_them")
    got = [c if isinstance(c, str) else (c.name, c.parent.name) for c in ut.calls]
    if got != [("draw", "solids"), ("draw", "shapes")]:
        bad.append(f"solids::use_them: calls resolve to {got}, expected draw of solids then draw of shapes (as sketch)")
    cv = {x.name: x for x in co.variables}
    if not isinstance(cv["nothing_visible"].proto[0], str):
        bad.append("consumer: type(point) resolves although shapes' point is only visible as vertex")
    if cv["renamed"].proto[0] is not _find(sh.types, "point"):
        bad.append("consumer: type(vertex) does not resolve to shapes' point")
    return bad


def same_name_submodules():
    """submodule names are unique per ancestor module only: `submodule (m2:impl) child` descends from m2's impl"""
    proj = realrun.build_project(SAME_NAME_SUBMODULES, proc_internals=True, display=["public", "private", "protected"])
    subs = {(s.name.lower(), getattr(s.ancestor_module, "name", s.ancestor_module).lower()): s for s in proj.submodules}
    child, impl2 = subs[("child", "m2")], subs[("impl", "m2")]
    bad = []
    if child.parent_submodule is not impl2:
        par = child.parent_submodule
        bad.append(f"child's parent submodule is impl of {getattr(getattr(par, 'ancestor_module', None), 'name', par)}, expected impl of m2")
    procs = list(getattr(child, "modsubroutines", [])) + list(child.subroutines)
    t = procs[0].variables[0]
    if t.proto[0] is not _find(impl2.types, "token"):
        bad.append("type(token) in child::a2 does not resolve to the type of its parent submodule m2:impl")
    return bad


IFACE_BODIES = {
    "src/other.f90": "module other\n  implicit none\n  type :: t\n    integer :: from_other\n  end type t\nend module other\n",
    "src/host.f90": ("module host\n  implicit none\n  type :: t\n    integer :: from_host\n  end type t\n  interface gen\n    subroutine body_a(x)\n      use other, only: t\n      type(t) :: x\n"
                     "    end subroutine body_a\n    subroutine body_b(y)\n      use other\n      type(t) :: y\n    end subroutine body_b\n  end interface gen\n"
                     "  interface\n    subroutine single(z)\n      use other, only: t\n      type(t) :: z\n    end subroutine single\n  end interface\n"
                     "  abstract interface\n    subroutine callback(u)\n      use other, only: t\n      type(t) :: u\n    end subroutine callback\n  end interface\n"
                     "contains\n  subroutine plain(w)\n    type(t) :: w\n  end subroutine plain\nend module host\n"),
}
BLOCK_TYPE = {
    "src/m.f90": ("module m\n  implicit none\n  type :: t\n    integer :: from_module\n  end type t\ncontains\n  subroutine p(arg)\n    type(t) :: arg\n    type(t) :: local\n    block\n      type :: t\n"
                  "        integer :: from_block\n      end type t\n      integer :: i\n      i = 1\n    end block\n  contains\n    subroutine inner(q)\n      type(t) :: q\n    end subroutine inner\n"
                  "  end subroutine p\nend module m\n"),
}


def interface_body_uses():
    """a USE statement inside an interface body (of a generic or a plain interface block) imports into that body: its names hide the host's"""
    proj = realrun.build_project(IFACE_BODIES, proc_internals=True, display=["public", "private", "protected"])
    mods = {m.name.lower(): m for m in proj.modules}
    other_t, host_t = _find(mods["other"].types, "t"), _find(mods["host"].types, "t")
    bad = []
    gen = _find(mods["host"].interfaces, "gen")
    bodies = {r.name: r for r in gen.routines}
    single = [i for i in mods["host"].interfaces if getattr(i, "procedure", None) is not None and i.procedure.name == "single"][0].procedure
    callback = [i for i in mods["host"].absinterfaces if i.procedure.name == "callback"][0].procedure
    for nm, proc in list(bodies.items()) + [("single", single), ("callback", callback)]:
        a = proc.args[0]
        if getattr(a, "proto", None) is None or a.proto[0] is not other_t:
            bad.append(f"host::{nm}: type(t) of the dummy argument resolves to {('text ' + repr(a.proto[0])) if isinstance(getattr(a, 'proto', [None])[0], str) else 'the type t of host'}, "
                       "the body imports t from module other")
    w = _find(mods["host"].subroutines, "plain").args[0]
    if w.proto[0] is not host_t:
        bad.append("host::plain: type(t) does not resolve to host's own t")
    return bad


def block_local_type():
    """a type defined inside a BLOCK construct is local to the construct: outside it, in the procedure and its internal procedures, the name still means the host's type"""
    proj = realrun.build_project(BLOCK_TYPE, proc_internals=True, display=["public", "private", "protected"])
    m = proj.modules[0]
    mt = _find(m.types, "t")
    p = _find(m.subroutines, "p")
    bad = []
    for what, v in (("dummy argument arg", p.args[0]), ("local variable local", _find(p.variables, "local")), ("argument q of the internal procedure", p.subroutines[0].args[0])):
        if v is None or v.proto[0] is not mt:
            bad.append(f"m::p: type(t) of the {what} does not resolve to the module's type t")
    if any(getattr(x, "name", "") == "t" for x in p.types):
        bad.append("m::p lists the BLOCK-local type t among its own types")
    return bad


def search():
    from bounded import c06
    for fn, files, exp in ((interface_body_uses, IFACE_BODIES, "names imported by a USE inside an interface body are the ones its declarations see"),
                           (block_local_type, BLOCK_TYPE, "a BLOCK-local type does not shadow the host's type outside the construct")):
        bad = fn()
        if bad:
            return {"confirmed": True, "input": {"files": files}, "actual": bad, "expected": exp, "how": f"bounded search on the real pipeline: {fn.__name__}"}
    bad = inherited_generics(("bindings",))
    if bad:
        return {"confirmed": True, "input": {"source": INHERITED_GENERIC}, "actual": bad, "expected": "each type's generic resolves among that type's bound procedures", "how": "bounded search on the real pipeline: a generic binding inherited by three extensions, one of which overrides the specific"}
    bad = renamed_away()
    if bad:
        return {"confirmed": True, "input": {"files": RENAMED}, "actual": bad, "expected": "a renamed entity is visible under its local name only; the scope's own declarations keep their names",
                "how": "bounded search on the real pipeline: USE with renames and no ONLY list"}
    bad = same_name_submodules()
    if bad:
        return {"confirmed": True, "input": {"files": SAME_NAME_SUBMODULES}, "actual": bad, "expected": "the parent of m2:impl's child is the submodule impl of m2",
                "how": "bounded search on the real pipeline: two submodules named impl under different modules"}
    deep = c06.deep_use()
    if deep:
        return {"confirmed": True, "input": {"files": c06.DEEP}, "actual": deep, "expected": "names re-exported by a used module resolve wherever the USE statement is nested",
                "how": "bounded search on the real pipeline: module chain z_base <- m_mid <- a_top::outer::inner"}
    for kind, text, order in cases():
        proj = realrun.build_project({"src/m.f90": text}, proc_internals=True, display=["public", "private", "protected"])
        bad = check(kind, proj)
        if bad:
            return {"confirmed": True, "input": {"source": text}, "actual": bad, "expected": "resolution per Fortran scoping (innermost scope wins; sibling/child scopes invisible)",
                    "how": f"bounded search on the real pipeline, case {kind} (order {order})"}
    return None


def count_cases():
    return sum(1 for _ in cases()) + 5


INHERITED_GENERIC = ("module m\n  implicit none\n  type :: a\n  contains\n    procedure :: s => base_s\n    generic :: gen => s\n      !! gendocw1 gendocw2\n  end type a\n"
                     "  type, extends(a) :: b\n  contains\n    procedure :: s => b_s\n  end type b\n  type, extends(a) :: c\n  end type c\n  type, extends(a) :: d\n  end type d\ncontains\n"
                     "  subroutine base_s(self)\n    class(a) :: self\n  end subroutine base_s\n  subroutine b_s(self)\n    class(b) :: self\n  end subroutine b_s\nend module m\n")


def inherited_generics(what=("bindings", "idents", "docs")):
    """a generic binding that extending types inherit: in every type it dispatches to *that type's* specific binding (the parent's own generic keeps the parent's); the identifiers of
    the inherited copies are handed out when the types are correlated, in that order, not when somebody first asks; and each copy shows the documentation of the binding"""
    from harness import loader
    proj = realrun.build_project({"src/m.f90": INHERITED_GENERIC}, display=["public", "private", "protected"])
    ty = {t.name: t for t in proj.modules[0].types}
    g = lambda t: [bp for bp in ty[t].boundprocs if bp.name == "gen"][0]
    bad = []
    if "bindings" in what:
        got = {t: [(getattr(x, "name", x), getattr(getattr(x, "parent", None), "name", None)) for x in g(t).bindings] for t in "abcd"}
        want = {"a": [("s", "a")], "b": [("s", "b")], "c": [("s", "a")], "d": [("s", "a")]}
        if got != want:
            bad.append(f"generic `gen` dispatches to (binding, declaring type) {got}, expected {want}: b overrides s, the others inherit it")
    if "idents" in what:
        got = [(t, g(t).ident) for t in ("d", "c", "b", "a")]        # asked in reverse: an identifier that is only allocated on demand would follow this order
        want = [("d", "gen~4"), ("c", "gen~3"), ("b", "gen~2"), ("a", "gen")]
        if got != want:
            bad.append(f"identifiers of the inherited copies, asked for in reverse order: {got}; allocated at correlation time they are {want}")
    if "docs" in what:
        mdm = loader.import_repo("ford._markdown")
        proj.markdown(mdm.MetaMarkdown(aliases={}, project=proj))
        import re
        got = {t: re.findall(r"gendocw\d", str(getattr(g(t), "doc", ""))) for t in "abcd"}
        if any(v != ["gendocw1", "gendocw2"] for v in got.values()):
            bad.append(f"rendered documentation of `gen` per type: {got}; every type that has the binding shows its comment")
    return bad

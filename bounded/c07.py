"""Refutation search / bounded stand-in for C07 on the real pipeline: generated modules in which names are reused across
scopes; expected resolution follows Fortran scoping by construction of the program."""
from __future__ import annotations
import itertools
from bounded import realrun


def _mod(body_procs, spec=""):
    return f"module m\n  implicit none\n{spec}contains\n{body_procs}end module m\n"


F1_TYPE = "  function f1() result(r)\n    type :: tl\n      integer :: c\n    end type tl\n    integer :: r\n    r = 1\n  end function f1\n"
S2_TYPE = "  subroutine s2()\n    type(tl) :: x\n  end subroutine s2\n"
F1_VAR = "  function f1() result(r)\n    integer :: loc\n    integer :: r\n    r = 1\n  end function f1\n"
S2_NML = "  subroutine s2()\n    namelist /n/ loc\n  end subroutine s2\n"
F1_ABS = "  function f1() result(r)\n    abstract interface\n      subroutine ai()\n      end subroutine ai\n    end interface\n    integer :: r\n    r = 1\n  end function f1\n"
S2_PP = "  subroutine s2()\n    procedure(ai), pointer :: pp\n  end subroutine s2\n"


def cases():
    for order in (0, 1):
        o = (lambda a, b: a + b) if order == 0 else (lambda a, b: b + a)
        yield ("sibling_type", _mod(o(F1_TYPE, S2_TYPE)), order)
        yield ("sibling_var", _mod(o(F1_VAR, S2_NML)), order)
        yield ("sibling_absint", _mod(o(F1_ABS, S2_PP)), order)
    yield ("proc_shadow", _mod("  subroutine helper()\n  end subroutine helper\n  subroutine p()\n    call helper()\n  contains\n"
                              "    subroutine helper()\n    end subroutine helper\n  end subroutine p\n"), 0)
    yield ("type_shadow", _mod("  subroutine p()\n    type :: t\n      integer :: b\n    end type t\n    type(t) :: v\n  end subroutine p\n",
                              spec="  type :: t\n    integer :: a\n  end type t\n"), 0)
    yield ("undeclared", _mod("  subroutine p()\n    type(nowhere) :: v\n  end subroutine p\n"), 0)


def _find(lst, name):
    for x in lst:
        if getattr(x, "name", None) == name:
            return x
    return None


def check(kind, proj):
    m = proj.modules[0]
    bad = []
    if kind == "sibling_type":
        s2 = _find(m.subroutines, "s2")
        x = _find(s2.variables, "x")
        if not isinstance(x.proto[0], str):
            bad.append("type `tl` declared inside function f1 resolves in sibling subroutine s2")
        if "tl" in m.all_types:
            bad.append("type `tl` local to f1 appears in the name table of its host module m")
    elif kind == "sibling_var":
        if "loc" in m.all_vars:
            bad.append("variable `loc` local to f1 appears in the name table of its host module m")
        s2 = _find(m.subroutines, "s2")
        nl = s2.namelists[0]
        if any(not isinstance(v, str) for v in nl.variables):
            bad.append("namelist in s2 resolved `loc` to the local variable of sibling f1")
    elif kind == "sibling_absint":
        if "ai" in m.all_absinterfaces:
            bad.append("abstract interface `ai` local to f1 appears in the name table of its host module m")
        s2 = _find(m.subroutines, "s2")
        pp = _find(s2.variables, "pp")
        if not isinstance(pp.proto[0], str):
            bad.append("procedure(ai) in s2 resolved to the abstract interface local to sibling f1")
    elif kind == "proc_shadow":
        p = _find(m.subroutines, "p")
        inner = _find(p.subroutines, "helper")
        if not p.calls or p.calls[0] is not inner:
            bad.append(f"`call helper()` inside p resolves to {p.calls[0].parent.name if p.calls and hasattr(p.calls[0],'parent') else p.calls}.helper, not to p's internal procedure helper")
    elif kind == "type_shadow":
        p = _find(m.subroutines, "p")
        v = _find(p.variables, "v")
        if isinstance(v.proto[0], str) or v.proto[0].parent is not p:
            bad.append("type(t) in p resolves to the module-level t although p declares its own t")
    elif kind == "undeclared":
        p = _find(m.subroutines, "p")
        v = _find(p.variables, "v")
        if not isinstance(v.proto[0], str):
            bad.append("undeclared type name got resolved")
    return bad


def search():
    for kind, text, order in cases():
        proj = realrun.build_project({"src/m.f90": text}, proc_internals=True, display=["public", "private", "protected"])
        bad = check(kind, proj)
        if bad:
            return {"confirmed": True, "input": {"source": text}, "actual": bad, "expected": "resolution per Fortran scoping (innermost scope wins; sibling/child scopes invisible)",
                    "how": f"bounded search on the real pipeline, case {kind} (order {order})"}
    return None


def count_cases():
    return sum(1 for _ in cases())

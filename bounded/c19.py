"""Bounded stand-in for C19: real end-to-end FORD runs in a sandbox tree; every recorded file-system mutation must target the configured output
(or graph) directory, every other file of the sandbox must be byte-identical afterwards, and a source directory inside the output directory is refused
before anything is deleted."""
from __future__ import annotations
import hashlib, json, os, shutil, subprocess, sys, tempfile
from bounded import realrun

VERIF = os.path.dirname(os.path.dirname(os.path.abspath(__file__)))
SRC = "module m\n  !! doc\n  integer :: x\ncontains\n  subroutine s()\n    !! doc s\n  end subroutine s\nend module m\n"


def snapshot(root, skip):
    out = {}
    for d, dirs, files in os.walk(root):
        for f in files:
            p = os.path.join(d, f)
            if any(os.path.commonpath([p, s]) == s for s in skip if os.path.exists(s) or True if s):
                continue
            try:
                out[os.path.relpath(p, root)] = hashlib.sha1(open(p, "rb").read()).hexdigest()
            except OSError:
                pass
    return out


def under(p, root):
    p, root = os.path.realpath(p), os.path.realpath(root)
    return p == root or p.startswith(root + os.sep)


def run_case(label, meta, layout=None, outdirs=("proj/doc",), expect_refusal=False, cargs=None):
    os.makedirs(realrun.TMPROOT, exist_ok=True)
    sb = tempfile.mkdtemp(dir=realrun.TMPROOT)
    try:
        files = {"proj/src/m.f90": SRC, "proj/other/keep.txt": "keep", "outside/precious.txt": "precious", "proj/media/logo.txt": "logo",
                 "proj/pages/index.md": "---\ntitle: Pages\n---\nhello\n", "proj/pages/sub/index.md": "---\ntitle: Sub\ncopy_subdir: assets\n---\nsub\n",
                 "proj/pages/sub/assets/a.txt": "asset", "proj/pages/sub/data.bin": "bin", "proj/my.css": "body{}", "proj/mj.js": "x=1"}
        files.update(layout or {})
        for rel, text in files.items():
            p = os.path.join(sb, rel)
            os.makedirs(os.path.dirname(p), exist_ok=True)
            open(p, "w").write(text)
        md = "---\nproject: demo\npreprocess: false\nsearch: false\n" + meta + "---\n\nProject text\n"
        pf = os.path.join(sb, "proj", "proj.md")
        open(pf, "w").write(md)
        allowed = [os.path.normpath(os.path.join(sb, o)) for o in outdirs]
        before = snapshot(sb, allowed)
        keep = {}
        for a in allowed[1:]:
            for dd, _, ff in os.walk(a):
                for f in ff:
                    pth = os.path.join(dd, f)
                    keep[pth] = hashlib.sha1(open(pth, "rb").read()).hexdigest()
        env = dict(os.environ, FORD_DEBUGGING="1", PYTHONHASHSEED="0")
        r = subprocess.run([sys.executable, "-m", "bounded.fordrun", sb, pf] + ([json.dumps(cargs)] if cargs else []), cwd=VERIF, capture_output=True, text=True, timeout=600, env=env)
        line = [l for l in r.stdout.splitlines() if l.startswith("##FORDRUN##")]
        if not line:
            return {"label": label, "problem": "runner produced no report", "detail": (r.stdout + r.stderr)[-800:]}
        rep = json.loads(line[0][len("##FORDRUN##"):])
        after = snapshot(sb, allowed)
        outside = sorted({w[1] for w in rep["writes"] if not any(under(os.path.join(os.path.dirname(pf), w[1]) if not os.path.isabs(w[1]) else w[1], a) for a in allowed)
                          and under(os.path.join(os.path.dirname(pf), w[1]) if not os.path.isabs(w[1]) else w[1], sb)})
        changed = sorted(k for k in set(before) | set(after) if before.get(k) != after.get(k))
        for pth, h in keep.items():
            if not os.path.exists(pth) or hashlib.sha1(open(pth, "rb").read()).hexdigest() != h:
                changed.append("pre-existing file in the graph directory: " + os.path.relpath(pth, sb))
        if expect_refusal:
            if not rep["status"].startswith("ValueError") or rep["writes"] or changed:
                return {"label": label, "problem": "source directory inside the output directory was not refused before touching the disk",
                        "status": rep["status"], "writes": rep["writes"][:5], "changed": changed[:5]}
            return None
        if outside or changed:
            return {"label": label, "problem": "file-system effect outside the output/graph directory", "writes_outside": outside[:6], "changed_files": changed[:6], "status": rep["status"]}
        if not rep["status"].startswith("ok"):
            return {"label": label, "problem": "run failed (confinement held)", "status": rep["status"], "benign": True}
        return None
    finally:
        shutil.rmtree(sb, ignore_errors=True)


def cases():
    yield ("default placement", "src_dir: ./src\noutput_dir: ./doc\ngraph: false\n", None, ("proj/doc",), False)
    yield ("nested output", "src_dir: ./src\noutput_dir: ./a/b/out\ngraph: false\n", None, ("proj/a",), False)
    yield ("output via ..", "src_dir: ./src\noutput_dir: ../sibling_out\ngraph: false\n", None, ("sibling_out",), False)
    yield ("copies: media css mathjax pages incl_src externalize", "src_dir: ./src\noutput_dir: ./doc\ngraph: false\nmedia_dir: ./media\ncss: ./my.css\nmathjax_config: ./mj.js\n"
           "page_dir: ./pages\nincl_src: true\nexternalize: true\n", None, ("proj/doc",), False)
    yield ("graphs with a separate graph_dir", "src_dir: ./src\noutput_dir: ./doc\ngraph: true\ngraph_dir: ./graphs\n", None, ("proj/doc", "proj/graphs"), False)
    yield ("graphs without a graph_dir, serial", "src_dir: ./src\noutput_dir: ./doc\ngraph: true\nparallel: 0\n", None, ("proj/doc",), False)
    yield ("output equals source dir", "src_dir: ./src\noutput_dir: ./src\ngraph: false\n", None, ("proj/src",), True)
    yield ("output above source dir", "src_dir: ./code/src\noutput_dir: ./code\ngraph: false\n", {"proj/code/src/m.f90": SRC, "proj/code/notes.txt": "n"}, ("proj/nothing",), True)
    yield ("second source dir inside output", "src_dir: ./src\n    ./doc/gen\noutput_dir: ./doc\ngraph: false\n", {"proj/doc/gen/g.f90": SRC}, ("proj/nothing",), True)
    yield ("graph_dir holding input files", "src_dir: ./src\noutput_dir: ./doc\ngraph: true\ngraph_dir: ./src\n", None, ("proj/doc", "proj/src"), False)
    yield ("ordered_subpage entry climbing out of the page directory", "src_dir: ./src\noutput_dir: ./doc\ngraph: false\npage_dir: ./pages\n",
           {"proj/pages/index.md": "---\ntitle: Pages\nordered_subpage: sub/../../x.md\n---\nhello\n", "proj/x.md": "---\ntitle: Outside\n---\noutside\n"}, ("proj/doc",), False)
    yield ("page tree three directories deep", "src_dir: ./src\noutput_dir: ./doc\ngraph: false\npage_dir: ./pages\n",
           {"proj/pages/index.md": "---\ntitle: Root\n---\nroot\n", "proj/pages/a/index.md": "---\ntitle: A\n---\na\n", "proj/pages/a/b/index.md": "---\ntitle: B\n---\nb\n",
            "proj/pages/a/b/leaf.md": "---\ntitle: Leaf\n---\nleaf\n", "proj/pages/a/b/c/index.md": "---\ntitle: C\n---\nc\n", "proj/pages/a/b/c/pic.png": "p"}, ("proj/doc",), False)
    yield ("stale output directory", "src_dir: ./src\noutput_dir: ./doc\ngraph: false\n", {"proj/doc/stale.html": "old"}, ("proj/doc",), False)


def search():
    for label, meta, layout, outdirs, refusal in cases():
        res = run_case(label, meta, layout, outdirs, refusal)
        if res and not res.get("benign"):
            return {"confirmed": True, "input": {"case": label, "metadata": meta}, "actual": res, "expected": "all file-system effects inside the output / graph directory",
                    "how": "real end-to-end run (load_settings, parse_arguments, main) under a CPython audit hook + before/after content hashes"}
    return None


def count_cases():
    return sum(1 for _ in cases())

"""Bounded stand-in for C01: one abstract program rendered with every equivalent spelling; the canonical entity trees must agree
(and agree with the model)."""
from __future__ import annotations
import itertools
from bounded import realrun, canon

# declarations: (typespec variants by kind spelling, attributes, entities)
DECLS = [
    ({"paren": "real(8)", "star": "real*8", "kind": "real(kind=8)"}, ["dimension(3)", "intent(in)"], ["xa"]),
    ({"paren": "integer(4)", "star": "integer*4", "kind": "integer(kind=4)"}, ["optional", "intent(out)"], ["n"]),
    ({"paren": "character(10)", "star": "character*10", "kind": "character(len=10)"}, ["intent(inout)"], ["cs"]),
    ({"paren": "logical", "star": "logical", "kind": "logical"}, ["allocatable", "dimension(:)"], ["flags"]),
    ({"paren": "integer", "star": "integer", "kind": "integer"}, ["external"], ["callback"]),           # a dummy procedure given by type + EXTERNAL
]
MODVARS = [
    ({"paren": "real(8)", "star": "real*8", "kind": "real(kind=8)"}, ["parameter"], [("pi", "3.14d0")]),
    ({"paren": "integer", "star": "integer", "kind": "integer"}, ["save", "target"], [("counter", None)]),
    ({"paren": "integer(2)", "star": "integer*2", "kind": "integer(kind=2)"}, ["private"], [("z", None)]),
]


def render(kind_sp, attr_style, end_style, dcolon, upper):
    """attr_style: 'decl' (attributes on the declaration) | 'stmt' (separate attribute statements)"""
    L = []
    K = (lambda s: s.upper()) if upper else (lambda s: s)

    def decl(ts, attrs, ents, indent):
        names = ", ".join(e if isinstance(e, str) else (f"{e[0]} = {e[1]}" if e[1] and attr_style == "decl" else e[0]) for e in ents)
        if attr_style == "decl" or not attrs:
            sep = " :: " if (attrs or dcolon or any(not isinstance(e, str) and e[1] for e in ents)) else " "
            L.append(indent + K(ts[kind_sp]) + "".join(", " + K(a) for a in attrs) + sep + names)
        else:
            L.append(indent + K(ts[kind_sp]) + (" :: " if dcolon else " ") + ", ".join(e if isinstance(e, str) else e[0] for e in ents))
            for a in attrs:
                for e in ents:
                    nm = e if isinstance(e, str) else e[0]
                    if a.startswith("dimension"):
                        L.append(indent + K("dimension") + " " + nm + a[len("dimension"):])
                    elif a == "parameter":
                        L.append(indent + K("parameter") + " (" + nm + " = " + e[1] + ")")
                    else:
                        L.append(indent + K(a) + (" :: " if dcolon else " ") + nm)

    def end(kw, name, indent):
        L.append(indent + {"bare": K("end"), "kw": K("end " + kw), "named": K("end " + kw) + " " + name, "joined": K("end" + kw) + " " + name}[end_style])
    L.append(K("module") + " geom")
    L.append("  " + K("implicit none"))
    for ts, attrs, ents in MODVARS:
        decl(ts, attrs, ents, "  ")
    L.append("  " + K("type") + (" :: " if dcolon else " ") + "point")
    L.append("    " + K("real") + (" :: " if dcolon else " ") + "x")
    L.append("  " + {"bare": K("end type"), "kw": K("end type"), "named": K("end type") + " point", "joined": K("endtype") + " point"}[end_style])
    L.append(K("contains"))
    L.append("  " + K("subroutine") + " work(xa, n, cs, flags, callback)")
    for ts, attrs, ents in DECLS:
        decl(ts, attrs, ents, "    ")
    end("subroutine", "work", "  ")
    L.append("  " + K("pure function") + " area(r) " + K("result") + "(a)")
    decl({"paren": "real(8)", "star": "real*8", "kind": "real(kind=8)"}, ["intent(in)"], ["r"], "    ")
    decl({"paren": "real(8)", "star": "real*8", "kind": "real(kind=8)"}, ["target"], ["a"], "    ")           # an attribute of the result variable
    L.append("    a = 3.14d0 * r * r")
    end("function", "area", "  ")
    end("module", "geom", "")
    return "\n".join(L) + "\n"


# ---- second model program: type-bound procedures, array bounds of rank >= 2 in both attribute forms, interfaces, enumeration, common block, namelist
# (array / length attribute on the declaration, the same as a separate statement)
RICH_VARS = [
    ("real", "grid", "dimension(2,3)", "dimension grid(2,3)"),
    ("real", "buf", "allocatable, dimension(:,:)", "allocatable :: buf(:,:)"),
    ("real", "p3", "pointer, dimension(:,:,:)", "pointer p3(:,:,:)"),
    ("integer", "tg", "target, dimension(10,2)", "target :: tg(10,2)"),
    ("integer", "vol", "volatile", "volatile vol"),
]


def render_rich(attr_style, upper, dcolon, idcase):
    """idcase: the identifiers at their *use* sites (attribute statements, common, namelist, bindings, argument lists) are upper-cased"""
    K = (lambda s: s.upper()) if upper else (lambda s: s)
    U = (lambda s: s.upper()) if idcase else (lambda s: s)
    dc = " :: " if dcolon else " "
    L = [K("module") + " shapes", "  " + K("implicit none")]
    for ts, nm, on_decl, stmt in RICH_VARS:
        if attr_style == "decl":
            L.append("  " + K(ts) + ", " + K(on_decl) + " :: " + nm)
        else:
            L.append("  " + K(ts) + dc + nm)
            kw, rest = stmt.split(" ", 1)
            L.append("  " + K(kw) + " " + rest.replace(nm, U(nm)))
    L += ["  " + K("type") + dc + "shape_t", "    " + K("integer") + dc + "id", "  " + K("contains"),
          "    " + K("procedure") + " :: area => " + U("shape_area"),
          "    " + K("procedure") + (", " + K("public") if attr_style == "decl" else "") + " :: perim => shape_perim",
          "    " + K("generic") + " :: measure => " + U("area") + ", perim",
          "    " + K("final") + " :: " + U("shape_done"),
          "  " + K("end type") + " shape_t",
          "  " + K("interface") + " total", "    " + K("module procedure") + " " + U("total_i"), "  " + K("end interface") + " total",
          "  " + K("abstract interface"), "    " + K("subroutine") + " cb(x)", "      " + K("real, intent(in)") + " :: x", "    " + K("end subroutine") + " cb",
          "  " + K("end interface"),
          "  " + K("enum, bind(c)"), "    " + K("enumerator") + " :: red = 1, green", "  " + K("end enum"),
          K("contains"),
          "  " + K("function") + " shape_area(self) " + K("result") + "(" + U("a") + ")", "    " + K("class") + "(shape_t), " + K("intent(in)") + " :: self", "    " + K("real") + dc + "a",
          "    a = 1.0", "  " + K("end function") + " shape_area",
          "  " + K("function") + " shape_perim(self) " + K("result") + "(a)", "    " + K("class") + "(shape_t), " + K("intent(in)") + " :: self", "    " + K("real") + dc + "a",
          "    a = 2.0", "  " + K("end function") + " shape_perim",
          "  " + K("subroutine") + " shape_done(self)", "    " + K("type") + "(shape_t), " + K("intent(inout)") + " :: self", "  " + K("end subroutine") + " shape_done",
          "  " + K("function") + " " + U("total_i") + "(n)", "    " + K("integer, intent(in)") + " :: n", "    " + K("integer") + dc + "total_i", "    total_i = n", "  " + K("end function") + " total_i",
          "  " + K("subroutine") + " work(" + U("q") + ", cs, " + U("ext") + ")"]
    if attr_style == "decl":
        L += ["    " + K("integer, intent(inout)") + " :: q", "    " + K("character(len=10), intent(in)") + " :: cs", "    " + K("real, external") + " :: ext",
              "    " + K("real, external") + " :: other"]
    else:
        L += ["    " + K("integer") + dc + "q", "    " + K("intent(in out)") + " " + U("q"), "    " + K("character(len=10)") + dc + "cs", "    " + K("intent(in)") + dc + "cs",
              "    " + K("real") + dc + "ext", "    " + K("external") + dc + U("ext"), "    " + K("real") + dc + "other", "    " + K("external") + " other"]
    L += ["    " + K("character(len=10)") + dc + "c2, c3*20, c4(3)*5",
          "    " + K("integer") + dc + "cx, cy",
          "    " + K("common") + " /blk/ " + U("cx") + ", cy" + (" /blk2/ c4" if attr_style == "decl" else ""),
          *([] if attr_style == "decl" else ["    " + K("common") + " /blk2/ " + U("c4")]),
          "    " + K("common") + " // c2",
          "    " + K("namelist") + " /nml/ " + U("cx") + ", cy" + (" /nml2/ cy" if attr_style == "decl" else ""),
          *([] if attr_style == "decl" else ["    " + K("namelist") + " /nml2/ " + U("cy")]),
          "  " + K("end subroutine") + " work",
          K("end module") + " shapes"]
    return "\n".join(L) + "\n"


def rich_variants():
    return list(itertools.product(["decl", "stmt"], [False, True], [True, False], [False, True]))


def search_rich():
    base_v = ("decl", False, True, False)
    base_text = render_rich(*base_v)
    try:
        base = tree(base_text)
    except Exception as e:
        return {"confirmed": True, "input": {"source": base_text}, "actual": f"{type(e).__name__}: {e}", "expected": "parses", "how": "base rendering of the second model program"}
    m = base[0][0][3]
    model = {"variables": ["grid", "buf", "p3", "tg", "vol"], "types": ["shape_t"], "interfaces": ["total"], "absinterfaces": ["cb"],
             "functions": ["shape_area", "shape_perim", "total_i"], "subroutines": ["shape_done", "work"]}
    got = {"variables": [v[1] for v in m[0]], "types": [t[1] for t in m[1]], "interfaces": [i[1] for i in m[2]], "absinterfaces": [i[5][0][1] if i[5] else i[1] for i in m[3]],
           "functions": [p[1] for p in m[5]], "subroutines": [p[1] for p in m[4]]}
    if got != model:
        return {"confirmed": True, "input": {"source": base_text}, "actual": got, "expected": model, "how": "base rendering of the second model program vs its declared entities"}
    t = m[1][0]
    binds = sorted((b[0], b[3]) for b in t[6])
    if binds != [("area", False), ("measure", True), ("perim", False)] or t[7] != ("shape_done",):
        return {"confirmed": True, "input": {"source": base_text}, "actual": {"bindings (name, generic)": binds, "final": t[7]},
                "expected": "area, perim specific; measure generic; final shape_done", "how": "base rendering of the second model program: type-bound procedures"}
    dims = {v[1]: (v[8], v[6]) for v in m[0]}
    want = {"grid": ("(2,3)", ()), "buf": ("(:,:)", ("allocatable",)), "p3": ("(:,:,:)", ("pointer",)), "tg": ("(10,2)", ("target",)), "vol": ("", ("volatile",))}
    if dims != want:
        return {"confirmed": True, "input": {"source": base_text}, "actual": dims, "expected": want, "how": "base rendering of the second model program: (dimension, attributes) per variable"}
    work = [p for p in m[4] if p[1] == "work"][0]
    loc = {v[1]: (v[4], v[8]) for v in work[7][0]}
    wantloc = {"c2": ("10", ""), "c3": ("20", ""), "c4": ("5", "(3)"), "cx": (None, ""), "cy": (None, "")}
    if loc != wantloc:
        return {"confirmed": True, "input": {"source": base_text}, "actual": loc, "expected": wantloc, "how": "base rendering of the second model program: (length, dimension) of work's local variables "
                "(a non-dummy EXTERNAL declaration is no variable)"}
    for v in rich_variants():
        text = render_rich(*v)
        try:
            t2 = tree(text)
        except Exception as e:
            return {"confirmed": True, "input": {"source": text, "variant": v}, "actual": f"{type(e).__name__}: {e}", "expected": "parses like the base spelling",
                    "how": f"real parser on variant {v} of the second model program"}
        d = canon.diff(base, t2)
        if d:
            return {"confirmed": True, "input": {"source": text, "base": base_text, "variant": v}, "actual": d, "expected": "same canonical entity tree as the base spelling",
                    "how": f"real parser, second model program: base spelling vs variant (attribute style, upper-case keywords, '::', upper-case identifiers at use sites) = {v}"}
    return None


def enumerator_values():
    """enumerators take literal values, named constants and constant expressions; the ones without a value count on from the one before"""
    src = ("module colours\n  implicit none\n  integer, parameter :: base = 10\n  enum, bind(c)\n    enumerator :: e0, e1 = 5, e2, e3 = base, e4, e5, e6 = merge(1, 2, base > 3), e7 = -2, e8\n"
           "  end enum\nend module colours\n")
    want = [("e0", "0"), ("e1", "5"), ("e2", "6"), ("e3", "base"), ("e4", "base+1"), ("e5", "base+2"), ("e6", "merge(1,2,base>3)"), ("e7", "-2"), ("e8", "-1")]
    try:
        f = realrun.parse_source(src)
        got = [(v.name, str(v.initial).replace(" ", "")) for v in f.modules[0].enums[0].variables]
    except Exception as e:
        got = f"{type(e).__name__}: {e}"
    if got != want:
        return {"confirmed": True, "input": {"source": src}, "actual": got, "expected": want, "how": "real parser: (name, value) of the enumerators of one ENUM block"}
    return None


def common_members():
    """members of a common block are the declared variables of that name, whatever the letter case and whether or not the COMMON statement repeats the bounds; a blank
    common and a second group on the same statement are blocks too"""
    src = ("subroutine s()\n  integer x, y, d\n  real cb\n  common /BLK/ X, y /other/ cb(3)\n  common // d\nend subroutine s\n"
           "subroutine t()\n  integer x, y\n  common /blk/ x, Y\nend subroutine t\n")
    proj = realrun.build_project({"src/c.f90": src}, display=["public", "private", "protected"], proc_internals=True)
    subs = {p.name: p for p in proj.procedures}
    got = [(c.name.lower(), [(v if isinstance(v, str) else (v.name.lower(), v.vartype)) for v in c.variables], len(c.other_uses)) for c in subs["s"].common]
    want = [("blk", [("x", "integer"), ("y", "integer")], 2), ("other", [("cb", "real")], 1), ("", [("d", "integer")], 1)]
    left = [v.name for v in subs["s"].variables]
    if got != want or left:
        return {"confirmed": True, "input": {"source": src}, "actual": {"common blocks of s": got, "variables left outside the blocks": left}, "expected": {"common blocks of s": want, "variables left": []},
                "how": "real pipeline (Project.correlate): (name, members with their declared type, number of uses in the project) of the common blocks"}
    return None


def shadowed_members():
    """a name listed in a NAMELIST / COMMON statement of a contained procedure is that procedure's own declaration of the name when it has one, whatever its host (module, or
    procedure with a dummy argument of that name) declares; a name it does not declare itself is the host's"""
    src = ("module host\n  implicit none\n  integer :: x(3)\n  character(len=4) :: tag\n  integer :: shared\ncontains\n  subroutine outer(n, Cnt)\n    integer :: n, Cnt\n    namelist /dummies/ cnt\n  contains\n"
           "    subroutine inner()\n      real :: x, n\n      logical :: tag\n      common /blk/ x\n      namelist /nm/ tag, n, shared\n    end subroutine inner\n  end subroutine outer\nend module host\n")
    proj = realrun.build_project({"src/h.f90": src}, display=["public", "private", "protected"], proc_internals=True)
    m = proj.modules[0]
    outer = m.subroutines[0]
    inner = outer.subroutines[0]
    d = lambda v: v if isinstance(v, str) else (v.name.lower(), v.vartype, getattr(v.parent, "name", None))
    got = {"common /blk/ of inner": [d(v) for c in inner.common for v in c.variables], "namelist /nm/ of inner": [d(v) for v in inner.namelists[0].variables],
           "variables left in inner": sorted(v.name for v in inner.variables), "namelist /dummies/ of outer": [d(v) for v in outer.namelists[0].variables]}
    want = {"common /blk/ of inner": [("x", "real", "inner")], "namelist /nm/ of inner": [("tag", "logical", "inner"), ("n", "real", "inner"), ("shared", "integer", "host")],
            "variables left in inner": ["n", "tag"], "namelist /dummies/ of outer": [("cnt", "integer", "outer")]}
    if got != want:
        return {"confirmed": True, "input": {"source": src}, "actual": got, "expected": want,
                "how": "real pipeline (Project.correlate): (name, type, declaring scope) of the members of a common block and of namelist groups whose names are also declared by the host"}
    return None


def implicit_attributes():
    """an attribute statement gives its attribute to the entities it names and to no other: function results typed in the prefix, implicitly typed dummies and results"""
    src = ("real function area(r)\n  real :: r\n  pointer :: area\n  area => null()\nend function area\n"
           "integer function count_items(n)\n  integer :: n\n  count_items = n\nend function count_items\n"
           "function legacy(i, x)\n  dimension x(3)\n  legacy = i\nend function legacy\n"
           "subroutine cb(f, g)\n  interface\n    function f(x)\n      real :: x, f\n    end function f\n    subroutine g()\n    end subroutine g\n  end interface\n  optional :: f\n  optional g\nend subroutine cb\n"
           "subroutine blocks()\n  common /c/ p, q, w(2,3)\n  target :: q\nend subroutine blocks\n"
           "block data init\n  common /c/ p, q, w\n  dimension w(2,3)\nend block data init\n")
    proj = realrun.build_project({"src/i.f90": src}, display=["public", "private", "protected"], proc_internals=True)
    procs = {p.name: p for p in proj.procedures}
    a = lambda v: sorted(x.lower().replace(" ", "") for x in v.attribs)
    got = {"result of area": a(procs["area"].retvar), "result of count_items": a(procs["count_items"].retvar), "result of legacy": a(procs["legacy"].retvar),
           "dummy i of legacy": a(procs["legacy"].args[0]), "dummy x of legacy": a(procs["legacy"].args[1]), "dummy r of area": a(procs["area"].args[0]), "dummy procedures of cb": [(x.name, a(x)) for x in procs["cb"].args],
           "common /c/": [(v if isinstance(v, str) else (v.name, a(v))) for v in procs["blocks"].common[0].variables],
           "common /c/ in the block data": [(v if isinstance(v, str) else (v.name, a(v))) for v in proj.blockdata[0].common[0].variables]}
    want = {"result of area": ["pointer"], "result of count_items": [], "result of legacy": [], "dummy i of legacy": [], "dummy x of legacy": ["dimension(3)"], "dummy r of area": [], "dummy procedures of cb": [("f", ["optional"]), ("g", ["optional"])],
            "common /c/": [("p", []), ("q", ["target"]), ("w", ["dimension(2,3)"])], "common /c/ in the block data": [("p", []), ("q", []), ("w", ["dimension(2,3)"])]}
    if got != want:
        return {"confirmed": True, "input": {"source": src}, "actual": got, "expected": want,
                "how": "real pipeline: attributes reported for function results, dummies and common members after attribute statements that name some of them"}
    return None


def namelist_groups():
    """one NAMELIST statement may declare several groups, with or without a comma before the next `/group/`: each group has exactly its declared members"""
    out = {}
    for label, stmt in (("no comma", "namelist /grid/ nx, ny /time/ dt, tmax"), ("optional comma", "namelist /grid/ nx, ny, /time/ dt, tmax"), ("upper case and blanks", "NAMELIST / grid / nx , ny , / time / dt , tmax")):
        src = f"module m\n  implicit none\n  integer :: nx, ny\n  real :: dt, tmax\n  {stmt}\nend module m\n"
        try:
            m = realrun.build_project({"src/m.f90": src}, display=["public", "private", "protected"]).modules[0]
            out[label] = [(n.name.strip().lower(), [(v if isinstance(v, str) else v.name) for v in n.variables]) for n in m.namelists]
        except Exception as e:
            out[label] = f"{type(e).__name__}: {e}"
    want = [("grid", ["nx", "ny"]), ("time", ["dt", "tmax"])]
    bad = {k: v for k, v in out.items() if v != want}
    if bad:
        return {"confirmed": True, "input": {"statements": list(bad)}, "actual": bad, "expected": want, "how": "real pipeline: (group, members) of the namelists of one NAMELIST statement"}
    return None


def variants():
    return list(itertools.product(["paren", "star", "kind"], ["decl", "stmt"], ["bare", "kw", "named", "joined"], [True, False], [False, True]))


def tree(text):
    f = realrun.parse_source(text)
    return canon.sourcefile(f)


def search():
    base_v = ("paren", "decl", "named", True, False)
    base_text = render(*base_v)
    try:
        base = tree(base_text)
    except Exception as e:
        return {"confirmed": True, "input": {"source": base_text}, "actual": f"{type(e).__name__}: {e}", "expected": "parses", "how": "base rendering"}
    # the base tree must be the model
    m = base[0][0]
    if m[1] != "geom" or len(m[3][4]) != 1 or len(m[3][5]) != 1 or len(m[3][1]) != 1 or len(m[3][0]) != 3:
        return {"confirmed": True, "input": {"source": base_text}, "actual": repr(m)[:400], "expected": "module geom with 3 variables, 1 type, 1 subroutine, 1 function",
                "how": "base rendering vs model"}
    for v in variants():
        text = render(*v)
        try:
            t = tree(text)
        except Exception as e:
            return {"confirmed": True, "input": {"source": text, "variant": v}, "actual": f"{type(e).__name__}: {e}", "expected": "parses like the base spelling",
                    "how": f"real parser on variant {v}"}
        d = canon.diff(base, t)
        if d:
            return {"confirmed": True, "input": {"source": text, "base": base_text, "variant": v}, "actual": d, "expected": "same canonical entity tree as the base spelling",
                    "how": f"real parser: base spelling vs variant (kind spelling, attribute style, end style, '::', upper case) = {v}"}
    return search_rich() or enumerator_values() or common_members() or shadowed_members() or implicit_attributes() or namelist_groups()


def count_cases():
    return len(variants()) + len(rich_variants())

"""Bounded stand-in for C01: one abstract program rendered with every equivalent spelling; the canonical entity trees must agree
(and agree with the model)."""
from __future__ import annotations
import itertools
from bounded import realrun, canon

# declarations: (typespec variants by kind spelling, attributes, entities)
DECLS = [
    ({"paren": "real(8)", "star": "real*8", "kind": "real(kind=8)"}, ["dimension(3)", "intent(in)"], ["xa"]),
    ({"paren": "integer(4)", "star": "integer*4", "kind": "integer(kind=4)"}, ["optional", "intent(out)"], ["n"]),
    ({"paren": "character(10)", "star": "character*10", "kind": "character(len=10)"}, ["intent(inout)"], ["cs"]),
    ({"paren": "logical", "star": "logical", "kind": "logical"}, ["allocatable", "dimension(:)"], ["flags"]),
    ({"paren": "integer", "star": "integer", "kind": "integer"}, ["external"], ["callback"]),           # a dummy procedure given by type + EXTERNAL
]
MODVARS = [
    ({"paren": "real(8)", "star": "real*8", "kind": "real(kind=8)"}, ["parameter"], [("pi", "3.14d0")]),
    ({"paren": "integer", "star": "integer", "kind": "integer"}, ["save", "target"], [("counter", None)]),
    ({"paren": "integer(2)", "star": "integer*2", "kind": "integer(kind=2)"}, ["private"], [("z", None)]),
]


def render(kind_sp, attr_style, end_style, dcolon, upper):
    """attr_style: 'decl' (attributes on the declaration) | 'stmt' (separate attribute statements)"""
    L = []
    K = (lambda s: s.upper()) if upper else (lambda s: s)

    def decl(ts, attrs, ents, indent):
        names = ", ".join(e if isinstance(e, str) else (f"{e[0]} = {e[1]}" if e[1] and attr_style == "decl" else e[0]) for e in ents)
        if attr_style == "decl" or not attrs:
            sep = " :: " if (attrs or dcolon or any(not isinstance(e, str) and e[1] for e in ents)) else " "
            L.append(indent + K(ts[kind_sp]) + "".join(", " + K(a) for a in attrs) + sep + names)
        else:
            L.append(indent + K(ts[kind_sp]) + (" :: " if dcolon else " ") + ", ".join(e if isinstance(e, str) else e[0] for e in ents))
            for a in attrs:
                for e in ents:
                    nm = e if isinstance(e, str) else e[0]
                    if a.startswith("dimension"):
                        L.append(indent + K("dimension") + " " + nm + a[len("dimension"):])
                    elif a == "parameter":
                        L.append(indent + K("parameter") + " (" + nm + " = " + e[1] + ")")
                    else:
                        L.append(indent + K(a) + (" :: " if dcolon else " ") + nm)

    def end(kw, name, indent):
        L.append(indent + {"bare": K("end"), "kw": K("end " + kw), "named": K("end " + kw) + " " + name, "joined": K("end" + kw) + " " + name}[end_style])
    L.append(K("module") + " geom")
    L.append("  " + K("implicit none"))
    for ts, attrs, ents in MODVARS:
        decl(ts, attrs, ents, "  ")
    L.append("  " + K("type") + (" :: " if dcolon else " ") + "point")
    L.append("    " + K("real") + (" :: " if dcolon else " ") + "x")
    L.append("  " + {"bare": K("end type"), "kw": K("end type"), "named": K("end type") + " point", "joined": K("endtype") + " point"}[end_style])
    L.append(K("contains"))
    L.append("  " + K("subroutine") + " work(xa, n, cs, flags, callback)")
    for ts, attrs, ents in DECLS:
        decl(ts, attrs, ents, "    ")
    end("subroutine", "work", "  ")
    L.append("  " + K("pure function") + " area(r) " + K("result") + "(a)")
    decl({"paren": "real(8)", "star": "real*8", "kind": "real(kind=8)"}, ["intent(in)"], ["r"], "    ")
    decl({"paren": "real(8)", "star": "real*8", "kind": "real(kind=8)"}, ["target"], ["a"], "    ")           # an attribute of the result variable
    L.append("    a = 3.14d0 * r * r")
    end("function", "area", "  ")
    end("module", "geom", "")
    return "\n".join(L) + "\n"


def variants():
    return list(itertools.product(["paren", "star", "kind"], ["decl", "stmt"], ["bare", "kw", "named", "joined"], [True, False], [False, True]))


def tree(text):
    f = realrun.parse_source(text)
    return canon.sourcefile(f)


def search():
    base_v = ("paren", "decl", "named", True, False)
    base_text = render(*base_v)
    try:
        base = tree(base_text)
    except Exception as e:
        return {"confirmed": True, "input": {"source": base_text}, "actual": f"{type(e).__name__}: {e}", "expected": "parses", "how": "base rendering"}
    # the base tree must be the model
    m = base[0][0]
    if m[1] != "geom" or len(m[3][4]) != 1 or len(m[3][5]) != 1 or len(m[3][1]) != 1 or len(m[3][0]) != 3:
        return {"confirmed": True, "input": {"source": base_text}, "actual": repr(m)[:400], "expected": "module geom with 3 variables, 1 type, 1 subroutine, 1 function",
                "how": "base rendering vs model"}
    for v in variants():
        text = render(*v)
        try:
            t = tree(text)
        except Exception as e:
            return {"confirmed": True, "input": {"source": text, "variant": v}, "actual": f"{type(e).__name__}: {e}", "expected": "parses like the base spelling",
                    "how": f"real parser on variant {v}"}
        d = canon.diff(base, t)
        if d:
            return {"confirmed": True, "input": {"source": text, "base": base_text, "variant": v}, "actual": d, "expected": "same canonical entity tree as the base spelling",
                    "how": f"real parser: base spelling vs variant (kind spelling, attribute style, end style, '::', upper case) = {v}"}
    return None


def count_cases():
    return len(variants())

"""Bounded stand-in for C02 on the real FortranReader: enumerated line sequences over an alphabet of line kinds, compared with an
independent implementation of free-form statement assembly (comment stripping by the character-context automaton carried across
continued lines, continuation joining with FORD's single-blank rule, ';' splitting in code state)."""
from __future__ import annotations
import re
import itertools, os, random
from bounded import realrun
from harness import loader
from specs import lex

LINES = ["a = 1", "b = 'x", "b = 'x&", "w = 'p &", "y'", "&", "  & c", "d &", "&e &", "! com", "", "f; g", "s = '!;&' // &", "   t = \"it's\" ! c;d", "&  z'", "q = ''''", "& y' ! c", "&n''t' // 'x' ! c;d", "u = \"it's &", "&so\" ! c;d", "        & y' ! c", "          &y'; g ! c"]


class Invalid(Exception):
    pass


def oracle(lines):
    """list of statements, or raises Invalid for sequences outside free-form Fortran (dangling '&', unterminated literal...)"""
    out, buf, cont, state = [], "", False, lex.CODE
    for raw in lines:
        # strip the comment: first '!' read in code state, with the state carried over from the continued part
        g, cut = state, None
        if raw.strip().startswith("!") and (cont or state == lex.CODE):
            continue      # a comment line (also between the lines of a continued literal: F2008 3.3.2.4)
        for i, ch in enumerate(raw):
            if ch == "!" and g == lex.CODE:
                cut = i
                break
            g = lex.py_delta(g, ch)
        text = (raw if cut is None else raw[:cut]).strip()
        if text == "":
            if cont or state != lex.CODE:
                # blank / comment lines between continuation lines are allowed
                if cut is None and raw.strip() != "" and state != lex.CODE:
                    pass
            continue
        if text.startswith("&"):
            if not cont:
                if text == "&":
                    continue
                raise Invalid("leading & without continuation")
            text = text[1:]
            if text.strip() == "":
                continue
            piece = text
            joined = buf + piece
        else:
            if state != lex.CODE:
                raise Invalid("literal continued without leading &")
            piece = text
            joined = buf.strip() + " " + piece
        if piece.endswith("&") and lex.py_run(joined[:-1]) == lex.CODE:
            cont, buf = True, joined[:-1]
        elif piece.endswith("&"):
            # '&' inside a literal at the end of the line: character-context continuation
            cont, buf = True, joined[:-1]
        else:
            cont, buf = False, joined
        state = lex.py_run(buf)
        if not cont:
            if state != lex.CODE:
                raise Invalid("unterminated literal")
            out.extend(s.strip() for s in lex.py_split(";", buf) if len(s) > 0)
            buf = ""
    if cont or buf:
        raise Invalid("file ends inside a continued statement")
    return [s for s in out if s != ""]


def real(lines):
    rd = loader.import_repo("ford.reader")
    with realrun.project_dir({"t.f90": "\n".join(lines) + "\n"}) as d:
        return [l for l in rd.FortranReader(os.path.join(d, "t.f90"), docmark="@")]


def sequences(seed=0, maxlen=3, nrandom=400, randlen=5):
    for n in range(1, maxlen + 1):
        yield from itertools.product(LINES, repeat=n)
    rnd = random.Random(seed)
    for _ in range(nrandom):
        yield tuple(rnd.choice(LINES) for _ in range(randlen))


DOC_CASES = [       # (lines, expected stream) with docmark '!': documentation lines come out once each, whatever the layout of the statement they follow
    (["!! doc", "y = 1 + &", "", " 2"], ["!! doc", "y = 1 + 2"]),
    (["!! doc", "y = 1 + &", " 2"], ["!! doc", "y = 1 + 2"]),
    (["x = 1 !! inline", "y = 2 + &", "  ! ordinary", "  3"], ["x = 1", "!! inline", "y = 2 + 3"]),
    (["x = 'a&", "  &b' !! after the literal", "z = 0"], ["x = 'ab'", "!! after the literal", "z = 0"]),
    (["x = 1", "!! first", "", "!! second", "y = 2"], ["x = 1", "!! first", "!!", "!! second", "y = 2"]),
]


def doc_cases():
    rd = loader.import_repo("ford.reader")
    for lines, exp in DOC_CASES:
        with realrun.project_dir({"t.f90": "\n".join(lines) + "\n"}) as d:
            try:
                act = list(rd.FortranReader(os.path.join(d, "t.f90"), docmark="!"))
            except Exception as e:
                act = f"{type(e).__name__}: {e}"
        if act != exp:
            return {"confirmed": True, "input": lines, "actual": act, "expected": exp, "how": "real FortranReader with docmark '!': statements and documentation lines"}
    return None


LOOKAHEAD = [
    ["integer :: first; real :: second; logical :: third", "!! doc of the third one"],
    ["a = 1; b = 2; c = 3; d = 4", "e = 5"],
    ["x = 'p;q'; y = \"r;s\"; z = 3; w = 4"],
    ["a = 1; b = &", "  2; c = 3", "d = 4; e = 5; f = 6"],
]


def lookahead_cases():
    """the parser reads one statement ahead after every declaration (read_docstring) and hands it back with pass_back(): the stream seen through
    next() + pass_back() must be the plain stream"""
    rd = loader.import_repo("ford.reader")
    for lines in LOOKAHEAD:
        with realrun.project_dir({"t.f90": "\n".join(lines) + "\n"}) as d:
            path = os.path.join(d, "t.f90")
            plain = list(rd.FortranReader(path, docmark="!"))
            r = rd.FortranReader(path, docmark="!")
            seen = []
            try:
                while True:
                    seen.append(next(r))
                    try:
                        ahead = next(r)
                    except StopIteration:
                        break
                    r.pass_back(ahead)
            except StopIteration:
                pass
            except Exception as e:
                seen = f"{type(e).__name__}: {e}"
        if seen != plain:
            return {"confirmed": True, "input": lines, "actual": seen, "expected": plain,
                    "how": "real FortranReader: next() followed by a one-statement look-ahead handed back with pass_back(), vs plain iteration"}
    return None


LITERALS = ["''", "'a'", "'ab, c'", "'hello, world'", '"x"', '"it\'s, so"', "'a, b'", "'6\" wide, 2\" deep'", "'call helper(1), go'", '"a""b, c"', "'xxxx'", "'!;&'", "'(a,i0,1x)'", '"x,y;z"']


def parser_literal_cases():
    """two character literals in one statement, at every distance the pool gives: the parser (placeholder masking in FortranContainer.__init__, re-insertion in
    line_to_variables) must give back both initial values verbatim and declare nothing else"""
    for l1 in LITERALS:
        for l2 in LITERALS:
            src = f"module m\n  character(len=*), parameter :: g = {l1}, s = {l2}\n  integer :: after\nend module m\n"
            try:
                f = realrun.parse_source(src)
                got = [(v.name, v.initial) for v in f.modules[0].variables]
            except Exception as e:
                got = f"{type(e).__name__}: {e}"
            exp = [("g", l1), ("s", l2), ("after", None)]
            if got != exp:
                return {"confirmed": True, "input": {"source": src}, "actual": got, "expected": exp, "how": "real parser: (name, initial value) of the declared variables"}
    # literals in attributes and in a length expression come back as well
    src = ("module m\n  use iso_c_binding\n  integer(c_int), bind(C, name=\"Foo_Bar\") :: cvar\n  character(len=len('ab;c')) :: s\n  integer, dimension(len(\"q!r\")) :: d\n  character(len=max(len('short'), len(\"a much longer text\"))) :: b2\n  character(kind=merge(kind('a'), kind(\"bb\"), .true.), len=2) :: k2\n  character*(len('x;y')) :: st\nend module m\n")
    try:
        f = realrun.parse_source(src)
        got = [(v.name, v.attribs, v.strlen) for v in f.modules[0].variables]
    except Exception as e:
        got = f"{type(e).__name__}: {e}"
    exp = [("cvar", ['bind(C, name="Foo_Bar")'], None), ("s", [], "len('ab;c')"), ("d", ['dimension(len("q!r"))'], None), ("b2", [], "max(len('short'),len(\"a much longer text\"))"), ("k2", [], "2"), ("st", [], "len('x;y')")]
    if got != exp:
        return {"confirmed": True, "input": {"source": src}, "actual": got, "expected": exp, "how": "real parser: (name, attributes, character length) of the declared variables"}
    # ... and in the prefix of a function statement (the statement's literals are collected by the container that read it)
    src = "module m\ncontains\n  character(len=len('abc')) function f()\n    f = 'abc'\n  end function f\n  character(kind=kind('a'), len=2) function g()\n    g = 'ab'\n  end function g\nend module m\n"
    try:
        fns = realrun.parse_source(src).modules[0].functions
        got = [(x.name, x.retvar.strlen, x.retvar.kind) for x in fns]
    except Exception as e:
        got = f"{type(e).__name__}: {e}"
    exp = [("f", "len('abc')", None), ("g", "2", "kind('a')")]
    if got != exp:
        return {"confirmed": True, "input": {"source": src}, "actual": got, "expected": exp, "how": "real parser: (name, length, kind) of function results typed in the prefix with a literal in the type parameters"}
    # a BIND statement: the binding label is a literal - its letters, blanks and commas are the user's
    src = "module m\n  integer :: counter\n  bind(C, name=\"My Counter; v2 ! & it's\") :: counter\nend module m\n"
    try:
        got = [a for v in realrun.parse_source(src).modules[0].variables for a in v.attribs]
    except Exception as e:
        got = f"{type(e).__name__}: {e}"
    if not (isinstance(got, list) and any("My Counter; v2 ! & it's" in a for a in got)):
        return {"confirmed": True, "input": {"source": src}, "actual": got, "expected": "an attribute bind(..., name=\"My Counter; v2 ! & it's\") with the label as written", "how": "real parser: attributes given to a variable by a BIND statement"}
    # a PARAMETER statement: the values are separated at the commas and parentheses of the statement, never at those inside a literal
    src = "module m\n  character(len=2) :: sep\n  character(len=2) :: opn\n  integer :: n\n  parameter (sep = ', ', opn = '(=', n = 3)\nend module m\n"
    try:
        got = [(v.name, v.initial) for v in realrun.parse_source(src).modules[0].variables]
    except Exception as e:
        got = f"{type(e).__name__}: {e}"
    exp = [("sep", "', '"), ("opn", "'(='"), ("n", "3")]
    if got != exp:
        return {"confirmed": True, "input": {"source": src}, "actual": got, "expected": exp, "how": "real parser: (name, value) of constants named in a PARAMETER statement with `,` and `(` inside literals"}
    # the `lower` option lower-cases code, never the text of a literal
    src = ("module m\n  CHARACTER(len=*), PARAMETER :: Greeting = 'Hello; World ! \"Not\" A Comment & More', Name = \"Worker_C_Name\"\n  character(len=8) :: Late\n"
           "  parameter (Late = 'Mixed Up')\nend module m\n")
    try:
        f = realrun.parse_source(src, lower=True)
        got = [(v.name, v.initial) for v in f.modules[0].variables]
    except Exception as e:
        got = f"{type(e).__name__}: {e}"
    exp = [("greeting", "'Hello; World ! \"Not\" A Comment & More'"), ("name", '"Worker_C_Name"'), ("late", "'Mixed Up'")]
    if got != exp:
        return {"confirmed": True, "input": {"source": src, "settings": {"lower": True}}, "actual": got, "expected": exp,
                "how": "real parser with the `lower` option: (name, initial value) of the declared variables"}
    return None


def search(seed=0, nrandom=400, randlen=5):
    hit = doc_cases() or lookahead_cases() or parser_literal_cases() or include_and_doc_layouts()
    if hit:
        return hit
    for seq in sequences(seed, nrandom=nrandom, randlen=randlen):
        try:
            exp = oracle(seq)
        except Invalid:
            continue
        try:
            act = real(seq)
        except Exception as e:
            act = f"{type(e).__name__}: {e}"
        if act != exp:
            return {"confirmed": True, "input": list(seq), "actual": act, "expected": exp,
                    "how": "real FortranReader on an enumerated line sequence vs the executable free-form assembly rules"}
    return None


def count_cases(seed=0, nrandom=400, randlen=5):
    n = v = 0
    for seq in sequences(seed, nrandom=nrandom, randlen=randlen):
        n += 1
        try:
            oracle(seq)
            v += 1
        except Invalid:
            pass
    return n, v


def include_and_doc_layouts():
    """an INCLUDE line is expanded wherever it stands on its source line (first, or after a `;`), and a documentation line that follows a statement which takes no documentation
    (`use`, `implicit none`) keeps its quoted words"""
    inc = "integer :: b = 2\n  !! doc of b\n"
    one = "module m\n  implicit none\n  integer :: a = 1\n  include 'decl.inc'\n  integer :: c = 3\nend module m\n"
    semi = "module m\n  implicit none\n  integer :: a = 1; include 'decl.inc'; integer :: c = 3\nend module m\n"
    got = {}
    sf = loader.import_repo("ford.sourceform")
    st = loader.import_repo("ford.settings")
    import io, contextlib
    for label, text in (("one statement per line", one), ("INCLUDE after a ';'", semi)):
        realrun.reset_names()
        with realrun.project_dir({"m.f90": text, "decl.inc": inc}) as d:
            try:
                with contextlib.redirect_stdout(io.StringIO()), contextlib.redirect_stderr(io.StringIO()):
                    f = sf.FortranSourceFile(os.path.join(d, "m.f90"), st.ProjectSettings(preprocess=False, quiet=True, warn=False))
                got[label] = [(v.name, [x.strip() for x in v.doc_list]) for v in f.modules[0].variables]
            except Exception as e:
                got[label] = f"{type(e).__name__}: {e}"
    want = [("a", []), ("b", ["doc of b"]), ("c", [])]
    for label, g in got.items():
        if g != want:
            return {"confirmed": True, "input": {"source": one if label.startswith("one") else semi, "decl.inc": inc}, "actual": g, "expected": want,
                    "how": f"real parser, {label}: (name, documentation) of the module's variables"}
    # an include file that holds no statement (comments only) leaves the statements around it alone, wherever its INCLUDE line stands
    for text, wantv in (("module m\n  implicit none\n  integer :: a\n  include 'empty.inc'\n  integer :: c\nend module m\n", ["a", "c"]),
                        ("module m\n  implicit none\n  integer :: a; include 'empty.inc'; include 'decl.inc'\n  include 'empty.inc'\nend module m\n", ["a", "b"])):
        realrun.reset_names()
        with realrun.project_dir({"m.f90": text, "empty.inc": "! only a comment\n\n", "decl.inc": "integer :: b\n"}) as d:
            try:
                with contextlib.redirect_stdout(io.StringIO()), contextlib.redirect_stderr(io.StringIO()):
                    f = sf.FortranSourceFile(os.path.join(d, "m.f90"), st.ProjectSettings(preprocess=False, quiet=True, warn=False))
                gotv = [v.name for v in f.modules[0].variables]
            except Exception as e:
                gotv = f"{type(e).__name__}: {e}"
        if gotv != wantv:
            return {"confirmed": True, "input": {"source": text, "empty.inc": "! only a comment", "decl.inc": "integer :: b"}, "actual": gotv, "expected": wantv,
                    "how": "real parser: variables of a module that includes a file without statements"}
    # an ordinary comment line between the lines of a continued character literal is skipped wherever it starts
    rd = loader.import_repo("ford.reader")
    res = {}
    for label, ind in (("column 1", ""), ("indented", "   "), ("tab", "\t")):
        text = f"x = 'abc&\n{ind}! a comment\n   &def'\ny = 1\n"
        with realrun.project_dir({"t.f90": text}) as d:
            try:
                res[label] = list(rd.FortranReader(os.path.join(d, "t.f90")))
            except Exception as e:
                res[label] = f"{type(e).__name__}: {e}"
    if any(v != ["x = 'abcdef'", "y = 1"] for v in res.values()):
        return {"confirmed": True, "input": {"layouts": "x = 'abc& / <indent>! a comment / &def'"}, "actual": res, "expected": ["x = 'abcdef'", "y = 1"], "how": "real FortranReader: a comment line inside a continued literal"}
    # indentation is layout: an alternate-mark block (`!*` then plain `!` lines) reads the same in column 1 and indented
    res = {}
    for label, ind in (("column 1", ""), ("indented", "   "), ("tab", "\t")):
        text = f"subroutine s(a)\n{ind}!* alternate block about s\n{ind}! goes on here\n{ind}! and here\n{ind}integer a\nend subroutine s\n"
        with realrun.project_dir({"t.f90": text}) as d:
            try:
                res[label] = [re.sub(r"\s+", " ", l).strip() for l in rd.FortranReader(os.path.join(d, "t.f90"), docmark="!", predocmark=">", docmark_alt="*", predocmark_alt="|")]
            except Exception as e:
                res[label] = f"{type(e).__name__}: {e}"
    if len({repr(v) for v in res.values()}) != 1 or not any("goes on here" in l for l in res["column 1"]):
        return {"confirmed": True, "input": {"layouts": "an alternate-mark doc block in column 1, indented by blanks, indented by a tab"}, "actual": res, "expected": "the same lines for the three layouts, block lines kept",
                "how": "real FortranReader with the default marks"}
    src = ("module m\n  use iso_fortran_env\n  !! Set mode to \"fast\" or 'safe', don't mix\n  implicit none\n  !! it's 'quoted' again\n  integer :: x\nend module m\n")
    try:
        m = realrun.parse_source(src).modules[0]
        docs = [x.strip() for x in m.doc_list]
    except Exception as e:
        docs = f"{type(e).__name__}: {e}"
    wantd = ["Set mode to \"fast\" or 'safe', don't mix", "it's 'quoted' again"]
    if docs != wantd:
        return {"confirmed": True, "input": {"source": src}, "actual": docs, "expected": wantd, "how": "real parser: documentation lines of a module that stand after `use` / `implicit none`"}
    return None

"""Bounded stand-in for C14: the same token-level program rendered in fixed form (column rules, continuation in column 6, labels,
comment styles, sequence field) and in free form must give the same statement / doc-line stream from the real FortranReader."""
from __future__ import annotations
import itertools, os, random, re
from bounded import realrun
from harness import loader

STATEMENTS = [
    ["program", "p"],
    ["integer", "::", "a", ",", "b", ",", "c"],
    ["a", "=", "b", "+", "c", "*", "(", "a", "-", "1", ")"],
    ["call", "sub", "(", "a", ",", "b", ",", "'x y'", ")"],
    ["if", "(", "a", ">", "b", ")", "a", "=", "0"],
    ["end", "program", "p"],
]
LABELS = {2: "100", 4: "20"}


def layout(stmts, docs, breaks, comment_style, inline_doc):
    """abstract layout shared by both renderings: list of items
       ('stmt', label, [token lists], inline doc or None) | ('comment', text) | ('blank',) | ('doc', text)"""
    items = []
    for i, toks in enumerate(stmts):
        parts = [toks]
        if i in breaks and 0 < breaks[i] < len(toks):
            parts = [toks[: breaks[i]], toks[breaks[i]:]]
        doc = "doc for statement %d" % i if i in docs else None
        items.append(("stmt", LABELS.get(i, ""), parts, doc if inline_doc else None, bool(comment_style) and len(parts) > 1))
        if doc and not inline_doc:
            items.append(("doc", doc))
        if comment_style and i % 2 == 0:
            items.append(("comment", "plain comment"))
            items.append(("blank",))
    return items


def render_free(items):
    out = []
    for it in items:
        if it[0] == "stmt":
            _, lab, parts, doc, mid = it
            for j, part in enumerate(parts):
                text = ((lab + " ") if (lab and j == 0) else "") + " ".join(part)
                if j < len(parts) - 1:
                    text += " &"
                elif doc:
                    text += " !! " + doc
                out.append(text)
                if j == 0 and mid:
                    out.append("! an ordinary comment between continuation lines")
        elif it[0] == "doc":
            out.append("!! " + it[1])
        elif it[0] == "comment":
            out.append("! " + it[1])
        else:
            out.append("")
    return "\n".join(out) + "\n"


def render_fixed(items, cont_char, comment_style, seqfield):
    lines = []
    for it in items:
        if it[0] == "stmt":
            _, lab, parts, doc, mid = it
            for j, part in enumerate(parts):
                head = (lab.ljust(5) + " ") if j == 0 else ("     " + cont_char)
                text = head + " ".join(part)
                if doc and j == len(parts) - 1:
                    text += " !! " + doc
                if seqfield:
                    text = text.ljust(72) + "SEQ%05d" % len(lines)
                lines.append(text)
                if j == 0 and mid:
                    lines.append(comment_style + " an ordinary comment between continuation lines")
        elif it[0] == "doc":
            lines.append("!! " + it[1])
        elif it[0] == "comment":
            lines.append((comment_style or "!") + " " + it[1])
        else:
            lines.append("")
    return "\n".join(lines) + "\n"


def norm(lines):
    return [re.sub(r"\s+", " ", l).strip() for l in lines]


def read(text, fixed, length_limit=True, **marks):
    rd = loader.import_repo("ford.reader")
    with realrun.project_dir({"t.f": text}) as d:
        return norm(list(rd.FortranReader(os.path.join(d, "t.f"), docmark="!", fixed=fixed, length_limit=length_limit, **marks)))


def cases(seed=0, extra_random=40, keep_n=400):
    docs = {1, 3}
    base = []
    for cont_char, comment_style, seqfield, inline_doc in itertools.product(["&", "1", "x", "$"], ["", "c", "C", "*", "!"], [False, True], [False, True]):
        for si in (1, 2, 3, 4):
            for bi in range(1, len(STATEMENTS[si])):
                base.append((dict([(si, bi)]), cont_char, comment_style, seqfield, inline_doc))
    rnd = random.Random(seed)
    rnd.shuffle(base)
    keep = base[:keep_n]
    for k in keep:
        yield (docs,) + k


def known_case():
    """KNOWN FINDING C14-seqfield-inline-doc: sequence-field text (columns 73+) is turned into a trailing '!' comment and so becomes part
    of an inline doc comment on the same line"""
    items = layout(STATEMENTS, {1}, {}, "", True)
    fixed = render_fixed(items, "&", "", True)
    a, b = read(render_free(items), False), read(fixed, True, True)
    if a != b:
        return {"confirmed": True, "input": {"fixed": fixed}, "actual": [x for x in b if x not in a], "expected": [x for x in a if x not in b],
                "how": "real FortranReader(fixed=True, length_limit=True) on a line with an inline doc comment and text in columns 73+"}
    return None


def limit_off_case():
    """with the column-72 limit switched off, code beyond column 72 is code: the same statements as the free-form rendering"""
    long_decl = "      integer :: first_counter, second_counter, third_counter, fourth_counter, fifth_counter"
    assert len(long_decl) > 80
    fixed = "      module wide\n" + long_decl + "\n      end module wide\n"
    free = "module wide\ninteger :: first_counter, second_counter, third_counter, fourth_counter, fifth_counter\nend module wide\n"
    a, b = read(free, False), read(fixed, True, False)
    if a != b:
        return {"confirmed": True, "input": {"fixed": fixed, "length_limit": False}, "actual": b, "expected": a,
                "how": "real FortranReader(fixed=True, length_limit=False) on a declaration that runs past column 72"}
    # ... and with the limit on, the same line is cut at column 72
    c = read(fixed, True, True)
    if c == a:
        return {"confirmed": True, "input": {"fixed": fixed, "length_limit": True}, "actual": c, "expected": "text beyond column 72 ignored",
                "how": "real FortranReader(fixed=True, length_limit=True)"}
    return None


def inline_comment_on_continued_line():
    """an inline comment (ordinary or doc) on a line that is continued by the next one: the continuation must survive, and '!' inside a literal is not a comment"""
    fixed = ("      subroutine foo(a,  ! first\n     &  b)\n      integer a,  !! doc a\n     & b\n      character(8) :: s = 'x!y'  ! c\n      s = 'abc' //   ! note\n     &  'd!e'\n"
             "      end subroutine foo\n")
    free = "subroutine foo(a, &  ! first\n  b)\ninteger a, &  !! doc a\n b\ncharacter(8) :: s = 'x!y'  ! c\ns = 'abc' // &  ! note\n  'd!e'\nend subroutine foo\n"
    try:
        a, b = read(free, False), read(fixed, True, True)
    except Exception as e:
        return {"confirmed": True, "input": {"fixed": fixed}, "actual": f"{type(e).__name__}: {e}", "expected": "parses", "how": "real FortranReader(fixed=True)"}
    if a != b:
        return {"confirmed": True, "input": {"fixed": fixed, "free": free}, "actual": b, "expected": a, "how": "real FortranReader(fixed=True) vs the free-form rendering; inline comments on continued lines"}
    return None


def search(seed=0, keep_n=400):
    hit = limit_off_case() or inline_comment_on_continued_line() or preprocessed_fixed_case() or preprocessed_by_extension() or comment_lines_between_continuations() or included_fixed_form() or alternate_block_then_blank_line()
    if hit:
        return hit
    n = 0
    for docs, breaks, cont_char, comment_style, seqfield, inline_doc in cases(seed, keep_n=keep_n):
        if seqfield and inline_doc:
            continue        # the known finding, reported separately
        n += 1
        items = layout(STATEMENTS, docs, breaks, comment_style, inline_doc)
        free = render_free(items)
        fixed = render_fixed(items, cont_char, comment_style, seqfield)
        try:
            a = read(free, False)
            b = read(fixed, True, True)
        except Exception as e:
            return {"confirmed": True, "input": {"fixed": fixed}, "actual": f"{type(e).__name__}: {e}", "expected": a if 'a' in dir() else None,
                    "how": "real FortranReader on a generated fixed-form file"}
        if a != b:
            return {"confirmed": True, "input": {"fixed": fixed, "free": free}, "actual": b, "expected": a,
                    "how": "real FortranReader(fixed=True) vs FortranReader on the free-form rendering of the same token program"}
    return None


def count_cases(seed=0, keep_n=400):
    return sum(1 for _ in cases(seed, keep_n=keep_n))


def preprocessed_fixed_case():
    """a fixed-form file that goes through the preprocessor first (extension in both fixed_extensions and fpp_extensions, e.g. .F): the preprocessor's output is
    fixed form too and must be converted like the file itself"""
    import os
    fixed = ("      subroutine foo(a,\n     &  b)\nC     an old-style comment line\n      integer a,\n     & b\n      a = 1\n      end subroutine foo\n")
    free = "subroutine foo(a, &\n  b)\ninteger a, &\n b\na = 1\nend subroutine foo\n"
    rd = loader.import_repo("ford.reader")
    want = read(free, False)
    with realrun.project_dir({"t.F": fixed}) as d:
        import contextlib, io
        try:
            with contextlib.redirect_stdout(io.StringIO()):
                got = [l for l in rd.FortranReader(os.path.join(d, "t.F"), fixed=True, length_limit=True, preprocessor=["pcpp", "-D__GFORTRAN__", "--passthru-comments"])]
        except Exception as e:
            got = f"{type(e).__name__}: {e}"
    norm = lambda L: [re.sub(r"\s+", " ", x).strip() for x in L] if isinstance(L, list) else L
    if norm(got) != norm(want):
        return {"confirmed": True, "input": {"fixed": fixed, "preprocessor": "pcpp"}, "actual": got, "expected": want,
                "how": "real FortranReader(fixed=True, preprocessor=[pcpp ...]) on a fixed-form .F file vs the free-form rendering"}
    return None


def comment_lines_between_continuations():
    """a line of blanks (longer than six characters) and a comment line whose '!' stands in column 7 or later are comment lines: between a statement and its continuation
    line they change nothing"""
    fixed = ("      subroutine s(a,\n          \n      ! a comment\n     &  b)\n      integer a,\n            ! about b\n     &        b\n      end subroutine s\n")
    free = "subroutine s(a, &\n\n  ! a comment\n  b)\ninteger a, &\n  ! about b\n  b\nend subroutine s\n"
    try:
        a, b = read(free, False), read(fixed, True, True)
    except Exception as e:
        return {"confirmed": True, "input": {"fixed": fixed}, "actual": f"{type(e).__name__}: {e}", "expected": "reads like the free-form rendering", "how": "real FortranReader(fixed=True)"}
    if a != b:
        return {"confirmed": True, "input": {"fixed": fixed, "free": free}, "actual": b, "expected": a,
                "how": "real FortranReader(fixed=True) vs the free-form rendering: blank and comment lines between continuation lines"}
    return None


def included_fixed_form():
    """a file pulled in with INCLUDE from a fixed-form source is fixed form too (comment lines, column-6 continuation, columns 73+)"""
    import contextlib, io
    inc = ("C     declarations kept in an include file\n      integer n\n      real tol,\n     &     eps\n      real work(10)                                                     DECL0010\n")
    fixed = "      subroutine s(n, tol)\n      include 'decls.inc'\n      end subroutine s\n"
    free = "subroutine s(n, tol)\ninteger n\nreal tol, &\n  eps\nreal work(10)\nend subroutine s\n"
    rd = loader.import_repo("ford.reader")
    want = read(free, False)
    with realrun.project_dir({"t.f": fixed, "decls.inc": inc}) as d:
        try:
            with contextlib.redirect_stdout(io.StringIO()):
                got = norm(list(rd.FortranReader(os.path.join(d, "t.f"), docmark="!", fixed=True, length_limit=True)))
        except Exception as e:
            got = f"{type(e).__name__}: {e}"
    if got != want:
        return {"confirmed": True, "input": {"fixed": fixed, "decls.inc": inc}, "actual": got, "expected": want,
                "how": "real FortranReader(fixed=True) on a file that INCLUDEs fixed-form declarations vs the free-form rendering"}
    return None


def form_by_extension():
    """the source form of a file follows from its extension alone: every extension of `fixed_extensions` (f, for, F, FOR with the defaults) is read as fixed form, whether or not it
    is also one of the extensions sent through the preprocessor; everything else as free form"""
    fixed = "      module legacy_{0}\n      integer n{0},\nC     an old-style comment line\n     &        k{0}\n      end module legacy_{0}\n"
    free = "module modern_{0}\n  integer :: m{0}, &  ! free form: text may start in column 1\nj{0}\nend module modern_{0}\n"
    exts_fixed, exts_free = ["f", "for", "F", "FOR"], ["f90", "F90", "f95", "f03", "f08"]
    files = {f"src/legacy_{k}.{e}": fixed.format(k) for k, e in enumerate(exts_fixed)}
    files.update({f"src/modern_{k}.{e}": free.format(k) for k, e in enumerate(exts_free)})
    try:
        proj = realrun.build_project(files, preprocess=False, dbg=True)
        got = sorted((m.name, [v.name for v in m.variables]) for m in proj.modules)
    except Exception as e:
        got = f"{type(e).__name__}: {e}"
    want = sorted([(f"legacy_{k}", [f"n{k}", f"k{k}"]) for k in range(len(exts_fixed))] + [(f"modern_{k}", [f"m{k}", f"j{k}"]) for k in range(len(exts_free))])
    if got != want:
        return {"confirmed": True, "input": {"files": files}, "actual": got, "expected": want, "how": "real Project with the default extension lists: modules found in fixed-form files of every fixed extension and free-form files of every free one"}
    return None


def preprocessed_by_extension():
    """a file whose extension is both a fixed-form and a preprocessed one (.F, .FOR with the defaults) goes through the preprocessor like its free-form twin (.F90):
    the same conditional code is documented"""
    import shutil
    pcpp = shutil.which("pcpp") or "/venv/bin/pcpp"
    if not os.path.exists(pcpp):
        return None
    fixed = ("      subroutine relax(tol)\n#ifdef USE_DOUBLE\n      double precision tol\n#else\n      real tol\n#endif\n      end subroutine relax\n#ifdef WITH_DIAG\n      subroutine diag()\n      end subroutine diag\n#endif\n")
    free = ("subroutine relax90(tol)\n#ifdef USE_DOUBLE\n  double precision tol\n#else\n  real tol\n#endif\nend subroutine relax90\n#ifdef WITH_DIAG\nsubroutine diag90()\nend subroutine diag90\n#endif\n")
    try:
        proj = realrun.build_project({"src/solver.F": fixed, "src/solver90.F90": free}, preprocess=True, preprocessor=f"{pcpp} -D__GFORTRAN__ --passthru-comments", macro=["USE_DOUBLE=1"])
        got = sorted((p.name, [a.full_type for a in p.args]) for p in proj.procedures)
    except Exception as e:
        got = f"{type(e).__name__}: {e}"
    want = [("relax", ["double precision"]), ("relax90", ["double precision"])]
    if got != want:
        return {"confirmed": True, "input": {"files": {"src/solver.F": fixed, "src/solver90.F90": free}, "macro": "USE_DOUBLE=1"}, "actual": got, "expected": want,
                "how": "real Project with preprocessing on: procedures and argument types documented for a fixed-form .F file and its free-form .F90 twin"}
    return None


def alternate_block_then_blank_line():
    """a blank line (empty, or blanks only) ends a block of alternate-marker documentation in fixed form as it does in free form: the ordinary comments after it are not documentation"""
    for blank in ("", "          "):
        fixed = f"      subroutine foo(a)\nC*    alternate block about foo\nC     goes on here\n{blank}\nC     Implementation note: not documentation\n*     neither is this\n      integer a\n      end subroutine foo\n"
        free = f"subroutine foo(a)\n!* alternate block about foo\n! goes on here\n{blank}\n! Implementation note: not documentation\n! neither is this\ninteger a\nend subroutine foo\n"
        try:
            marks = dict(predocmark=">", docmark_alt="*", predocmark_alt="|")      # the default marks of the settings
            a, b = read(free, False, **marks), read(fixed, True, True, **marks)
        except Exception as e:
            return {"confirmed": True, "input": {"fixed": fixed}, "actual": f"{type(e).__name__}: {e}", "expected": "reads like the free-form rendering", "how": "real FortranReader(fixed=True)"}
        if a != b or not any("alternate block" in l for l in a) or any("Implementation note" in l for l in a):
            return {"confirmed": True, "input": {"fixed": fixed, "free": free}, "actual": b, "expected": a,
                    "how": "real FortranReader(fixed=True) vs the free-form rendering: an alternate documentation block, a blank line, ordinary comments"}
    return None

"""Bounded stand-in for C17: page directories are generated, the real FORD is run end to end, and the files under <output>/page are compared with an
independent model of the documented rules (title required; index.md makes a directory a sub-tree; ordered_subpage first, then alphabetical; hidden and
backup names skipped; other files and copy_subdir directories copied next to their pages); navigation order and every link / image of the static pages
are checked from the written HTML."""
from __future__ import annotations
import os, re, random
from bounded import site

SRC = {"src/m.f90": "module m\n  !! doc\n  integer :: x\ncontains\n  subroutine s()\n  end subroutine s\nend module m\n"}


def page(title, body="text\n", ordered=(), copy=(), extra=""):
    head = "" if title is None else f"title: {title}\n"
    head += "".join(f"ordered_subpage: {o}\n" for o in ordered) + "".join(f"copy_subdir: {c}\n" for c in copy) + extra
    return f"---\n{head}---\n\n{body}"


TREES = {
    "basic": ({
        "index.md": page("Root", "see [A](a.html) and [C](sub/c.html) and [[m]] ![logo](|media|/logo.png) [abs](|page|/sub/index.html) [home](|url|/index.html) [top](|url|)\n"),
        "a.md": page("A", "back [root](index.html) [[s]]\n"), "b.md": page("B"), "notes.txt": "plain", ".hidden.md": page("Hidden"), "backup.md~": page("Backup"),
        "untitled.md": "just text without metadata\n", "sub/index.md": page("Sub", "up [root](../index.html) ![i](img.png) [[m]]\n"), "sub/c.md": page("C", "[up](index.html) [top](../a.html) ![logo](|media|/logo.png)\n"),
        "sub/img.png": "png", "nodir/x.md": page("X"), "nodir/data.bin": "bin"}, ""),
    "ordered": ({
        "index.md": page("Root", ordered=("zeta.md", "sub2", "index.md")), "alpha.md": page("Alpha"), "beta.md": page("Beta"), "zeta.md": page("Zeta"),
        "sub1/index.md": page("Sub1", ordered=("y.md",)), "sub1/x.md": page("X1"), "sub1/y.md": page("Y1"), "sub2/index.md": page("Sub2"), "sub2/w.md": page("W2")}, ""),
    "ordered with a repeated entry": ({
        "index.md": page("Root", ordered=("zeta.md", "sub", "zeta.md", "sub")), "alpha.md": page("Alpha"), "zeta.md": page("Zeta"), "sub/index.md": page("Sub"), "sub/k.md": page("K")}, ""),
    "ordered with the same entry spelt three ways": ({
        "index.md": page("Root", ordered=("zeta.md", "sub/", "./beta.md", "sub", "./index.md")), "alpha.md": page("Alpha"), "beta.md": page("Beta"), "zeta.md": page("Zeta"),
        "sub/index.md": page("Sub"), "sub/k.md": page("K")}, ""),
    "ordered entry naming a file below a sub-directory": ({
        "index.md": page("Root", ordered=("sub/x.md", "b.md")), "a.md": page("A"), "b.md": page("B"), "sub/index.md": page("Sub"), "sub/x.md": page("X"), "sub/y.md": page("Y")}, ""),
    "dotted names": ({"index.md": page("Root"), "a.md": page("A plain"), "a.b.md": page("A dot B"), "release.1.2.md": page("Release")}, ""),
    "copy_subdir in metadata": ({
        "index.md": page("Root", "![p](plots/p.png)\n", copy=("images", "plots")), "images/i.png": "i", "plots/p.png": "p", "plots/deep/q.png": "q", "media/m.png": "m",
        "guide/index.md": page("Guide"), "guide/usage.md": page("Usage", "![f](usage_figs/fig1.txt)\n", copy=("usage_figs",)), "guide/usage_figs/fig1.txt": "fig"}, ""),
    "project-level copy_subdir": ({
        "index.md": page("Root", copy=("images",)), "images/i.png": "i", "media/top.png": "t", "t1/index.md": page("T1"), "t1/media/m1.png": "m1",
        "t2/index.md": page("T2", "![m](media/m2.png)\n"), "t2/media/m2.png": "m2"}, "copy_subdir: media\n"),
    "three levels": ({
        "index.md": page("Root", "[deep](l1/l2/leaf.html)\n"), "l1/index.md": page("L1", "[down](l2/index.html) [up](../index.html)\n"), "l1/l2/index.md": page("L2", "[top](../../index.html) ![logo](|media|/logo.png)\n"),
        "l1/l2/leaf.md": page("Leaf", "[root](|page|/index.html) [l1](../index.html) [[m]] [[s]] [docs](|url|)\n"), "l1/l2/pic.svg": "<svg/>", "l1/side.md": page("Side", "[leaf](l2/leaf.html)\n")}, ""),
    "aliases in raw html": ({
        "index.md": page("Root", "<div align=\"center\"><img src=\"|media|/logo.png\" width=\"200\"></div>\n\ninline <a href=\"|page|/deep/index.html\">deep</a> and <img src='|media|/logo.png' height=\"10\"> here\n"),
        "deep/index.md": page("Deep", "<div align=\"center\"><img src=\"|media|/logo.png\" width=\"200\"></div>\n\n<p>back <a href=\"|page|/index.html\">root</a>, <a href=\"|url|/index.html\">home</a></p>\n"),
        "deep/er/index.md": page("Deeper", "<table><tr><td><img src=\"|media|/logo.png\"></td><td><a href=\"|page|/deep/index.html\">up</a></td></tr></table>\n\ntext <img src=\"|media|/logo.png\" width=\"5\"> end\n")}, ""),
    "latin-1 pages": ({
        "index.md": page("Root", "caf\u00e9 root\n").encode("latin-1"), "umlaut.md": page("Umlaut", "gr\u00fc\u00dfe [root](index.html)\n").encode("latin-1"),
        "sub/index.md": page("Sub", "na\u00efve\n").encode("latin-1"), "sub/deep.md": page("Deep", "\u00e5ngstr\u00f6m\n").encode("latin-1")}, "encoding: latin-1\n"),
    "copy_subdir list with entries that are missing for some pages": ({
        "index.md": page("Root", copy=("drafts", "figs")), "figs/f.png": "f", "guide/index.md": page("Guide"), "guide/data/d.bin": "d"}, "copy_subdir: images\n             data\n"),
    "a page directory named like a copy_subdir entry of the directory above": ({
        "index.md": page("Root", copy=("images",)), "images/logo.png": "l", "sub/index.md": page("Sub"), "sub/images/index.md": page("Gallery"), "sub/images/one.md": page("One"), "sub/images/pic.png": "p"}, ""),
    "sub-directory whose index has no title": ({
        "index.md": page("Root"), "good.md": page("Good"), "broken/index.md": "no metadata here\n", "broken/inner.md": page("Inner"), "z.md": page("Z")}, ""),
}


def meta_of(text):
    if isinstance(text, bytes):
        text = text.decode("latin-1")
    m = re.match(r"---\n(.*?)---\n", text, re.S)
    d = {"title": None, "ordered_subpage": [], "copy_subdir": []}
    if m:
        for line in m.group(1).splitlines():
            k, _, v = line.partition(":")
            k, v = k.strip(), v.strip()
            if k == "title":
                d["title"] = v
            elif k in ("ordered_subpage", "copy_subdir"):
                d[k].append(v)
    return d


def model(tree, proj_copy):
    """-> (ordered list of (page path, title), set of copied files) per the documented rules"""
    dirs = {}
    for p in tree:
        parts = p.split("/")
        for i in range(len(parts)):
            dirs.setdefault("/".join(parts[:i]), set()).add(parts[i])
    pages, copied = [], set()

    def files_under(d):
        return [p for p in tree if p.startswith(d + "/")]

    def copy_dirs(d, names):
        for nm in names:
            src = (d + "/" if d else "") + nm
            for f in files_under(src):
                copied.add(f)

    def walk(d):
        idx = (d + "/" if d else "") + "index.md"
        if idx not in tree:
            return False
        m = meta_of(tree[idx])
        if m["title"] is None:
            return False
        pages.append(((d + "/" if d else "") + "index.html", m["title"]))
        copy_dirs(d, m["copy_subdir"] or proj_copy)
        names = sorted(dirs.get(d, set()) - {"index.md"})
        # an entry names a directory entry: `sub/` and `./b.md` are `sub` and `b.md`
        ordered = [os.path.normpath(o) for o in m["ordered_subpage"] if os.path.normpath(o) != "index.md"]
        merged = list(dict.fromkeys(ordered + names))
        for nm in merged:
            if nm.startswith(".") or nm.endswith("~") or "/" in nm:
                continue
            full = (d + "/" if d else "") + nm
            if full in dirs:
                # a directory that this directory's own page has copied verbatim is not rendered
                if nm not in (m["copy_subdir"] or proj_copy):
                    walk(full)
            elif nm.endswith(".md"):
                mm = meta_of(tree[full])
                if mm["title"] is not None:
                    pages.append((full[:-3] + ".html", mm["title"]))
                    copy_dirs(d, mm["copy_subdir"] or proj_copy)
            else:
                copied.add(full)
        return True
    walk("")
    return pages, copied


NAV = re.compile(r'<a class="nav-link[^"]*" href="([^"]*)">(.*?)</a>', re.S)


def check_tree(name, tree, proj_meta):
    proj_copy, on = [], False
    for l in proj_meta.splitlines():
        if l.startswith("copy_subdir:"):
            proj_copy.append(l.split(":", 1)[1].strip())
            on = True
        elif on and l.startswith("    "):
            proj_copy.append(l.strip())         # continuation line of the list
        else:
            on = False
    files = dict(SRC)
    files.update({"pages/" + k: v for k, v in tree.items()})
    files["media/logo.png"] = "logo"
    # (search on for the trees with several depths: every page is then rendered twice, once for the index and once for the file)
    search = "true" if name in ("three levels", "aliases in raw html", "basic") else "false"
    with site.site(files, f"src_dir: ./src\noutput_dir: ./doc\npage_dir: ./pages\nmedia_dir: ./media\ngraph: false\nsearch: {search}\n" + proj_meta) as (pd, status):
        if not status.startswith("ok"):
            return [f"the run failed: {status}"]
        root = os.path.join(pd, "doc", "page")
        exp_pages, exp_copied = model(tree, proj_copy)
        bad = []
        actual_html, actual_other = set(), set()
        for d, _, ff in os.walk(root):
            for f in ff:
                rel = os.path.relpath(os.path.join(d, f), root)
                (actual_html if f.endswith(".html") else actual_other).add(rel)
        want_html = {p for p, _ in exp_pages}
        if len(want_html) != len(exp_pages):
            bad.append(f"two pages map to one output path: {sorted(p for p, _ in exp_pages)}")
        if actual_html != want_html:
            bad.append(f"pages written {sorted(actual_html)}; the page directory has titled pages {sorted(want_html)}")
        missing = exp_copied - actual_other
        extra = actual_other - exp_copied
        if missing:
            bad.append(f"files that belong next to their pages were not copied: {sorted(missing)}")
        if extra:
            bad.append(f"files copied that no rule asks for: {sorted(extra)}")
        for p, title in exp_pages:
            fp = os.path.join(root, p)
            if os.path.exists(fp):
                text = open(fp, encoding="utf-8").read()
                if f"<h1>{title}</h1>" not in text:
                    bad.append(f"page/{p} does not carry the title {title!r} of its source file")
                toc = text.split('id="sidebar-toc"', 1)[1].split('<div class="col-9"', 1)[0] if 'id="sidebar-toc"' in text else ""
                nav = [(os.path.normpath(os.path.join(os.path.dirname(p), h)), re.sub(r"<[^>]+>", "", t).strip()) for h, t in NAV.findall(toc)]
                if len(exp_pages) > 1 and nav != [(os.path.normpath(q), t) for q, t in exp_pages]:
                    bad.append(f"navigation of page/{p} lists {nav}; documented order is {exp_pages}")
                if re.search(r"\|(media|page|url)\|", text):
                    bad.append(f"page/{p}: an alias is left unsubstituted in the written page")
        pr, n, npages = site.walk_links(os.path.join(pd, "doc"))
        bad += [x for x in pr if x.startswith("page" + os.sep)]
        return bad


def random_tree(rng):
    names = ["apple", "berry", "cherry", "delta", "echo"]
    tree = {}

    def fill(prefix, depth):
        entries = rng.sample(names, rng.randint(1, 4))
        md = [e + ".md" for e in entries if rng.random() < 0.6]
        subs = [e for e in entries if e + ".md" not in md and depth < 2]
        others = [e + ".dat" for e in rng.sample(names, rng.randint(0, 2))]
        order = rng.sample(md + subs, rng.randint(0, len(md) + len(subs)))
        tree[prefix + "index.md"] = page("T " + (prefix or "root"), ordered=order)
        for m in md:
            tree[prefix + m] = page("P " + prefix + m) if rng.random() < 0.85 else "untitled\n"
        for o in others:
            tree[prefix + o] = "data"
        for s_ in subs:
            if rng.random() < 0.8:
                fill(prefix + s_ + "/", depth + 1)
            else:
                tree[prefix + s_ + "/loose.md"] = page("Loose")
    fill("", 0)
    return tree


def cases(seed, nrandom):
    for name, (tree, pm) in TREES.items():
        yield name, tree, pm
    rng = random.Random(seed)
    for i in range(nrandom):
        yield f"random tree #{i} (seed {seed})", random_tree(rng), ""


def search(seed=1, nrandom=6, names=None):
    for name, tree, pm in cases(seed, nrandom):
        if names is not None and name not in names:
            continue
        bad = check_tree(name, tree, pm)
        if bad:
            return {"confirmed": True, "input": {"tree": name, "page_dir": tree, "project_metadata": pm}, "actual": bad[:5],
                    "expected": "pages, copied files, navigation order and links as the documented rules give them",
                    "how": "real end-to-end run with page_dir; files under <output>/page compared with a model of the rules; navigation read from the HTML"}
    return None


def count_cases(nrandom=6):
    return len(TREES) + nrandom

"""Run the real FORD end to end (load_settings -> parse_arguments -> main) on a generated project inside a sandbox directory, in a
subprocess whose file-system mutations are recorded with a CPython audit hook.  Usage: python -m bounded.fordrun <sandbox> <project.md> [cli json]"""
from __future__ import annotations
import json, os, sys


WRITE_EVENTS = {"os.mkdir", "os.rmdir", "os.remove", "os.rename", "os.link", "os.symlink", "os.truncate", "os.chmod", "os.chown", "os.utime",
                "shutil.copyfile", "shutil.copymode", "shutil.copystat", "shutil.copytree", "shutil.move", "shutil.rmtree", "shutil.make_archive"}


def main():
    sandbox, project_file = sys.argv[1], sys.argv[2]
    cargs = json.loads(sys.argv[3]) if len(sys.argv) > 3 else {}
    log = []

    def hook(event, args):
        try:
            if event == "open":
                path, mode, flags = args
                if isinstance(path, int):
                    return
                wr = (isinstance(mode, str) and any(c in mode for c in "wax+")) or (mode is None and isinstance(flags, int) and flags & (os.O_WRONLY | os.O_RDWR | os.O_CREAT | os.O_TRUNC))
                if wr:
                    log.append(("open-write", os.fspath(path)))
            elif event in ("os.remove", "os.rmdir", "os.mkdir") and len(args) > 1 and args[-1] not in (None, -1) and isinstance(args[-1], int) and not os.path.isabs(os.fspath(args[0])):
                return      # relative to a directory descriptor: inside a tree whose root was already recorded (shutil.rmtree / copytree)
            elif event in WRITE_EVENTS:
                ps = [os.fspath(a) for a in args if isinstance(a, (str, bytes, os.PathLike))]
                if event in ("shutil.copyfile", "shutil.copytree", "os.rename", "shutil.move", "os.link", "os.symlink"):
                    ps = ps[1:2] if event != "os.rename" else ps[:2]
                if event in ("shutil.copymode", "shutil.copystat"):
                    ps = ps[1:2]
                for p_ in ps:
                    log.append((event, p_ if isinstance(p_, str) else p_.decode()))
        except Exception:
            pass
    sys.path.insert(0, os.path.dirname(os.path.dirname(os.path.abspath(__file__))))
    from harness import loader
    init = loader.import_init()
    import pathlib
    os.chdir(os.path.dirname(project_file))
    status = "ok"
    sys.addaudithook(hook)
    try:
        text = open(project_file).read()
        docs, data = init.load_settings(text, pathlib.Path(os.path.dirname(project_file)), os.path.basename(project_file))
        cl = dict(cargs)
        data, docs = init.parse_arguments(cl, docs, data, pathlib.Path(os.path.dirname(project_file)))
        init.main(data, docs)
    except SystemExit as e:
        status = f"exit: {e}"
    except BaseException as e:
        status = f"{type(e).__name__}: {e}"
    print("##FORDRUN##" + json.dumps({"status": status, "writes": log}))


if __name__ == "__main__":
    main()

"""Bounded stand-in for C12: the same multi-file project built under several PYTHONHASHSEED values and file enumeration orders; idents
(output file names) and the DOT source of every graph must be identical."""
from __future__ import annotations
import itertools, json, os, subprocess, sys
from bounded import realrun

VERIF = os.path.dirname(os.path.dirname(os.path.abspath(__file__)))


def project_files():
    f = {}
    for i in range(4):
        f[f"src/f{i}.f90"] = (f"module mod{i}\n  implicit none\ncontains\n  subroutine init()\n  end subroutine init\n  subroutine foo()\n    call init()\n  end subroutine foo\n"
                              f"end module mod{i}\n")
    f["src/types.f90"] = ("module types\n  implicit none\n  type :: base\n    integer :: a\n  end type base\n" +
                          "".join(f"  type, extends(base) :: child{k}\n    integer :: b{k}\n  end type child{k}\n" for k in range(6)) + "end module types\n")
    f["src/par.f90"] = "module par\n  interface\n" + "".join(f"    module subroutine w{k}()\n    end subroutine w{k}\n" for k in range(4)) + "  end interface\nend module par\n"
    for k in range(4):
        f[f"src/sub{k}.f90"] = f"submodule (par) sm{k}\ncontains\n  module subroutine w{k}()\n  end subroutine w{k}\nend submodule sm{k}\n"
    # equal base names in different directories, each defining an equally named procedure
    for d in ("alpha", "beta", "gamma"):
        f[f"src/{d}/utils.f90"] = f"subroutine init_utils()\n  !! in {d}\nend subroutine init_utils\n"
    f["src/main.f90"] = "program driver\n" + "".join(f"  use mod{i}, only: foo{i} => foo\n" for i in range(4)) + "".join(f"  call foo{i}()\n" for i in range(4)) + "end program driver\n"
    return f


def run(d, seed, order=None):
    env = dict(os.environ, PYTHONHASHSEED=str(seed), FORD_DEBUGGING="1")
    cmd = [sys.executable, "-m", "bounded.c12run", d] + ([json.dumps(order)] if order else [])
    r = subprocess.run(cmd, cwd=VERIF, capture_output=True, text=True, timeout=600, env=env)
    line = [l for l in r.stdout.splitlines() if l.startswith("##C12##")]
    if not line:
        return {"error": (r.stdout + r.stderr)[-600:]}
    return json.loads(line[0][7:])


def first_diff(a, b):
    for k in ("idents", "descendants"):
        if a.get(k) != b.get(k):
            return k, a.get(k), b.get(k)
    for g in sorted(set(a.get("dots", {})) | set(b.get("dots", {}))):
        if a["dots"].get(g) != b["dots"].get(g):
            return f"dot source of {g}", a["dots"].get(g), b["dots"].get(g)
    return None


def search(seeds=(0, 1, 2, 3, 7), norders=4):
    files = project_files()
    with realrun.project_dir(files) as d:
        ref = run(d, seeds[0])
        if "error" in ref:
            return {"confirmed": True, "input": "reference run", "actual": ref["error"], "expected": "a run", "how": "c12run"}
        for s in seeds[1:]:
            r = run(d, s)
            diff = first_diff(ref, r)
            if diff:
                return {"confirmed": True, "input": {"PYTHONHASHSEED": [seeds[0], s], "files": sorted(files)}, "actual": {"differs": diff[0], "run_a": str(diff[1])[:600], "run_b": str(diff[2])[:600]},
                        "expected": "identical idents and graph sources", "how": "two builds of the same project under different PYTHONHASHSEED"}
        names = sorted(os.path.basename(k) for k in files)
        perms = [names, names[::-1], names[3:] + names[:3], names[1::2] + names[0::2]][:norders]
        for p in perms:
            r = run(d, seeds[0], p)
            diff = first_diff(ref, r)
            if diff:
                return {"confirmed": True, "input": {"file_order": p}, "actual": {"differs": diff[0], "run_a": str(diff[1])[:600], "run_b": str(diff[2])[:600]},
                        "expected": "identical idents and graph sources", "how": "two builds of the same project with different file enumeration orders"}
    return None


def count_cases():
    return 4 + 4

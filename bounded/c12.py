"""Bounded stand-in for C12: the same multi-file project built under several PYTHONHASHSEED values and file enumeration orders; idents
(output file names) and the DOT source of every graph must be identical."""
from __future__ import annotations
import itertools, json, os, subprocess, sys
from bounded import realrun

VERIF = os.path.dirname(os.path.dirname(os.path.abspath(__file__)))


def project_files():
    f = {}
    for i in range(4):
        f[f"src/f{i}.f90"] = (f"module mod{i}\n  implicit none\ncontains\n  subroutine init()\n  end subroutine init\n  subroutine foo()\n    call init()\n  end subroutine foo\n"
                              f"end module mod{i}\n")
    f["src/types.f90"] = ("module types\n  implicit none\n  type :: base\n    integer :: a\n  end type base\n" +
                          "".join(f"  type, extends(base) :: child{k}\n    integer :: b{k}\n  end type child{k}\n" for k in range(6)) + "end module types\n")
    f["src/par.f90"] = "module par\n  interface\n" + "".join(f"    module subroutine w{k}()\n    end subroutine w{k}\n" for k in range(4)) + "  end interface\nend module par\n"
    for k in range(4):
        f[f"src/sub{k}.f90"] = f"submodule (par) sm{k}\ncontains\n  module subroutine w{k}()\n  end subroutine w{k}\nend submodule sm{k}\n"
    # equal base names in different directories, each defining an equally named procedure
    for d in ("alpha", "beta", "gamma"):
        f[f"src/{d}/utils.f90"] = f"subroutine init_utils()\n  !! in {d}\nend subroutine init_utils\n"
    f["src/main.f90"] = "program driver\n" + "".join(f"  use mod{i}, only: foo{i} => foo\n" for i in range(4)) + "".join(f"  call foo{i}()\n" for i in range(4)) + "end program driver\n"
    return f


def run(d, seed, order=None):
    env = dict(os.environ, PYTHONHASHSEED=str(seed), FORD_DEBUGGING="1")
    cmd = [sys.executable, "-m", "bounded.c12run", d] + ([json.dumps(order)] if order else [])
    r = subprocess.run(cmd, cwd=VERIF, capture_output=True, text=True, timeout=600, env=env)
    line = [l for l in r.stdout.splitlines() if l.startswith("##C12##")]
    if not line:
        return {"error": (r.stdout + r.stderr)[-600:]}
    return json.loads(line[0][7:])


def first_diff(a, b):
    for k in ("idents", "descendants"):
        if a.get(k) != b.get(k):
            return k, a.get(k), b.get(k)
    for g in sorted(set(a.get("dots", {})) | set(b.get("dots", {}))):
        if a["dots"].get(g) != b["dots"].get(g):
            return f"dot source of {g}", a["dots"].get(g), b["dots"].get(g)
    return None


def search(seeds=None, norders=None):
    seeds = seeds or ((0, 1, 2, 3, 7) if not realrun.thorough() else tuple(range(12)))
    norders = norders or (4 if not realrun.thorough() else 8)
    from bounded import c07
    bad = c07.inherited_generics(("idents",))
    if bad:
        return {"confirmed": True, "input": {"source": c07.INHERITED_GENERIC}, "actual": bad, "expected": "identifiers (anchors, graph node names) do not depend on who asks for them first",
                "how": "real pipeline: identifiers of the inherited copies of a generic binding, read in reverse order after Project.correlate()"}
    files = project_files()
    with realrun.project_dir(files) as d:
        ref = run(d, seeds[0])
        if "error" in ref:
            return {"confirmed": True, "input": "reference run", "actual": ref["error"], "expected": "a run", "how": "c12run"}
        for s in seeds[1:]:
            r = run(d, s)
            diff = first_diff(ref, r)
            if diff:
                return {"confirmed": True, "input": {"PYTHONHASHSEED": [seeds[0], s], "files": sorted(files)}, "actual": {"differs": diff[0], "run_a": str(diff[1])[:600], "run_b": str(diff[2])[:600]},
                        "expected": "identical idents and graph sources", "how": "two builds of the same project under different PYTHONHASHSEED"}
        names = sorted(os.path.basename(k) for k in files)
        perms = [names, names[::-1], names[3:] + names[:3], names[1::2] + names[0::2]][:norders]
        for p in perms:
            r = run(d, seeds[0], p)
            diff = first_diff(ref, r)
            if diff:
                return {"confirmed": True, "input": {"file_order": p}, "actual": {"differs": diff[0], "run_a": str(diff[1])[:600], "run_b": str(diff[2])[:600]},
                        "expected": "identical idents and graph sources", "how": "two builds of the same project with different file enumeration orders"}
    return None


def count_cases():
    return (4 + 4) if not realrun.thorough() else (11 + 8)


# ---- a second run into the output directory of the first: stale output must not change the result
RERUN = {
    "media with a Fortran file, own exclude_dir": ({"src.f90": "module m\n  !! doc\n  integer :: a\nend module m\n", "media/example.f90": "module example\n  integer :: e\nend module example\n"},
                                                  "src_dir: .\noutput_dir: ./doc\nmedia_dir: ./media\nexclude_dir: ./media\nincl_src: false\ngraph: false\n", None, "doc"),
    "output directory given with -o": ({"src.f90": "module m\n  !! doc\n  integer :: a\nend module m\n"},
                                       "src_dir: .\noutput_dir: ./doc\ngraph: false\n", {"output_dir": "out2"}, "out2"),
}


def _snapshot(root):
    import hashlib
    snap = {}
    for d, _, ff in os.walk(root):
        for f in ff:
            p = os.path.join(d, f)
            snap[os.path.relpath(p, root)] = hashlib.sha256(open(p, "rb").read()).hexdigest()[:16]
    return snap


def rerun_cases():
    import shutil, tempfile
    from bounded import site
    for name, (files, meta, cargs, outname) in RERUN.items():
        os.makedirs(realrun.TMPROOT, exist_ok=True)
        sb = tempfile.mkdtemp(dir=realrun.TMPROOT)
        try:
            snaps = []
            for i in (1, 2):
                with site.site(files, meta, cargs=cargs, sandbox=sb) as (pd, status):
                    if not status.startswith("ok"):
                        return {"confirmed": True, "input": {"scenario": name, "files": files, "options": meta, "command_line": cargs}, "actual": f"run {i}: {status[:300]}",
                                "expected": "both runs succeed", "how": "two full runs of the same project into the same output directory"}
                    snaps.append(_snapshot(os.path.join(pd, outname)))
            a, b = snaps
            # the creation date differs between two runs: pages are compared with the date line removed - here only the set of files and the pages that have no date
            diff = sorted(set(a) ^ set(b))
            if diff:
                return {"confirmed": True, "input": {"scenario": name, "files": files, "options": meta, "command_line": cargs}, "actual": {"files only in one run": diff[:6]},
                        "expected": "the same set of output files from both runs", "how": "two full runs of the same project into the same output directory; second run sees the first run's output"}
        finally:
            shutil.rmtree(sb, ignore_errors=True)
    return None


def hashseed_pages(seeds=None):
    seeds = seeds or ((0, 1, 2, 3, 4) if not realrun.thorough() else tuple(range(10)))
    """the rendered pages of one project under several PYTHONHASHSEED values, byte for byte (fixed creation date; graphs off: their SVG ids come from graphviz)"""
    import shutil, tempfile
    from bounded import site
    files = project_files()
    files["src/main.f90"] = files["src/main.f90"].replace("program driver\n", "program driver\n  use unknown_zeta\n  use unknown_alpha\n  use unknown_mid\n  use types\n  use par\n")
    files["src/f0.f90"] = files["src/f0.f90"].replace("  implicit none\n", "  use types\n  use par\n  use unknown_b\n  use unknown_a\n  implicit none\n  real :: work(3)\n  save :: work\n  target :: work\n"
                                                      "  volatile :: work\n  asynchronous :: work\n", 1)
    # one include file name in three searched directories: the first directory of the `include` option that has it is the one read
    for k, d in enumerate(("inc_a", "inc_b", "inc_c")):
        files[f"inc/{d}/params.inc"] = f"  integer, parameter :: from_{d} = {k}\n    !! declared in {d}/params.inc\n"
    files["src/withinc.f90"] = "module withinc\n  !! includes params.inc\n  implicit none\n  include \"params.inc\"\nend module withinc\n"
    # extra type keywords one of which is a prefix of another: the longer one is the type of `ctx`
    files["src/petsc_like.f90"] = "module petsc_like\n  !! doc\n  Vec :: v\n  VecScatter :: ctx\n  MatNullSpace :: nsp\n  Mat :: a\nend module petsc_like\n"
    meta = "src_dir: ./src\noutput_dir: ./doc\ngraph: false\nsearch: true\ncreation_date: fixed\ninclude: ./inc/inc_b\n         ./inc/inc_a\n         ./inc/inc_c\nextra_vartypes: VecScatter\n                Vec\n                MatNullSpace\n                Mat\n"
    ref = None
    for sd in seeds:
        os.makedirs(realrun.TMPROOT, exist_ok=True)
        sb = tempfile.mkdtemp(dir=realrun.TMPROOT)
        try:
            with site.site(files, meta, sandbox=sb, proj="p", hashseed=sd) as (pd, status):
                if not status.startswith("ok"):
                    return {"confirmed": True, "input": {"files": files, "options": meta, "PYTHONHASHSEED": sd}, "actual": status[:300], "expected": "ok", "how": "full run"}
                snap = {}
                for d, _, ff in os.walk(os.path.join(pd, "doc")):
                    for f in ff:
                        if f.endswith((".html", ".json", ".js")) and "tipuesearch" not in d:
                            p = os.path.join(d, f)
                            snap[os.path.relpath(p, os.path.join(pd, "doc"))] = open(p, encoding="utf-8", errors="replace").read().replace(sb, "<SANDBOX>")
        finally:
            shutil.rmtree(sb, ignore_errors=True)
        if "from_inc_b" not in snap.get("module/withinc.html", ""):
            return {"confirmed": True, "input": {"files": files, "options": meta, "PYTHONHASHSEED": sd}, "actual": "module/withinc.html does not document from_inc_b",
                    "expected": "the include file of the first directory of the `include` option (inc_b) is the one read", "how": "full run; page of the including module"}
        page = snap.get("module/petsc_like.html", "")
        if "vecscatter" not in page.lower() or "matnullspace" not in page.lower():
            return {"confirmed": True, "input": {"files": files, "options": meta, "PYTHONHASHSEED": sd}, "actual": "module/petsc_like.html does not show the types vecscatter / matnullspace",
                    "expected": "`VecScatter :: ctx` has the type VecScatter (not Vec with an attribute Scatter)", "how": "full run; page of the module"}
        if ref is None:
            ref, refseed = snap, sd
            continue
        for k in sorted(set(ref) | set(snap)):
            if ref.get(k) != snap.get(k):
                a, b = ref.get(k) or "", snap.get(k) or ""
                i = next((j for j in range(min(len(a), len(b))) if a[j] != b[j]), min(len(a), len(b)))
                return {"confirmed": True, "input": {"files": files, "options": meta, "PYTHONHASHSEED": [refseed, sd]},
                        "actual": {"file": k, f"seed {refseed}": a[max(0, i - 120):i + 120], f"seed {sd}": b[max(0, i - 120):i + 120]},
                        "expected": "identical pages", "how": "two full runs of the same project with different PYTHONHASHSEED; written pages compared byte for byte"}
    return None


def command_line_workers():
    """the real command line (`python -m ford proj.md`, argparse and all) with graphs saved to a graph_dir: the run with worker processes succeeds and writes the same graph files
    as the serial run"""
    import shutil, subprocess, sys, tempfile
    from harness import loader
    files = {"src/a.f90": "module a\n  integer :: x\nend module a\nmodule b\n  use a\ncontains\n  subroutine s()\n    call t()\n  end subroutine s\n  subroutine t()\n  end subroutine t\nend module b\n"}
    listings = {}
    os.makedirs(realrun.TMPROOT, exist_ok=True)
    for par in (0, 2):
        sb = tempfile.mkdtemp(dir=realrun.TMPROOT)
        try:
            for k, v in files.items():
                os.makedirs(os.path.dirname(os.path.join(sb, k)), exist_ok=True)
                open(os.path.join(sb, k), "w").write(v)
            open(os.path.join(sb, "proj.md"), "w").write(f"---\nproject: t\nsrc_dir: ./src\noutput_dir: ./doc\ngraph: true\ngraph_dir: ./graphs\nparallel: {par}\npreprocess: false\nsearch: false\n---\ntext\n")
            env = dict(os.environ, PYTHONPATH=loader.REPO, PYTHONHASHSEED="0")
            r = subprocess.run([sys.executable, "-m", "ford", "proj.md"], cwd=sb, env=env, capture_output=True, text=True, timeout=600)
            gd = os.path.join(sb, "graphs")
            listings[par] = (r.returncode, sorted(os.listdir(gd)) if os.path.isdir(gd) else None, (r.stderr or r.stdout).strip().splitlines()[-1:] if r.returncode else [])
        finally:
            shutil.rmtree(sb, ignore_errors=True)
    if listings[0][0] != 0 or listings[2][0] != 0 or listings[0][1] != listings[2][1] or not listings[0][1]:
        return {"confirmed": True, "input": {"files": files, "options": "graph: true, graph_dir: ./graphs, parallel: 0 / 2", "command": "python -m ford proj.md"},
                "actual": {f"parallel: {k}": {"exit": v[0], "graph files": v[1] and len(v[1]), "last line": v[2]} for k, v in listings.items()},
                "expected": "both runs exit 0 and write the same graph files", "how": "two real command-line runs in fresh processes"}
    return None

"""Subprocess entry: build a project (parse, correlate, graphs) from a directory and print a canonical JSON dump of everything that ends up in
output file names or graph sources.  python -m bounded.c12run <project dir> [file order permutation as JSON list of names]"""
from __future__ import annotations
import json, os, sys, pathlib, contextlib, io


def main():
    d = sys.argv[1]
    order = json.loads(sys.argv[2]) if len(sys.argv) > 2 else None
    sys.path.insert(0, os.path.dirname(os.path.dirname(os.path.abspath(__file__))))
    from harness import loader
    fp = loader.import_repo("ford.fortran_project")
    st = loader.import_repo("ford.settings")
    if order is not None:
        real = fp.find_all_files

        def permuted(settings):
            files = list(real(settings))
            files.sort(key=lambda p: order.index(p.name) if p.name in order else len(order))
            class OrderedFiles(list):
                pass
            return OrderedFiles(files)
        fp.find_all_files = permuted
    out = io.StringIO()
    os.chdir(d)
    with contextlib.redirect_stdout(out), contextlib.redirect_stderr(out):
        settings = st.ProjectSettings(src_dir=[pathlib.Path(d) / "src"], preprocess=False, quiet=True, warn=False, graph=True, output_dir=pathlib.Path(d) / "doc",
                                      display=["public", "private", "protected"], proc_internals=True)
        settings.normalise_paths(d)
        proj = fp.Project(settings)
        proj.correlate()
        graphs = loader.import_repo("ford.graphs")
        gm = graphs.GraphManager(settings.output_dir / "graphs", "..", settings.coloured_edges, settings.show_proc_parent, save_graphs=False)
        data = {"idents": [], "dots": {}}
        for lst in ("files", "modules", "submodules", "programs", "procedures", "types", "absinterfaces", "blockdata", "submodprocedures"):
            for e in getattr(proj, lst):
                data["idents"].append((lst, e.name, getattr(e, "filename", ""), e.ident))
                gm.register(e)
        data["idents"].sort()
        try:
            gm.graph_all()
            for e in gm.graph_objs:
                for gname in ("usesgraph", "usedbygraph", "inhergraph", "inherbygraph", "callsgraph", "calledbygraph", "afferentgraph", "efferentgraph"):
                    g = getattr(e, gname, None)
                    if g is not None and hasattr(g, "dot"):
                        data["dots"][f"{type(e).__name__}:{e.ident}:{gname}"] = g.dot.source
            for gname in ("usegraph", "typegraph", "callgraph", "filegraph"):
                g = getattr(gm, gname, None)
                if g is not None and hasattr(g, "dot"):
                    data["dots"]["project:" + gname] = g.dot.source
        except Exception as e:
            data["graph_error"] = f"{type(e).__name__}: {e}"
        data["descendants"] = {m.name: [s.name for s in getattr(m, "descendants", [])] for m in proj.modules}
    print("##C12##" + json.dumps(data, sort_keys=True))


if __name__ == "__main__":
    main()

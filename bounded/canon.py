"""Canonical dump of the entity tree FORD builds (used by differential stand-ins)."""
from __future__ import annotations


def _s(x):
    return None if x is None else str(x)


def var(v):
    if isinstance(v, str):
        return ("unresolved", v.lower())
    proto = None
    if getattr(v, "proto", None):
        p0 = v.proto[0]
        proto = (p0 if isinstance(p0, str) else p0.name).lower()
    # attributes are compared as the *set shown to the reader*: FORD keeps an attribute given by a separate statement in `attribs`
    # and one given on the declaration in a dedicated slot (parameter / optional / dimension); both are rendered alike
    attrs = set(a.lower().replace(" ", "") for a in v.attribs)
    if v.parameter:
        attrs.add("parameter")
    if v.optional:
        attrs.add("optional")
    dim = (v.dimension or "").lower().replace(" ", "")
    for a in list(attrs):
        if a.startswith("dimension("):
            attrs.discard(a)
            dim = dim or a[len("dimension"):]
    intent = (v.intent or "").lower()
    return ("var", v.name.lower(), v.vartype, _s(v.kind), _s(v.strlen), proto, tuple(sorted(attrs)), intent, dim,
            _s(v.initial).replace(" ", "") if v.initial is not None else None, v.permission)


def proc(p):
    out = [type(p).__name__, (p.name or "").lower(), tuple(var(a) if not isinstance(a, str) and hasattr(a, "vartype") else ("arg", getattr(a, "name", a).lower()) for a in getattr(p, "args", [])),
           tuple(sorted(getattr(p, "attribs", []))), p.permission, _s(getattr(p, "bindC", None))]
    rv = getattr(p, "retvar", None)
    out.append(var(rv) if rv is not None and not isinstance(rv, str) else rv)
    out.append(unit_children(p))
    return tuple(out)


def typ(t):
    return ("type", t.name.lower(), (t.extends if isinstance(t.extends, str) or t.extends is None else t.extends.name), tuple(sorted(a.lower() for a in t.attribs)), t.permission,
            tuple(var(v) for v in t.variables), tuple((b.name.lower(), b.permission, bool(b.deferred), bool(b.generic), tuple(sorted(b.attribs)),
                                                       tuple((x if isinstance(x, str) else x.name).lower() for x in b.bindings)) for b in t.boundprocs),
            tuple(f.name.lower() for f in t.finalprocs))


def interface(i):
    return ("interface", (i.name or "").lower(), bool(getattr(i, "generic", False)), bool(getattr(i, "abstract", False)), i.permission,
            tuple(proc(p) for p in list(getattr(i, "functions", [])) + list(getattr(i, "subroutines", []))) if hasattr(i, "functions") else (proc(i.procedure),) if getattr(i, "procedure", None) else (),
            tuple(m.name.lower() for m in getattr(i, "modprocs", [])))


def unit_children(u):
    return (
        tuple(var(v) for v in getattr(u, "variables", [])),
        tuple(typ(t) for t in getattr(u, "types", [])),
        tuple(interface(i) for i in getattr(u, "interfaces", [])),
        tuple(interface(i) for i in getattr(u, "absinterfaces", [])),
        tuple(proc(p) for p in getattr(u, "subroutines", [])),
        tuple(proc(p) for p in getattr(u, "functions", [])),
        tuple(tuple(var(v) for v in e.variables) for e in getattr(u, "enums", [])),
        tuple((c.name.lower(), tuple((v if isinstance(v, str) else v.name).lower() for v in c.variables)) for c in getattr(u, "common", [])),
        tuple((n.name.lower(), tuple((v if isinstance(v, str) else v.name).lower() for v in n.variables)) for n in getattr(u, "namelists", [])),
        tuple(sorted((c if isinstance(c, str) else c.name).lower() for c in getattr(u, "calls", []))) if hasattr(u, "calls") else None,
    )


def sourcefile(f):
    return (tuple(("module", m.name.lower(), m.permission, unit_children(m)) for m in f.modules),
            tuple(("submodule", m.name.lower(), unit_children(m)) for m in f.submodules),
            tuple(("program", p.name.lower(), unit_children(p)) for p in f.programs),
            tuple(proc(p) for p in f.subroutines), tuple(proc(p) for p in f.functions),
            tuple(("blockdata", b.name.lower(), tuple(var(v) for v in b.variables)) for b in f.blockdata))


def diff(a, b, path="root"):
    """first difference between two canonical trees"""
    if type(a) != type(b):
        return f"{path}: {a!r} != {b!r}"
    if isinstance(a, tuple):
        if len(a) != len(b):
            return f"{path}: length {len(a)} != {len(b)}: {a!r} vs {b!r}"[:600]
        for i, (x, y) in enumerate(zip(a, b)):
            d = diff(x, y, f"{path}[{i}]")
            if d:
                return d
        return None
    return None if a == b else f"{path}: {a!r} != {b!r}"

"""Refutation search / bounded stand-in for C10: real NameSelector on generated projects with re-used names; plus the enumeration
that stands behind the assumed numbering lemma."""
from __future__ import annotations
import itertools
from bounded import realrun
from harness import loader


def projects():
    def mod(n, body, contains=""):
        return f"module {n}\n  implicit none\n{body}" + (f"contains\n{contains}" if contains else "") + f"end module {n}\n"
    t = lambda n: f"  type :: {n}\n    integer :: c\n  end type {n}\n"
    s = lambda n: f"  subroutine {n}()\n  end subroutine {n}\n"
    yield "types differing in case", {"src/a.f90": mod("ma", t("Foo")), "src/b.f90": mod("mb", t("foo"))}
    yield "procedures differing in case", {"src/a.f90": mod("ma", "", s("Run")), "src/b.f90": mod("mb", "", s("run")), "src/c.f90": mod("mc", "", s("RUN"))}
    yield "equal names in two modules", {"src/a.f90": mod("ma", t("p"), s("q")), "src/b.f90": mod("mb", t("p"), s("q"))}
    yield "module names differing in case", {"src/a.f90": mod("Geo", t("p")), "src/b.f90": mod("geo", t("q"))}
    op = lambda o, f: f"  interface operator({o})\n    module procedure {f}\n  end interface\n"
    f2 = lambda n: f"  function {n}(a, b) result(r)\n    integer, intent(in) :: a, b\n    logical :: r\n    r = .true.\n  end function {n}\n"
    yield "operator interfaces", {"src/a.f90": mod("ma", op("<", "lt1") + op(">", "gt1") + op("*", "m1") + op("/", "d1"), f2("lt1") + f2("gt1") + f2("m1") + f2("d1")),
                                  "src/b.f90": mod("mb", op("<", "lt2"), f2("lt2"))}
    yield "unnamed programs", {"src/a.f90": "program\nend program\n", "src/b.f90": "program\nend program\n"}
    yield "submodule vs module", {"src/a.f90": mod("geom", "  interface\n    module subroutine w()\n    end subroutine w\n  end interface\n"),
                                  "src/b.f90": "submodule (geom) impl\ncontains\n  module subroutine w()\n  end subroutine w\nend submodule impl\n",
                                  "src/c.f90": mod("impl", t("p"))}
    yield "numbered repeat next to a literal digit", {"src/a.f90": mod("ma", "  integer :: step\n"), "src/b.f90": mod("mb", "  integer :: step\n  integer :: step2\n", s("step3") + s("step"))}
    gen = ("  type :: cell\n    integer :: v\n  contains\n    procedure :: lt\n    procedure :: le\n    procedure :: add\n    procedure :: sub\n"
           "    generic :: operator(<) => lt\n    generic :: operator(<=) => le\n    generic :: operator(+) => add\n    generic :: operator(-) => sub\n  end type cell\n")
    fb = lambda n, res: (f"  function {n}(a, b) result(r)\n    class(cell), intent(in) :: a, b\n    {res} :: r\n" + ("    r = .true.\n" if res == "logical" else "    r = a\n") + f"  end function {n}\n")
    yield "operator bindings of one type", {"src/a.f90": mod("grid", gen + op("+", "add") + op("-", "sub"), fb("lt", "logical") + fb("le", "logical") + fb("add", "type(cell)") + fb("sub", "type(cell)"))}
    yield "stem clash with a numbered name", {"src/a.f90": mod("ma", "", s("x") ), "src/b.f90": mod("mb", "", s("x")), "src/c.f90": mod("mc", "", s("X"))}


def check(proj):
    seen = {}
    bad = []
    for f in proj.files:
        for ent in realrun.walk_entities(f):
            try:
                d = ent.get_dir()
            except Exception:
                continue
            if d is None:
                continue
            ident = ent.ident
            if "/" in ident:
                bad.append(f"ident {ident!r} contains '/'")
            key = (d, ident)
            owner = ent.parent if getattr(ent, "is_interface_procedure", False) else ent
            if key in seen and seen[key] is not owner:
                bad.append(f"{type(seen[key]).__name__} '{seen[key].name}' and {type(owner).__name__} '{owner.name}' share the output file {d}/{ident}.html")
            seen.setdefault(key, owner)
    # anchors: two different entities never share page + fragment
    frag = {}
    for f in proj.files:
        for ent in realrun.walk_entities(f):
            try:
                url = ent.get_url()
            except Exception:
                continue
            if not url or "#" not in url:
                continue
            if url in frag and frag[url] is not ent and getattr(frag[url], "name", None) is not None:
                a, b = frag[url], ent
                # the same procedure listed through an interface and directly is one entity shown twice
                if getattr(a, "procedure", a) is getattr(b, "procedure", b):
                    continue
                bad.append(f"{type(a).__name__} '{a.name}' and {type(b).__name__} '{b.name}' share the anchor {url}")
            frag.setdefault(url, ent)
    return bad


def search():
    hit = members_live_on_their_owners_page()
    if hit:
        return hit
    for label, files in projects():
        proj = realrun.build_project(files, display=["public", "private", "protected"], correlate=False)
        bad = check(proj)
        if bad:
            return {"confirmed": True, "input": {"files": files}, "actual": bad[:3], "expected": "distinct page-bearing entities get distinct (directory, ident)",
                    "how": f"bounded search with the real NameSelector on a generated project: {label}"}
    return None


def members_live_on_their_owners_page():
    """the address of a component or binding listed on a type's page is that page plus its anchor - also for what the type inherits (copies of the parent's generic bindings included)"""
    src = ("module shapes\n  implicit none\n  type :: shape\n    integer :: id\n  contains\n    procedure :: scale_i, scale_r\n    generic :: scale => scale_i, scale_r\n    procedure :: area\n  end type shape\n"
           "  type, extends(shape) :: circle\n    real :: r\n  end type circle\n  type, extends(circle) :: disc\n  end type disc\ncontains\n"
           "  subroutine scale_i(self, k)\n    class(shape) :: self\n    integer :: k\n  end subroutine scale_i\n  subroutine scale_r(self, k)\n    class(shape) :: self\n    real :: k\n  end subroutine scale_r\n"
           "  subroutine area(self)\n    class(shape) :: self\n  end subroutine area\nend module shapes\n")
    proj = realrun.build_project({"src/shapes.f90": src})
    bad = []
    for t in proj.types:
        page = t.get_url()
        for e in list(t.boundprocs) + list(t.variables):
            if getattr(e, "parent", None) is not t:
                continue        # an inherited component is shown with a link to where it is declared
            u = e.get_url()
            if u and u.split("#")[0] != page:
                bad.append(f"{t.name}%{e.name}: listed on {page}, address {u}")
        for bp in t.boundprocs:
            if getattr(bp, "generic", False) and bp.get_url() and bp.get_url().split("#")[0] != page:
                bad.append(f"generic {t.name}%{bp.name}: listed on {page} with its own anchor, address {bp.get_url()}")
    if bad:
        return {"confirmed": True, "input": {"source": src}, "actual": sorted(set(bad))[:5], "expected": "page of the type + '#' + anchor", "how": "real Project + correlate: get_url() of the members of three types in an extension chain"}
    return None


def count_cases():
    return sum(1 for _ in projects())


def lemma_cases(maxlen=3, maxn=12):
    """numbering injectivity on stems over {a, b, 1, 2} (no '~')"""
    stems = ["".join(t) for n in range(1, maxlen + 1) for t in itertools.product("ab12", repeat=n)]
    num = lambda s, n: s + "~" + str(n) if n > 1 else s
    seen = {}
    cnt = 0
    for s in stems:
        for n in range(1, maxn + 1):
            cnt += 1
            k = num(s, n)
            if k in seen and seen[k] != (s, n):
                return cnt, (seen[k], (s, n))
            seen[k] = (s, n)
    return cnt, None


def quote_lemma(maxlen=3):
    """urllib.parse.quote is injective on identifiers (letters, digits, '_', '~', and the operator characters FORD maps into names)"""
    from urllib.parse import quote
    alpha = "ab1_~<>=+-*/."
    seen, n = {}, 0
    for k in range(0, maxlen + 1):
        for t in itertools.product(alpha, repeat=k):
            w = "".join(t)
            n += 1
            q = quote(w)
            if q in seen and seen[q] != w:
                return n, {"a": seen[q], "b": w, "quote": q}
            if "#" in q:
                return n, {"a": w, "quote": q, "problem": "result contains '#'"}
            seen[q] = w
    return n, None


def source_links():
    """real end-to-end run: the 'Source File' link on every entity page serves the entity's own source file"""
    import os, re
    from bounded import site
    files = {"src/core/Solver.f90": "module solver\n  !! in Solver.f90\n  integer :: s\nend module solver\n",
             "src/util/grid.f90": "module grid\n  !! in grid.f90\n  integer :: g\nend module grid\n",
             "src/util/Defs.h": "//! constants of the C side\n#define N 3\n"}
    with site.site(files, "src_dir: ./src\noutput_dir: ./doc\ngraph: false\nsearch: false\nincl_src: true\nextra_filetypes: h //\n") as (pd, status):
        if not status.startswith("ok"):
            return {"confirmed": True, "input": {"files": files}, "actual": f"run failed: {status}", "expected": "ok", "how": "end-to-end run"}
        bad = []
        for page, src in (("module/solver.html", "src/core/Solver.f90"), ("module/grid.html", "src/util/grid.f90"), ("sourcefile/defs.h.html", "src/util/Defs.h")):
            text = open(os.path.join(pd, "doc", page), encoding="utf-8").read()
            m = re.search(r'href="([^"]*/src/[^"]*)"', text)
            if not m:
                bad.append(f"{page}: no source-file link")
                continue
            target = os.path.normpath(os.path.join(pd, "doc", os.path.dirname(page), m.group(1)))
            if not os.path.exists(target):
                bad.append(f"{page}: source-file link {m.group(1)} points to a file that was not written")
            elif open(target).read() != files[src]:
                bad.append(f"{page}: source-file link {m.group(1)} serves another file than {src}")
        if bad:
            return {"confirmed": True, "input": {"files": files}, "actual": bad, "expected": "the link serves the entity's own source file", "how": "end-to-end run with incl_src; link followed on disk"}
    return None


PAGE_FILES = {
    "src/api.f90": "module api\n  !! doc\n  use impl_real\n  use impl_cplx\n  implicit none\n  interface add\n    !! generic over two files\n    module procedure add_real, add_cplx\n  end interface add\nend module api\n",
    "src/impl_real.f90": "module impl_real\ncontains\n  function add_real(a, b) result(r)\n    real, intent(in) :: a, b\n    real :: r\n    r = a + b\n  end function add_real\nend module impl_real\n",
    "src/impl_cplx.f90": "module impl_cplx\ncontains\n  function add_cplx(a, b) result(r)\n    complex, intent(in) :: a, b\n    complex :: r\n    r = a + b\n  end function add_cplx\nend module impl_cplx\n",
    "src/kernels.f90": "module kernels_free\n  !! in kernels.f90\n  integer :: kf\nend module kernels_free\n",
    "src/kernels.f": "      module kernels_fixed\n      integer :: kx\n      end module kernels_fixed\n",
    "src/sub/kernels.f90": "module kernels_sub\n  !! in sub/kernels.f90\n  integer :: ks\nend module kernels_sub\n",
    "src/ops.f90": ("module ops\n  !! doc\n  implicit none\n  interface operator(.plus.)\n    module procedure addi\n  end interface\n  interface operator(.plus.x.)\n    module procedure addr\n  end interface\n"
                    "  interface solve\n    !! generic with interface bodies\n    subroutine solve_real(x)\n      !! real one\n      real :: x\n    end subroutine solve_real\n"
                    "    subroutine solve_cmplx(x)\n      !! complex one\n      complex :: x\n    end subroutine solve_cmplx\n    subroutine solve_norm(x)\n      !! norm one\n      integer :: x\n    end subroutine solve_norm\n"
                    "  end interface solve\ncontains\n  function addi(a, b)\n    integer, intent(in) :: a, b\n    integer :: addi\n    addi = a + b\n  end function addi\n"
                    "  function addr(a, b)\n    real, intent(in) :: a, b\n    real :: addr\n    addr = a + b\n  end function addr\nend module ops\n"),
}


def page_files():
    """real end-to-end run: entities whose identifiers contain dots (source files, operator interfaces) or share a stem, and the specific procedures of a generic
    interface given as interface bodies: every page object has its own file, every link leads to it, and no two distinct procedures or variables (dummy arguments of the
    same name in different procedures) share an id on a page"""
    import os, re, collections
    from bounded import site, realrun
    with site.site(PAGE_FILES, "src_dir: ./src\noutput_dir: ./doc\ngraph: false\nsearch: true\nincl_src: true\n") as (pd, status):
        inp = {"files": PAGE_FILES}
        if not status.startswith("ok"):
            return {"confirmed": True, "input": inp, "actual": f"run failed: {status}", "expected": "ok", "how": "end-to-end run"}
        out = os.path.join(pd, "doc")
        bad, n, npages = site.walk_links(out)
        sp, _ = site.search_index_links(out)
        bad = sorted(set(bad + sp))
        # as many files as page objects
        proj = realrun.build_project(PAGE_FILES, display=["public", "protected"])
        want = {"sourcefile": len(proj.files), "module": len(proj.modules) + len(proj.submodules), "interface": sum(1 for p in proj.procedures if p.obj == "interface" or getattr(p, "generic", False))}
        for d in ("sourcefile", "module"):
            have = len([f for f in os.listdir(os.path.join(out, d)) if f.endswith(".html")]) if os.path.isdir(os.path.join(out, d)) else 0
            if have != want[d]:
                bad.append(f"{d}/: {have} pages written for {want[d]} {d} entities")
        # ids of procedures are unique on every page
        for d, _, ff in os.walk(out):
            for f in ff:
                if f.endswith(".html"):
                    ids = re.findall(r'\bid="((?:proc|variable)-[^"]*)"', open(os.path.join(d, f), encoding="utf-8", errors="replace").read())
                    # the same procedure may be summarised twice on a page (module page: list and detail); distinct procedures must differ
                    dup = [i for i, k in collections.Counter(ids).items() if k > 2]
                    if dup:
                        bad.append(f"{os.path.relpath(os.path.join(d, f), out)}: id {dup[0]!r} occurs {collections.Counter(ids)[dup[0]]} times")
        # on the page of a generic interface every specific procedure is shown once: there each id stands for one item
        for gpage in ("add.html", "solve.html"):
            gp = os.path.join(out, "interface", gpage)
            if os.path.exists(gp):
                gids = re.findall(r'\bid="((?:proc|variable)-[^"]*)"', open(gp, encoding="utf-8").read())
                dup = sorted(i for i, k in collections.Counter(gids).items() if k > 1)
                if dup:
                    bad.append(f"interface/{gpage}: ids {dup[:4]} occur more than once (the dummy arguments of different specific procedures share an anchor)")
        page = os.path.join(out, "interface", "solve.html")
        if os.path.exists(page):
            ids = set(re.findall(r'\bid="(proc-[^"]*)"', open(page, encoding="utf-8").read()))
            for nm in ("solve_real", "solve_cmplx", "solve_norm"):
                if f"proc-{nm}" not in ids:
                    bad.append(f"interface/solve.html: no id 'proc-{nm}' for the specific procedure {nm}")
        else:
            bad.append("interface/solve.html was not written")
        if bad:
            return {"confirmed": True, "input": inp, "actual": bad[:6], "expected": "one file per page object, live links, one id per specific procedure",
                    "how": f"end-to-end run ({n} links on {npages} pages followed), file counts per directory against the project lists, ids of the generic interface page"}
    return None


GRAPH_FILES = {
    "src/conv.f90": ("module conv_mod\n  implicit none\ncontains\n  subroutine convert(x)\n    real :: x\n    call helper(x)\n  end subroutine convert\n  subroutine helper(x)\n    real :: x\n  end subroutine helper\nend module conv_mod\n"
                     "module convert_tools\n  use conv_mod\n  implicit none\n  type :: convert\n    integer :: c\n  end type convert\nend module convert_tools\n"),
    "src/main.f90": "program convert\n  use conv_mod, only: helper\n  use convert_tools\n  real :: y\n  call helper(y)\nend program convert\n",
}


def graph_files():
    """graphs are saved under their identifier: distinct (entity, kind of graph) pairs must get distinct file names - also for entities of different kinds that share a name
    (a program and a module procedure `convert`, a type `convert`)"""
    import contextlib, io
    graphs = loader.import_repo("ford.graphs")
    proj = realrun.build_project(GRAPH_FILES, display=["public", "private", "protected"], proc_internals=True, graph=True)
    with contextlib.redirect_stdout(io.StringIO()), contextlib.redirect_stderr(io.StringIO()):
        gm = graphs.GraphManager("", "..", False, False, save_graphs=False)
        for lst in ("modules", "submodules", "programs", "procedures", "types", "files"):
            for e in getattr(proj, lst):
                gm.register(e)
        gm.graph_all()
    seen = {}
    for e in gm.graph_objs:
        for gname in ("usesgraph", "usedbygraph", "inhergraph", "inherbygraph", "callsgraph", "calledbygraph", "afferentgraph", "efferentgraph"):
            g = getattr(e, gname, None)
            if g is None or not hasattr(g, "imgfile"):
                continue
            key = g.imgfile
            who = (type(e).__name__, e.name, gname)
            if key in seen and seen[key] != who:
                return {"confirmed": True, "input": {"files": GRAPH_FILES}, "actual": {key: [seen[key], who]}, "expected": "one file name per (entity, graph) pair",
                        "how": "real graph objects (GraphManager.graph_all): the `imgfile` under which each graph is saved"}
            seen[key] = who
    if len(seen) < 8:
        return {"confirmed": True, "input": {"files": GRAPH_FILES}, "actual": f"only {len(seen)} graphs were built", "expected": "graphs for three modules' worth of entities", "how": "GraphManager.graph_all"}
    return None

"""Spec-side regular languages: a small combinator DSL (-> z3 regex) and DFA -> regex by state
elimination, so that specification automata are written as automata, not as look-alike regexes."""
from __future__ import annotations
import z3
from .translate import set_to_re, re_eps, re_empty, re_full, re_allchar, ALL, WORD, SPACE, DIGIT, _casefold

BLANK = {32, 9}


def chars(s: str) -> set[int]:
    return {ord(c) for c in s}


def cls(codes) -> z3.ReRef:
    return set_to_re(set(codes))


def notcls(codes) -> z3.ReRef:
    return set_to_re(ALL - set(codes))


def lit(s: str):
    return z3.Re(z3.StringVal(s))


def kw(s: str):
    """keyword, any letter case"""
    parts = [set_to_re(_casefold({ord(c)})) for c in s]
    return parts[0] if len(parts) == 1 else z3.Concat(*parts)


def seq(*rs):
    rs = [r for r in rs]
    return rs[0] if len(rs) == 1 else z3.Concat(*rs)


def alt(*rs):
    return rs[0] if len(rs) == 1 else z3.Union(*rs)


def star(r):
    return z3.Star(r)


def plus(r):
    return z3.Plus(r)


def opt(r):
    return z3.Option(r)


def inter(*rs):
    return rs[0] if len(rs) == 1 else z3.Intersect(*rs)


def comp(r):
    """complement within the ASCII universe"""
    return z3.Intersect(z3.Complement(r), re_full())


ws0 = star(cls(BLANK))
ws1 = plus(cls(BLANK))
LETTER = set(range(65, 91)) | set(range(97, 123))
NAME = seq(cls(LETTER), star(cls(WORD)))
ANY_NO_NL = star(notcls({10}))


def dfa_to_re(states, start, accepting, delta):
    """delta: dict (state, state) -> set of code points (one-char edges).  Classic state elimination;
    returns a z3 regex for the language of the DFA/NFA."""
    R = {}
    INIT, FIN = object(), object()
    nodes = [INIT] + list(states) + [FIN]
    for a in nodes:
        for b in nodes:
            R[(a, b)] = None
    for (a, b), codes in delta.items():
        if codes:
            R[(a, b)] = set_to_re(set(codes))
    R[(INIT, start)] = re_eps()
    for a in accepting:
        R[(a, FIN)] = re_eps()

    def u(x, y):
        if x is None:
            return y
        if y is None:
            return x
        return z3.Union(x, y)

    def c(*xs):
        if any(x is None for x in xs):
            return None
        return z3.Concat(*xs)

    remaining = list(states)
    for q in list(states):
        remaining.remove(q)
        loop = R[(q, q)]
        loopstar = z3.Star(loop) if loop is not None else re_eps()
        others = [INIT] + remaining + [FIN]
        for a in others:
            if R[(a, q)] is None:
                continue
            for b in others:
                if R[(q, b)] is None:
                    continue
                R[(a, b)] = u(R[(a, b)], c(R[(a, q)], loopstar, R[(q, b)]))
    res = R[(INIT, FIN)]
    return res if res is not None else re_empty()

"""Engine B obligations on live regex constants.  Every obligation is an emptiness question about
regular languages decided by z3's sequence/regex solver; a `sat` witness is replayed on the real
compiled pattern before it is reported."""
from __future__ import annotations
import re, time
import z3
from harness.core import OR, PROVED, REFUTED, UNKNOWN, ERROR
from .translate import lang, Unsupported, re_full, re_eps
from . import spec as SP

TIMEOUT_MS = 60000


def _solve(constraints_fn, timeout_ms=TIMEOUT_MS):
    """constraints_fn(s) -> list of z3 Bool over string var s. returns (status, witness, seconds, smt)"""
    s = z3.String("s")
    sol = z3.Solver()
    sol.set("timeout", timeout_ms)
    sol.add(z3.InRe(s, re_full()))
    for c in constraints_fn(s):
        sol.add(c)
    t0 = time.time()
    r = sol.check()
    dt = time.time() - t0
    smt = sol.sexpr()
    if r == z3.unsat:
        return PROVED, None, dt, smt
    if r == z3.sat:
        w = sol.model().eval(s, model_completion=True).as_string()
        w = _unescape(w)
        return REFUTED, w, dt, smt
    return UNKNOWN, sol.reason_unknown(), dt, smt


def _unescape(w: str) -> str:
    # z3 prints non-printables as \u{..}
    return re.sub(r"\\u\{([0-9a-fA-F]+)\}", lambda m: chr(int(m.group(1), 16)), w)


def _matches(pat: re.Pattern, mode: str, s: str) -> bool:
    return getattr(pat, mode)(s) is not None


class RX:
    """a live pattern under contract"""

    def __init__(self, name: str, pat: re.Pattern, mode: str = "match", prop: str = ""):
        self.name, self.pat, self.mode, self.prop = name, pat, mode, prop
        self._lang = None

    @property
    def L(self):
        if self._lang is None:
            self._lang = lang(self.pat, mode=self.mode)
        return self._lang

    def _mk(self, oid, desc, status, w, dt, smt, expect_match_real=None, role="post", must_fail=False, spec_re=None,
            expect_in_spec=None):
        r = OR(id=oid, status=status, kind="B", target=self.name, desc=desc, role=role, seconds=dt, smt=smt,
               must_fail=must_fail, backend="z3-seq")
        if status == REFUTED:
            r.witness = {"string": w}
            real = _matches(self.pat, self.mode, w)
            # the model claims membership/non-membership of w in L(pattern); the real pattern must agree
            ok = (real == expect_match_real) if expect_match_real is not None else True
            r.replay = {"confirmed": ok, "contradicted": not ok, "how": f"{self.name}.{self.mode}({w!r})",
                        "actual": real, "expected_by_model": expect_match_real}
        elif status == UNKNOWN:
            r.detail = str(w)
        return r

    def covers(self, oid, spec_re, desc, within=None, must_fail=False):
        """every string of spec_re (∩ within) is matched"""
        try:
            L = self.L
        except Unsupported as e:
            return OR(id=oid, status=UNKNOWN, kind="B", target=self.name, desc=desc, detail=f"unsupported: {e}")
        st, w, dt, smt = _solve(lambda s: [z3.InRe(s, spec_re), z3.Not(z3.InRe(s, L))] +
                                ([z3.InRe(s, within)] if within is not None else []))
        return self._mk(oid, "covers: " + desc, st, w, dt, smt, expect_match_real=False, must_fail=must_fail)

    def excludes(self, oid, spec_re, desc, within=None, must_fail=False):
        """no string of spec_re is matched"""
        try:
            L = self.L
        except Unsupported as e:
            return OR(id=oid, status=UNKNOWN, kind="B", target=self.name, desc=desc, detail=f"unsupported: {e}")
        st, w, dt, smt = _solve(lambda s: [z3.InRe(s, spec_re), z3.InRe(s, L)] +
                                ([z3.InRe(s, within)] if within is not None else []))
        return self._mk(oid, "excludes: " + desc, st, w, dt, smt, expect_match_real=True, must_fail=must_fail)

    def equiv(self, oid, spec_re, desc, within=None, must_fail=False):
        try:
            L = self.L
        except Unsupported as e:
            return OR(id=oid, status=UNKNOWN, kind="B", target=self.name, desc=desc, detail=f"unsupported: {e}")
        st, w, dt, smt = _solve(lambda s: [z3.Xor(z3.InRe(s, spec_re), z3.InRe(s, L))] +
                                ([z3.InRe(s, within)] if within is not None else []))
        r = self._mk(oid, "equiv: " + desc, st, w, dt, smt, must_fail=must_fail)
        if st == REFUTED:
            real = _matches(self.pat, self.mode, w)
            r.replay["actual"] = real
            r.replay["spec_says"] = not real
        return r

    def case_closed(self, oid, desc="match is independent of letter case", must_fail=False):
        """L(pattern) == L(pattern with IGNORECASE forced): then s matches iff any re-casing of s matches"""
        try:
            L = self.L
            L2 = lang(self.pat.pattern, self.pat.flags | re.IGNORECASE, mode=self.mode)
        except Unsupported as e:
            return OR(id=oid, status=UNKNOWN, kind="B", target=self.name, desc=desc, detail=f"unsupported: {e}")
        st, w, dt, smt = _solve(lambda s: [z3.Xor(z3.InRe(s, L), z3.InRe(s, L2))])
        r = self._mk(oid, "case_closed: " + desc, st, w, dt, smt, must_fail=must_fail)
        if st == REFUTED:
            real = _matches(self.pat, self.mode, w)
            variants = [w.lower(), w.upper(), w.swapcase()]
            diff = [v for v in variants if _matches(self.pat, self.mode, v) != real]
            r.replay.update(confirmed=bool(diff), contradicted=not diff, actual=real, differs_on=diff[:1])
        return r


def lang_nonempty(oid, target, spec_re, desc):
    """cover guard: a spec language used as a hypothesis must be inhabited"""
    st, w, dt, smt = _solve(lambda s: [z3.InRe(s, spec_re)])
    ok = st == REFUTED
    return OR(id=oid, status=PROVED if ok else (UNKNOWN if st == UNKNOWN else ERROR), kind="G", target=target, role="guard",
              desc="vacuity: spec language is inhabited: " + desc, witness={"string": w} if ok else None, seconds=dt,
              backend="z3-seq", detail="" if ok else "spec language is EMPTY or unknown")


def langs_disjoint(oid, target, a, b, desc, replay=None):
    st, w, dt, smt = _solve(lambda s: [z3.InRe(s, a), z3.InRe(s, b)])
    r = OR(id=oid, status=st, kind="B", target=target, desc=desc, seconds=dt, smt=smt, backend="z3-seq")
    if st == REFUTED:
        r.witness = {"string": w}
        r.replay = replay(w) if replay else None
    elif st == UNKNOWN:
        r.detail = str(w)
    return r


def ordered_alternation(prop, name, pat, mode="match"):
    """Backtracking matchers try alternatives left to right.  If alternative i *extends* an earlier alternative j (some word of a_i has a
    proper prefix in a_j) and a subject can be matched as a whole through either, the shorter one wins and the capture groups are not the
    intended ones.  Obligation per such pair: L(pattern[branch := a_j]) and L(pattern[branch := a_i]) are disjoint."""
    from .translate import top_items, branches, lang_with, lang_of_items, re_full
    out = []
    try:
        items, fl = top_items(pat)
    except Exception as e:
        return [OR(id=f"{prop}.B.{name.split('.')[-1]}.ordered_alt", status=UNKNOWN, kind="B", target=name, detail=str(e))]
    short = name.split(".")[-1]
    import re._constants as C

    def simple(alt, top=True):
        # keyword-like alternatives: they start with a literal character and consist of characters, classes and repetitions of those (e.g. `block\s*data`);
        # separators such as `\s+ | \s*::\s*` are not keywords (whichever way they match, no capture group differs)
        alt = list(alt)
        if top and (not alt or alt[0][0] != C.LITERAL):
            return False
        for op, av in alt:
            if op in (C.LITERAL, C.IN, C.CATEGORY, C.NOT_LITERAL):
                continue
            if op in (C.MAX_REPEAT, C.MIN_REPEAT) and simple(list(av[2]), top=False):
                continue
            return False
        return True
    for bi, av in enumerate(branches(items)):
        alts = av[1]
        for i in range(len(alts)):
            for j in range(i):
                if not (simple(alts[i]) and simple(alts[j])):
                    continue          # keyword alternatives only
                try:
                    Lj, Li = lang_of_items(alts[j], fl), lang_of_items(alts[i], fl)
                    # does a_i extend a_j ?
                    st, w, dt, smt = _solve(lambda s: [z3.InRe(s, Li), z3.InRe(s, z3.Concat(Lj, z3.Plus(z3.Range(chr(0), chr(127)))))], timeout_ms=10000)
                    if st != REFUTED:
                        continue
                    A = lang_with(items, fl, mode, {id(av): j}, av)
                    B = lang_with(items, fl, mode, {id(av): i}, av)
                except Unsupported:
                    continue
                st, w, dt, smt = _solve(lambda s: [z3.InRe(s, A), z3.InRe(s, B)])
                r = OR(id=f"{prop}.B.{short}.ordered_alt.b{bi}.{j}_before_{i}", status=st, kind="B", target=name, seconds=dt, smt=smt, backend="z3-seq",
                       desc=f"alternative #{i} extends the earlier alternative #{j}: no subject can be matched as a whole through both (else the shorter one wins)")
                if st == REFUTED:
                    m = getattr(pat, mode)(w)
                    r.witness = {"string": w}
                    r.replay = {"confirmed": m is not None, "input": w, "actual": {"groups": m.groups() if m else None},
                                "expected": f"the longer alternative #{i} to be the one that matches", "how": f"{short}.{mode}({w!r}).groups()"}
                elif st == UNKNOWN:
                    r.detail = str(w)
                out.append(r)
    if not out:
        out.append(OR(id=f"{prop}.B.{short}.ordered_alt.none", status=PROVED, kind="B", target=name, backend="ast+z3-seq",
                      desc="no keyword alternative of this pattern extends an earlier alternative of the same group (nothing can be shadowed)"))
    return out

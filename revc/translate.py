"""Engine B: translate CPython's own parse of a live regex pattern into a z3 regular expression.

Exact for *match existence* (language membership) over the universe U = code points 0..127
(stated assumption: ASCII input; IGNORECASE as ASCII case pairs; \\w \\s \\d as their ASCII sets).
Continuation-passing so that look-aheads become intersections with the continuation language.

Unsupported (raises Unsupported -> the obligation is UNDECIDED, never a verdict): back-references,
look-behind, look-around under a repeat, MULTILINE anchors in the middle, conditional groups.
"""
from __future__ import annotations
import re
import re._parser as sre_parse
import re._constants as C
import z3

ASCII_MAX = 127


class Unsupported(Exception):
    pass


def _ch(i: int) -> str:
    return chr(i)


def S():
    return z3.StringSort()


def RS():
    return z3.ReSort(S())


def re_empty():
    return z3.Empty(RS())


def re_eps():
    return z3.Re(z3.StringVal(""))


def re_full():
    """U* : all ASCII strings"""
    return z3.Star(re_allchar())


def re_allchar():
    return z3.Range(_ch(0), _ch(ASCII_MAX))


def set_to_re(codes: set[int]):
    """char-class regex from a set of code points (merged into ranges)"""
    codes = sorted(c for c in codes if 0 <= c <= ASCII_MAX)
    if not codes:
        return re_empty()
    ranges = []
    start = prev = codes[0]
    for c in codes[1:]:
        if c == prev + 1:
            prev = c
            continue
        ranges.append((start, prev))
        start = prev = c
    ranges.append((start, prev))
    parts = [z3.Range(_ch(a), _ch(b)) if a != b else z3.Re(z3.StringVal(_ch(a))) for a, b in ranges]
    return parts[0] if len(parts) == 1 else z3.Union(*parts)


WORD = set(range(48, 58)) | set(range(65, 91)) | set(range(97, 123)) | {95}
DIGIT = set(range(48, 58))
SPACE = {9, 10, 11, 12, 13, 28, 29, 30, 31, 32}   # str.isspace / \s on ASCII (Unicode mode includes \x1c-\x1f)
ALL = set(range(0, ASCII_MAX + 1))


def category_set(cat) -> set[int]:
    if cat == C.CATEGORY_DIGIT:
        return set(DIGIT)
    if cat == C.CATEGORY_NOT_DIGIT:
        return ALL - DIGIT
    if cat == C.CATEGORY_SPACE:
        return set(SPACE)
    if cat == C.CATEGORY_NOT_SPACE:
        return ALL - SPACE
    if cat == C.CATEGORY_WORD:
        return set(WORD)
    if cat == C.CATEGORY_NOT_WORD:
        return ALL - WORD
    raise Unsupported(f"category {cat}")


def _casefold(codes: set[int]) -> set[int]:
    out = set(codes)
    for c in codes:
        if 65 <= c <= 90:
            out.add(c + 32)
        elif 97 <= c <= 122:
            out.add(c - 32)
    return out


def in_set(items, flags) -> set[int]:
    neg = False
    codes: set[int] = set()
    for op, av in items:
        if op == C.NEGATE:
            neg = True
        elif op == C.LITERAL:
            codes.add(av)
        elif op == C.RANGE:
            codes |= set(range(av[0], min(av[1], ASCII_MAX) + 1))
        elif op == C.CATEGORY:
            codes |= category_set(av)
        else:
            raise Unsupported(f"IN item {op}")
    if flags & re.IGNORECASE:
        codes = _casefold(codes)
    if neg:
        codes = ALL - codes
    return codes


def _has_anchor(items) -> bool:
    for op, av in items:
        if op == C.AT:
            return True
        if op == C.SUBPATTERN and _has_anchor(av[3]):
            return True
        if op in (C.MAX_REPEAT, C.MIN_REPEAT) and _has_anchor(av[2]):
            return True
        if op == C.BRANCH and any(_has_anchor(b) for b in av[1]):
            return True
    return False


def _has_lookaround(items) -> bool:
    for op, av in items:
        if op in (C.ASSERT, C.ASSERT_NOT):
            return True
        if op == C.SUBPATTERN and _has_lookaround(av[3]):
            return True
        if op in (C.MAX_REPEAT, C.MIN_REPEAT) and _has_lookaround(av[2]):
            return True
        if op == C.BRANCH and any(_has_lookaround(b) for b in av[1]):
            return True
    return False


class Translator:
    def __init__(self, flags: int):
        self.flags = flags
        self.dotall = bool(flags & re.DOTALL)
        self.icase = bool(flags & re.IGNORECASE)
        if flags & re.MULTILINE:
            self.multiline = True
        else:
            self.multiline = False
        self.group_spans = {}

    def seq(self, items, k, at_start: bool):
        """regex for: items followed by continuation language k.
        at_start: True iff position 0 of the subject is the only place this sequence can begin."""
        items = list(items)
        # process right-to-left building the continuation; at_start only matters for AT_BEGINNING
        # nodes, which we only accept as the very first item of a sequence that is itself at start.
        res = k
        for idx in range(len(items) - 1, -1, -1):
            res = self.node(items[idx], res, at_start and idx == 0)
        return res

    def node(self, item, k, at_start: bool):
        op, av = item
        if op == C.LITERAL:
            codes = {av}
            if self.icase:
                codes = _casefold(codes)
            if av > ASCII_MAX:
                return re_empty()
            return z3.Concat(set_to_re(codes), k)
        if op == C.NOT_LITERAL:
            codes = {av}
            if self.icase:
                codes = _casefold(codes)
            return z3.Concat(set_to_re(ALL - codes), k)
        if op == C.ANY:
            return z3.Concat(set_to_re(ALL if self.dotall else ALL - {10}), k)
        if op == C.IN:
            return z3.Concat(set_to_re(in_set(av, self.flags)), k)
        if op == C.BRANCH:
            ov = getattr(self, "override", {}).get(id(av))
            if ov is not None:
                return self.seq(av[1][ov], k, at_start)
            return z3.Union(*[self.seq(b, k, at_start) for b in av[1]]) if len(av[1]) > 1 else self.seq(av[1][0], k, at_start)
        if op == C.SUBPATTERN:
            group, add_flags, del_flags, p = av
            if add_flags or del_flags:
                raise Unsupported("inline flags")
            return self.seq(p, k, at_start)
        if op in (C.MAX_REPEAT, C.MIN_REPEAT, C.POSSESSIVE_REPEAT):
            if op == C.POSSESSIVE_REPEAT:
                raise Unsupported("possessive repeat")
            lo, hi, p = av
            if lo == 0 and id(av) in getattr(self, "force", set()):
                lo = 1        # an optional part that must be taken (it contains the alternative under study)
            if _has_lookaround(p):
                raise Unsupported("look-around under a repeat")
            if _has_anchor(p):
                raise Unsupported("anchor under a repeat")
            body = self.seq(p, re_eps(), False)
            if hi == C.MAXREPEAT:
                if lo == 0:
                    r = z3.Star(body)
                elif lo == 1:
                    r = z3.Plus(body)
                else:
                    r = z3.Concat(z3.Loop(body, lo, lo), z3.Star(body))
            else:
                r = z3.Loop(body, lo, hi)
            return z3.Concat(r, k)
        if op == C.ASSERT:
            direction, p = av
            if direction != 1:
                raise Unsupported("look-behind")
            return z3.Intersect(z3.Concat(self.seq(p, re_eps(), False), re_full()), k)
        if op == C.ASSERT_NOT:
            direction, p = av
            if direction != 1:
                raise Unsupported("look-behind")
            la = z3.Concat(self.seq(p, re_eps(), False), re_full())
            return z3.Intersect(z3.Intersect(z3.Complement(la), re_full()), k)
        if op == C.AT:
            if av in (C.AT_BEGINNING, C.AT_BEGINNING_STRING):
                if at_start and not (self.multiline and av == C.AT_BEGINNING):
                    return k
                if getattr(self, "caret_empty", False) and not self.multiline:
                    return re_empty()      # this occurrence can only match at subject position 0, which this translation excludes
                raise Unsupported("'^' not at the start of the pattern")
            if av == C.AT_END:
                if self.multiline:
                    raise Unsupported("'$' with MULTILINE")
                return z3.Intersect(k, z3.Union(re_eps(), z3.Re(z3.StringVal("\n"))))
            if av == C.AT_END_STRING:
                return z3.Intersect(k, re_eps())
            raise Unsupported(f"AT {av}")
        if op == C.GROUPREF or op == C.GROUPREF_EXISTS:
            raise Unsupported("back-reference")
        raise Unsupported(f"opcode {op}")


def parse(pattern: str, flags: int):
    p = sre_parse.parse(pattern, flags)
    return p, p.state.flags


def lang(pattern, flags: int | None = None, mode: str = "match"):
    """z3 regex L such that  InRe(s, L)  <=>  re.compile(pattern, flags).<mode>(s) is not None,
    for ASCII s.  mode in match | fullmatch | search."""
    if isinstance(pattern, re.Pattern):
        flags = pattern.flags
        pattern = pattern.pattern
    flags = flags or 0
    parsed, fl = parse(pattern, flags)
    if fl & re.VERBOSE:
        pass  # the parser already dropped whitespace/comments
    t = Translator(fl)
    if mode == "fullmatch":
        k = re_eps()
    else:
        k = re_full()
    body = t.seq(list(parsed), k, True) if mode != "search" else None
    if mode == "search":
        # a match may start anywhere; '^' only valid at position 0
        items = list(parsed)
        starts_anchored = bool(items) and items[0][0] == C.AT and items[0][1] in (C.AT_BEGINNING, C.AT_BEGINNING_STRING)
        if starts_anchored:
            body = t.seq(items, k, True)
        else:
            # a match starting at position 0 (where '^' holds) or after a non-empty prefix (where '^' cannot hold)
            at0 = t.seq(items, k, True)
            t2 = Translator(fl)
            t2.caret_empty = True
            later = z3.Concat(z3.Plus(re_allchar()), t2.seq(items, k, False))
            body = z3.Union(at0, later)
    return body


def pattern_tree(pattern, flags=None) -> str:
    if isinstance(pattern, re.Pattern):
        flags = pattern.flags
        pattern = pattern.pattern
    parsed, fl = parse(pattern, flags or 0)
    return repr(list(parsed))


def top_items(pattern, flags=None):
    """(items, flags) of the top-level sequence of the live pattern, from CPython's own parser"""
    if isinstance(pattern, re.Pattern):
        flags = pattern.flags
        pattern = pattern.pattern
    parsed, fl = parse(pattern, flags or 0)
    return list(parsed), fl


def lang_of_items(items, flags, k=None, at_start=False):
    """language of a sub-sequence of parsed items (fullmatch semantics unless a continuation is given)"""
    t = Translator(flags)
    return t.seq(items, re_eps() if k is None else k, at_start)


def find_group(items, gid):
    """index path of capture group `gid` in a top-level sequence: returns index i such that items[i] is
    SUBPATTERN gid (top level only), else None"""
    for i, (op, av) in enumerate(items):
        if op == C.SUBPATTERN and av[0] == gid:
            return i
    return None


def branches(items, out=None):
    """all BRANCH nodes (their av tuples) of a parsed pattern, depth first"""
    out = [] if out is None else out
    for op, av in items:
        if op == C.BRANCH:
            out.append(av)
            for b in av[1]:
                branches(b, out)
        elif op == C.SUBPATTERN:
            branches(av[3], out)
        elif op in (C.MAX_REPEAT, C.MIN_REPEAT):
            branches(av[2], out)
        elif op in (C.ASSERT, C.ASSERT_NOT):
            branches(av[1], out)
    return out


def _ancestors_optional(items, target_av, acc):
    """ids of the optional repeats on the path from the top to the BRANCH node target_av"""
    for op, av in items:
        if op == C.BRANCH:
            if av is target_av:
                return acc
            for b in av[1]:
                r = _ancestors_optional(b, target_av, acc)
                if r is not None:
                    return r
        elif op == C.SUBPATTERN:
            r = _ancestors_optional(av[3], target_av, acc)
            if r is not None:
                return r
        elif op in (C.MAX_REPEAT, C.MIN_REPEAT):
            r = _ancestors_optional(av[2], target_av, acc + ([id(av)] if av[0] == 0 else []))
            if r is not None:
                return r
    return None


def lang_with(parsed_items, flags, mode, override, branch_av=None):
    t = Translator(flags)
    t.override = override
    if branch_av is not None:
        t.force = set(_ancestors_optional(parsed_items, branch_av, []) or [])
    k = re_eps() if mode == "fullmatch" else re_full()
    if mode == "search":
        return z3.Concat(re_full(), t.seq(parsed_items, k, False))
    return t.seq(parsed_items, k, True)

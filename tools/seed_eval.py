#!/usr/bin/env python3
"""Evaluate a seeded change: tools/seed_eval.py <seed dir with patch.diff, demo.py, meta.json> <property> [--import-as <name>]
 1. scratch worktree of /repo HEAD under /tmp: demo passes unchanged, fails with patch; baseline suite still passes with patch
 2. apply to /repo, run bin/check <property> (quick), undo.
Writes the outcome into <seed dir>/meta.json under "evaluation"."""
import json, os, shutil, subprocess, sys, time
seed, prop = os.path.abspath(sys.argv[1]), sys.argv[2]
VERIF = os.path.dirname(os.path.dirname(os.path.abspath(__file__)))
patch = os.path.join(seed, "patch.diff")
demo = os.path.join(seed, "demo.py")
wt = f"/tmp/seedcheck_{os.getpid()}"
def sh(cmd, **kw):
    return subprocess.run(cmd, shell=True, capture_output=True, text=True, **kw)
ev = {"at_repo_head": sh("git -C /repo log --format=%h -1").stdout.strip()}
sh(f"git -C /repo worktree add -q --detach {wt} HEAD")
try:
    r0 = sh(f"/venv/bin/python {demo} {wt}", timeout=600)
    ev["demo_unchanged_exit"] = r0.returncode
    ap = sh(f"git -C {wt} apply --whitespace=nowarn {patch}")
    if ap.returncode != 0:
        ap = sh(f"git -C {wt} apply --3way --whitespace=nowarn {patch}")
    ev["patch_applies"] = ap.returncode == 0
    if ap.returncode == 0:
        r1 = sh(f"/venv/bin/python {demo} {wt}", timeout=600)
        ev["demo_patched_exit"] = r1.returncode
        ev["demo_patched_tail"] = (r1.stdout + r1.stderr)[-600:]
        if "--no-baseline" not in sys.argv:
            b = sh(f"{VERIF}/.venv/bin/python {VERIF}/tools/baseline.py {wt}", timeout=3000)
            ev["baseline_with_patch"] = b.stdout.strip().splitlines()[0] if b.stdout.strip() else b.stderr[-300:]
            ev["baseline_ok"] = b.returncode == 0
        sh(f"git -C {wt} diff HEAD > {seed}/patch.applied.diff")
finally:
    sh(f"git -C /repo worktree remove --force {wt}")
    shutil.rmtree(wt, ignore_errors=True)
if ev.get("patch_applies"):
    assert sh("git -C /repo status --porcelain --untracked-files=no").stdout.strip() == "", "repo dirty"
    ap = sh(f"git -C /repo apply --whitespace=nowarn {seed}/patch.applied.diff")
    try:
        t0 = time.time()
        c = sh(f"cd {VERIF} && bin/check {prop} --tier quick", timeout=3000)
        ev["check_exit"] = c.returncode
        ev["check_wall_s"] = round(time.time() - t0, 1)
        ev["check_lines"] = [l[:400] for l in c.stdout.splitlines() if l.startswith(("VIOLATION", "UNDECIDED", "CHECKER-FAULT", "KNOWN", prop + ":"))][:8]
        ev["detected"] = c.returncode == 1
    finally:
        sh("git -C /repo checkout -- .")
    # evidence files were rewritten by the run on the changed tree: restore
    sh(f"cd {VERIF} && git checkout -- evidence/{prop}.json")
meta_p = os.path.join(seed, "meta.json")
meta = json.load(open(meta_p)) if os.path.exists(meta_p) else {}
meta["evaluation"] = ev
json.dump(meta, open(meta_p, "w"), indent=1)
print(json.dumps(ev, indent=1))

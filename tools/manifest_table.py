CLAIMED = {
    "C02": {
        "engines": ["A", "B"],
        "technique": "contract-based deductive verification: loop-invariant VCs from the AST of _contains_unterminated_string / quote_split against the "
                     "Fortran character-context automaton, and regex-language equivalence of COM_RE / docmark patterns / QUOTES_RE with spec automata (z3)",
        "text": "Necessary conditions of C02 proved for all inputs: the literal tracker and the ';' splitter simulate the Fortran character-context automaton "
                "(doubled delimiters included) for strings of any length; the comment / doc-comment patterns match exactly the lines whose first '!' in "
                "code state is (followed by) the marker, with a unique comment start; QUOTES_RE is exactly one Fortran literal. The composition inside "
                "FortranReader.__next__ is not proved.",
        "note": "Partial: per-function and per-pattern obligations only.",
    },
    "C05": {
        "engines": ["A", "Bd"],
        "technique": "contract-based deductive verification: VCs from the ASTs of _should_display / filter_display / FortranCodeUnit.prune / FortranType.prune / "
                     "FortranBlockData.prune against the display-selection oracle (heap model with aliasable containers, callee contracts, frames), z3",
        "text": "Selection half of C05 proved for all heaps: _should_display equals the documented selection predicate, filter_display is the order-preserving "
                "filter by it, and after prune() every child list of a unit that carries an accessibility holds exactly the selected members (procedure "
                "internals hidden when proc_internals is off). What the templates render and the search index are not reachable by contracts; a bounded "
                "run of the real pipeline on 216 generated cases stands in for the composition (labelled bounded, not counted).",
        "note": "Partial: selection, not rendering. Recursive prune() calls and FortranBase.iterator use assumed contracts.",
    },
    "C07": {
        "engines": ["A", "Bd"],
        "technique": "contract-based deductive verification: block contract on the host-association part of FortranCodeUnit.correlate with name tables as "
                     "aliasable dict objects (frame + overlay postconditions, loop invariants as ground-unfolded folds), z3 array theory",
        "text": "Proved for every heap: the host-association block builds exactly 'host tables overlaid by the unit's own declarations (locals win)' for "
                "procedures, abstract interfaces, types and variables, and leaves every table of the parent scope unchanged (no leak to host or siblings). "
                "The individual resolvers and USE merging are outside this check (bounded pipeline cases only).",
        "note": "Partial: one block of correlate(); resolvers not under contract.",
    },
    "C06": {
        "engines": ["A", "B", "Bd"],
        "technique": "contract-based deductive verification: VCs from the AST of the closure used_objects (decide half of get_used_entities) against the "
                     "standard's per-name USE rule as a ground-unfolded fold; regex-language coverage of USE_RE/ONLY_RE/RENAME_RE (z3)",
        "text": "Proved for every export table, ONLY flag and rename map: the imported table is exactly the standard's USE view (ONLY restricts, renames "
                "apply with and without ONLY, the remote name of a renamed entity is not imported); the USE patterns accept every USE form in any letter "
                "case. Clause parsing, export tables, re-export filtering and module ordering are covered only by a bounded run of the real pipeline on 44 "
                "generated three-module projects (not counted).",
        "note": "Partial: decide half + patterns.",
    },
    "C10": {
        "engines": ["A", "Bd"],
        "technique": "contract-based deductive verification: data-structure contract on NameSelector.get_name (representation invariant, Skolemised "
                     "injectivity per output directory, frame) with VCs from its AST discharged by z3; call-site obligation on the source-copy destination",
        "text": "Proved for every NameSelector state satisfying its representation invariant: get_name is idempotent, injective per output directory "
                "(names differing in case, equal names, unnamed units, operator spellings included) and preserves the invariant. The numbering lemma "
                "(stem~n injective) is assumed - neither solver decides it - and bounded-checked. The flat src/<basename> copy is a recorded known finding.",
        "note": "One assumed string lemma; anchors inside a page rely on urllib.parse.quote being injective.",
    },
    "C09": {
        "engines": ["A", "S", "Bd"],
        "technique": "contract-based deductive verification: VCs from the AST of FortranBase.get_url (uninterpreted get_dir/ident/anchor, string theory; z3, word "
                     "equations re-discharged by cvc5) ; implication obligations between the jinja2 AST of every link to a list page and the AST of "
                     "Documentation.__init__ (linear integer arithmetic, z3); block contract on the graph-node URL statement; bounded whole-site link walk",
        "text": "Narrow claim (URL builders and page-existence conditions only). Proved for every entity: get_url returns exactly <dir>/<ident>.html, or "
                "<parent page>#<anchor> for variable-like entities, is relative and has at most one fragment; every literal link to lists/<page>.html in the "
                "templates is guarded by a condition implying the condition under which that page is created; graph nodes link only to visible entities. "
                "relurl, Markdown link rewriting, template-emitted ids, SVG and the search index are not under contract: a bounded stand-in generates 36 "
                "complete sites (9 project shapes x 4 option sets) with the real FORD and follows every link (not counted).",
        "note": "Partial: the existence of fragments and of entity pages is only checked by the bounded walk.",
    },
    "C16": {
        "engines": ["A", "S", "Bd"],
        "technique": "contract-based deductive verification: block contracts (VCs from the AST, z3 / cvc5 strings) on find_used_modules' search loop, dict2obj's URL "
                     "re-basing and the per-project body of load_external_modules (call-site preconditions, exception containment against assumed library raise sets); "
                     "structural obligations on LINK_TYPES order and the export format; bounded export/import runs of real project pairs",
        "text": "Narrow claim. Proved for all inputs: USE binds to the first match in local-then-external order; export './u' then import yields base (+) u; a remote base "
                "reaches dict2obj slash-terminated and equal to the fetch location; no declared library exception escapes one external project's handling. Which entities "
                "are exported (obj2dict recursion), their existence in A's output and the rendering of the links are covered by bounded real runs only (not counted).",
        "note": "Partial: round-trip of the entity set is bounded; library raise sets and urljoin's value are assumptions.",
    },
    "C17": {
        "engines": ["A", "S", "Bd"],
        "technique": "contract-based deductive verification: loop-invariant VCs (fold specification over the merged listing, uninterpreted file-system predicates) for the "
                     "walk of get_page_tree and a postcondition on PageNode.path, z3; structural obligations on the listing/merge statements; bounded real runs over page trees",
        "text": "Narrow claim. Proved for every listing: subpages and files are the entry-by-entry fold of the merged list in order (skip rules, sub-tree / page / file "
                "classification, a title-less page is skipped without affecting its siblings), only the 'listed entry does not exist' ValueError escapes; output path is "
                "<location>/<stem>.html. Copying (writeout), aliases, relative links and navigation rendering are covered by bounded real runs over 8 fixed and seeded random "
                "page directories (not counted).",
        "note": "Partial: the merge expression is recognised structurally; copying and links are bounded only.",
    },
    "C18": {
        "engines": ["A", "S", "Bd"],
        "technique": "contract-based deductive verification: VCs from the AST of FortranVariable.full_type and full_declaration (string theory, fold specification of the "
                     "attribute list, z3 / cvc5); escape-filter obligations over the jinja2 AST of every template expression that prints an initial value or bind name; "
                     "bounded differential rendering (placeholders vs HTML-significant contents)",
        "text": "Narrow claim. Proved for every variable: the display strings are assembled exactly from type, kind, len, prototype, attributes, dimension and parameter; "
                "every template site that prints an initial value or bind name escapes it. That the parsed fields hold the source text, literal re-insertion and all other "
                "template sites are covered by a bounded differential run of the real FORD (not counted). One known finding (relational operators in kind/len/dimension "
                "expressions are printed raw).",
        "note": "Partial: parser side and most template sites are bounded only.",
    },
    "C14": {
        "engines": ["A", "Bd"],
        "technique": "contract-based deductive verification: VCs from the AST of FortranLine.__analyse (array-encoded line, bounded column windows) against "
                     "the fixed-form column rules, z3; bounded differential run of the real reader on both renderings of a token program",
        "text": "Proved for lines of any length: the classifier's flags are exactly the column rules (comment iff column 1 in cC*!, OpenMP sentinel "
                "excepted; continuation iff regular and column 6 neither blank nor '0'; long iff limit on and beyond column 72). The string-building "
                "half (__convert, continueLine, convertToFree) and the composition with the free-form reader are outside the encoding: a bounded "
                "differential stand-in (400 renderings) covers them and is not counted. One known finding (sequence field leaks into inline docs).",
        "note": "Partial: classification only is proved.",
    },
    "C01": {
        "engines": ["A", "B", "Bd"],
        "technique": "contract-based deductive verification: contracts on the regex constants of the statement-dispatch cascade (coverage of every spelling, "
                     "first-match against every earlier branch, case closure, exclusion of executable statements) decided by z3's regex solver on "
                     "CPython's parse of the live patterns; loop-invariant VCs for paren_split / get_parens; call-site preconditions of re.sub",
        "text": "Parser mechanisms of C01 proved for all strings: for 23 statement kinds every spelling of the supported subset (END forms, kind spellings, "
                "attribute statements, optional '::', prefixes, result/bind clauses) is accepted and fully consumed by its pattern and by no branch tested "
                "earlier; dispatch is case-independent; assignments, calls, control constructs and I/O statements never match a declaration pattern; "
                "paren_split and get_parens equal their depth-based specification. The tree-building code (constructor recursion, _cleanup, "
                "process_attribs, line_to_variables) is not proved: a bounded differential run over 96 equivalent spellings stands in (not counted).",
        "note": "Partial: parser correctness as a whole is not provable here; the statement-kind oracle is an under-approximation of the subset.",
    },
    "C08": {
        "engines": ["A", "B", "Bd"],
        "technique": "contract-based deductive verification: loop-invariant VCs for strip_paren (depth-selecting transducer) and the Associations lookups from "
                     "their ASTs (z3); regex-language obligations on CALL_RE / SUBCALL_RE / ARITH_GOTO_RE / FORMAT_RE and the cascade order",
        "text": "Proved: strip_paren equals the depth-selecting transducer for any line; association lookup returns the innermost binding; every CALL statement and "
                "function reference of the supported subset reaches the call-scanning branch and is found there, masked literals never are, and FORMAT, computed "
                "GOTO and all declaration kinds are dispatched earlier. Exactness of _add_procedure_calls over all statement forms is a property of a heuristic "
                "scan: only a bounded run of the real pipeline over a statement grammar (55 programs) covers it, not counted.",
        "note": "Partial: mechanisms of the scan, not exactness for every Fortran statement form.",
    },
    "C04": {
        "engines": ["A", "Bd"],
        "technique": "contract-based deductive verification: block contracts on the default-accessibility state machine of FortranContainer.__init__ and on the per-entity "
                     "merge of access statements in process_attribs, a contract on the FortranProcedure.permission property, call-site obligations on every child "
                     "constructor's permission argument; VCs from the ASTs, z3",
        "text": "Proved for every parser state: a bare access statement sets the default for what follows (components and bindings of a type tracked separately, the type's own "
                "accessibility untouched, binding default reset at CONTAINS), outside types the children's default equals the unit's accessibility; the last access "
                "statement naming an entity wins and nobody else's accessibility changes; interface procedures take their interface's accessibility; every child "
                "constructor receives the tracked value. Attribute parsing on declarations is covered by an exhaustive run of the stated product on the real parser "
                "(bounded stand-in, not counted). Known finding: late bare access statements.",
        "note": "The known finding C04-late-default is a genuine deviation that is recorded, not repaired.",
    },
    "C15": {
        "engines": ["A", "Bd"],
        "technique": "contract-based deductive verification of ford.settings._parse_to_dict (VCs from its AST, z3 strings with uninterpreted strip); statement-order "
                     "obligations on ford.parse_arguments; the reflection-driven conversion is outside the verifier's reach and covered by a bounded run over the real schema",
        "text": "Proved: _parse_to_dict yields, for every list of `key SEP value` lines, the table of stripped keys and stripped (for URL tables: unquoted) values split at "
                "the first separator, and rejects only lines without the separator; parse_arguments applies --config, then explicit options, then path normalisation, then "
                "the refusal check. Format equivalence for all 85 options is NOT proved: convert_setting / __post_init__ / normalise_paths work by typing reflection; a "
                "bounded run of the real loaders over the real schema (151 option/value pairs x formats x working directories, precedence and error scenarios) stands in "
                "and is not counted. Known finding: --config bypasses __post_init__ normalisation for four options.",
        "note": "Mostly bounded; the proved part is one function and the override order.",
    },
    "C03": {
        "engines": ["A", "B", "Bd"],
        "technique": "contract-based deductive verification: VCs from the ASTs of read_docstring (abstract reader stream), meta_preprocessor (prefix fold) and the marker-rewriting "
                     "blocks of FortranReader.__next__; regex-language equivalence of the doc-marker patterns with the comment automaton (z3)",
        "text": "Proved: read_docstring takes exactly the maximal run of marker lines, in order, marker removed, and hands the next line back; meta_preprocessor turns a prefix of "
                "metadata lines into the table (keys lower-cased, values stripped) and returns the remaining lines untouched; pre/alt markers are rewritten to the plain marker with "
                "the text verbatim and inline use is rejected; a line is a doc line iff its first '!' in code state is followed by the marker. Attachment to the right entity across "
                "the four styles and word preservation through the admonition pre-processor and python-markdown are covered only by bounded stand-ins (20 programs, 390 bodies).",
        "note": "Partial: collection mechanisms proved; attachment and rendering bounded.",
    },
    "C19": {
        "engines": ["S", "Bd"],
        "technique": "contract-based verification of call-site preconditions: every file-system mutating call of the package (enumerated from the AST) must target a path under "
                     "output_dir / graph_dir; discharged by a path algebra over the function-local state with attribute contracts (checked in the initialisers) and "
                     "parameter contracts (checked at every caller); structural obligations on the refusal check",
        "text": "Every mutating call site (59 obligations incl. attribute, parameter and outfile contracts) is shown to target a path under the output or graph directory, given the "
                "assumed component contracts (idents, get_dir(), page paths, base names carry no separator or '..'); the refusal loop tests every source directory against itself "
                "and all ancestors after normalisation and before any mutating call. Being per-call safety facts, they hold at every prefix of a failing run; no fault is injected. "
                "Symlink resolution and library behaviour are trusted. 9 sandboxed end-to-end runs under an audit hook stand in for the composition (not counted).",
        "note": "Syntactic path algebra, not an SMT proof; component contracts assumed.",
    },
    "C12": {
        "engines": ["S", "A", "Bd"],
        "technique": "contract-based verification of an ordering discipline: every loop / comprehension over an unordered collection (enumerated from the AST) must iterate "
                     "sorted(...) or have an order-insensitive body; __lt__ contracts discharged by z3 from the ASTs; call-site obligations on toposort_flatten, name "
                     "allocation order and the removal of stale output",
        "text": "Narrow claim. Under the semantics 'iteration over a set / glob is an arbitrary permutation', each of the 20 unordered iterations of the anchor modules is "
                "sorted by the identifier order or commutes; the comparison methods are proved to be the identifier order; identifiers are allocated in source order of "
                "sorted files; writeout removes the old output first. Byte identity of two runs is a whole-history statement this family cannot reach: 8 real builds under "
                "different hash seeds and file orders stand in (not counted). Timestamps, library internals and worker scheduling are not addressed.",
        "note": "Syntactic discipline + bounded builds; not a proof of byte identity.",
    },
    "C11": {
        "engines": ["A", "B", "Bd"],
        "technique": "contract-based deductive verification: block contracts on the lookup part of FordLinkProcessor.convert_link (closure executed in line, callee contracts for "
                     "find_child / project.find with exceptional behaviour) and on the child-part tail of Project.find, a loop-invariant proof of _find_in_list, regex coverage of "
                     "LINK_RE, data contracts on the kind tables (z3)",
        "text": "Proved: convert_link selects exactly the documented lookup (own contents, then the parent's, then the project; a kind that cannot exist in a scope only skips that "
                "scope; the child part is resolved inside the found item with its kind; errors only for an impossible child kind); Project.find resolves the child part with its "
                "kind; _find_in_list returns the first entity of that name case-insensitively; LINK_RE accepts every documented spelling; every documented kind synonym maps to "
                "its collection. URL correctness from every page and code-span verbatimness depend on relpath and python-markdown: bounded stand-in only (14 references).",
        "note": "find_child itself (run-time attribute names) is outside the subset.",
    },
    "C13": {
        "engines": ["A", "S", "Bd"],
        "technique": "contract-based deductive verification of FortranGraph.add_to_graph and GraphManager.register (VCs from the ASTs, sets as aliasable containers with an "
                     "uninterpreted cardinality, z3); structural obligations on every add_node edge site and every node-constructor adjacency registration",
        "text": "Proved: add_to_graph adds the hop exactly when |hop| + |drawn| <= max_nodes, else leaves the drawn set untouched and records the truncation depth; register honours "
                "`graph: false`. Per edge site: the far endpoint is in the drawn set or is put into the hop set first (so no dangling edge once the hop is added); per adjacency "
                "insertion: its inverse is inserted in the same block; 'used by' / 'inherited by' / 'called by' walk the inverse adjacency with flipped edges. get_call_nodes, the "
                "recursion depth bound and everything graphviz does are not under contract; 5 real builds of a project with cycles, a diamond and limits stand in (not counted).",
        "note": "Partial; structural obligations are syntactic.",
    },
    "C20": {
        "engines": ["S", "A", "Bd"],
        "technique": "contract-based verification: exceptional frame of Project._fortran_file and the per-file handler of Project.__init__ as structural obligations on the ASTs; "
                     "termination variants of the scanning loops discharged by z3 as part of their function contracts",
        "text": "Shown: nothing is registered in the project before the (possibly raising) parse of a file, _fortran_file does not swallow errors, the per-file handler catches any "
                "Exception under the default settings, names the file and continues; running out of input inside a container raises; every reader error quotes the line; the "
                "character scanners and read_docstring terminate (decreasing bounded variants). That the other files' documentation is unchanged is a differential statement outside "
                "the family: 26 corruptions of one file run through the real pipeline stand in (not counted). Regex matching time is not analysed.",
        "note": "Partial; containment obligations are syntactic.",
    },
}
_NB = "no obligations built yet for this property in the current commit (planned in DESIGN.md section 6; technique not switched)"
NOT_APPLICABLE = {}

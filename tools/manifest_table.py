CLAIMED = {
    "C02": {
        "engines": ["A", "B"],
        "technique": "contract-based deductive verification: loop-invariant VCs from the AST of _contains_unterminated_string / quote_split against the "
                     "Fortran character-context automaton, and regex-language equivalence of COM_RE / docmark patterns / QUOTES_RE with spec automata (z3)",
        "text": "Necessary conditions of C02 proved for all inputs: the literal tracker and the ';' splitter simulate the Fortran character-context automaton "
                "(doubled delimiters included) for strings of any length; the comment / doc-comment patterns match exactly the lines whose first '!' in "
                "code state is (followed by) the marker, with a unique comment start; QUOTES_RE is exactly one Fortran literal. The composition inside "
                "FortranReader.__next__ is not proved.",
        "note": "Partial: per-function and per-pattern obligations only.",
    },
}
_NB = "no obligations built yet for this property in the current commit (planned in DESIGN.md section 6; technique not switched)"
NOT_APPLICABLE = {p: _NB for p in ["C01", "C03", "C04", "C05", "C06", "C07", "C08", "C09", "C10", "C11", "C12", "C13", "C14", "C15", "C16", "C17", "C18", "C19", "C20"]}

#!/usr/bin/env python3
"""Regenerate the data tables of DESIGN.md section 11 (between <!-- BEGIN:x --> / <!-- END:x --> markers) from evidence/*.json, known_findings.json and seeded/*/meta.json."""
import glob, json, os, re, subprocess, sys
V = os.path.dirname(os.path.dirname(os.path.abspath(__file__)))


def status_table():
    rows = ["| id | obligations | by kind | Bd results | discharged by back end | wall |", "|---|---|---|---|---|---|"]
    for p in sorted(glob.glob(f"{V}/evidence/C*.json")):
        ev = json.load(open(p)); c = ev["coverage"]
        kinds = {}
        for o in c.get("obligation_list", []):
            k = (o if isinstance(o, str) else o.get("id", "..")).split(".")[1]
            kinds[k] = kinds.get(k, 0) + 1
        be = c.get("discharged_by_backend") or {}
        rows.append(f"| {ev['property_id']} | {c['obligations']} | {' '.join(f'{k}:{v}' for k, v in sorted(kinds.items()))} | {len(c.get('bounded_standins', []))} | "
                    f"{', '.join(f'{k} {v}' for k, v in sorted(be.items(), key=lambda kv: -kv[1]))} | {ev['wall_s']:.0f} s |")
    return "\n".join(rows)


def fixes_table():
    k = json.load(open(f"{V}/known_findings.json"))
    rows = ["| property | commit | what failed on the tree before the repair |", "|---|---|---|"]
    for line in k["fixed"]:
        m = re.match(r"fixed: property=(C\d+) (\S+) (.*)", line)
        if m:
            rows.append(f"| {m.group(1)} | {m.group(2)} | {m.group(3)} |")
    return "\n".join(rows) + f"\n\n{len(rows) - 2} entries."


def findings_list():
    k = json.load(open(f"{V}/known_findings.json"))
    out = []
    for f in k["open"]:
        out.append(f"* **{f['id']}** ({f['property']}, obligation `{f['obligation']}`) — {f['what']}")
    return "\n".join(out)


def seeds_table():
    rows = ["| seed | change | caught by |", "|---|---|---|"]
    n = det = 0
    sup = []
    for d in sorted(glob.glob(f"{V}/seeded/C*-*/meta.json"), key=lambda p: (p.split("/")[-2].split("-")[0], int(p.split("/")[-2].split("-")[1]) if p.split("/")[-2].split("-")[1].isdigit() else 99)):
        name = d.split("/")[-2]
        if not name.split("-")[1].isdigit():
            continue
        m = json.load(open(d)); e = m.get("evaluation", {})
        if name == "C10-1":
            continue
        if m.get("superseded"):
            sup.append(f"| {name} | {(m.get('short') or '').replace('|', '/')} | superseded: {m['superseded']} |")
            continue
        n += 1
        det += 1 if e.get("detected") else 0
        desc = m.get("short") or (m.get("summary") or "").split(". ")[0][:150]
        obs = []
        for l in e.get("check_lines", []):
            if not l.startswith(("VIOLATION", "UNDECIDED")):
                continue
            o = re.sub(r"\[.*", "", l.split("obligation=")[1].split()[0])
            kind = o.split(".")[1]
            tag = "U" if l.startswith("UNDECIDED") else {"A": "proof", "B": "proof", "S": "structural", "Bd": "bounded"}.get(kind, kind)
            item = f"{tag}: `{'.'.join(o.split('.')[1:])[:64]}`"
            if item not in obs:
                obs.append(item)
        state = "" if e.get("detected") else (" **NOT DETECTED**" if e.get("patch_applies") else " (patch no longer applies)")
        rows.append(f"| {name} | {desc.replace('|', '/')} | {'; '.join(obs[:4])}{state} |")
    return ("\n".join(rows + sup) + f"\n\n{det} of {n} seeded changes are detected (exit 1 with a VIOLATION line) at the evaluated head; {len(sup)} further ones were "
            "superseded by repairs (the repaired code no longer depends on what they change: their demos pass with the change applied).")


TABLES = {"status": status_table, "fixes": fixes_table, "findings": findings_list, "seeds": seeds_table}


def main():
    p = f"{V}/DESIGN.md"
    s = open(p).read()
    for key, fn in TABLES.items():
        a, b = f"<!-- BEGIN:{key} -->", f"<!-- END:{key} -->"
        if a in s and b in s:
            s = s[:s.index(a) + len(a)] + "\n" + fn() + "\n" + s[s.index(b):]
        else:
            print(f"marker {key} missing", file=sys.stderr)
    open(p, "w").write(s)


if __name__ == "__main__":
    main()

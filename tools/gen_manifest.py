#!/usr/bin/env python3
"""Regenerates /verif/MANIFEST.json from the table below (kept next to the code so it stays current)."""
import json, os, sys
HERE = os.path.dirname(os.path.dirname(os.path.abspath(__file__)))
sys.path.insert(0, HERE)
from tools.manifest_table import CLAIMED, NOT_APPLICABLE

BASE_NOTE = ("Trusted base: the VC generators under /verif (pyvc for Python ASTs, revc for regex constants) and their stated encoding of "
             "Python/regex semantics, z3 5.1, the spec functions under /verif/specs. exit 0 means every listed obligation for this property is "
             "discharged on the current tree - not that the property is established for FORD as a whole; the composition of the verified "
             "functions (constructor recursion, python-markdown, Jinja, graphviz, file system) is unverified and listed in the evidence file.")

m = {
    "version": 1,
    "setup_cmd": "bin/setup",
    "hooks": {"guard": "FORD_VERIF", "enable": "none needed: contracts are sidecar files under /verif/contracts; /repo is read, never instrumented",
              "baseline_off_cmd": "cd /repo && /venv/bin/python -m pytest -ra -q -p no:cacheprovider --timeout=900 --continue-on-collection-errors",
              "source_commits": [], "add_only": True},
    "engines": [
        {"name": "pyvc", "path": "pyvc/", "serves_properties": sorted(p for p, v in CLAIMED.items() if "A" in v["engines"]),
         "kind_free_text": "contract-based deductive verification: VC generation by symbolic execution of the real function's AST (re-read from /repo "
                           "on every run) against sidecar contracts (requires/ensures/loop invariants/frames), discharged by z3"},
        {"name": "revc", "path": "revc/", "serves_properties": sorted(p for p, v in CLAIMED.items() if "B" in v["engines"]),
         "kind_free_text": "contracts on regex constants: CPython's own parse of the live pattern -> regular language; equivalence/inclusion/disjointness "
                           "obligations decided by z3's regex solver for all strings"},
        {"name": "bounded", "path": "bounded/", "serves_properties": sorted(p for p, v in CLAIMED.items() if "Bd" in v["engines"]),
         "kind_free_text": "bounded stand-ins (exhaustive enumeration of the real function against the executable contract); labelled bounded, never counted as proved"},
    ],
    "checks": [],
    "not_applicable": [{"property_id": p, "reason": r} for p, r in sorted(NOT_APPLICABLE.items())],
    "notes": "Technique family: contract-based deductive verification of the real code. See DESIGN.md.",
}
for p, v in sorted(CLAIMED.items()):
    m["checks"].append({
        "property_id": p,
        "quick_cmd": f"bin/check {p} --tier quick",
        "thorough_cmd": f"bin/check {p} --tier thorough",
        "evidence_file": f"evidence/{p}.json",
        "replay_cmd_template": "bin/check --replay {path}",
        "engine": "+".join(v["engines"]),
        "level_claimed": {"category": "proof", "text": v["text"], "design_ref": f"DESIGN.md section 6, {p}"},
        "level_note": v.get("note", "") + " " + BASE_NOTE,
        "technique": v["technique"],
    })
with open(os.path.join(HERE, "MANIFEST.json"), "w") as f:
    json.dump(m, f, indent=1)
print("MANIFEST.json:", len(m["checks"]), "checks,", len(m["not_applicable"]), "not applicable")

#!/usr/bin/env python3
"""Run the pinned baseline suite on /repo (or $1) and compare against /root/.vp/BASELINE.json stable_pass."""
import json, subprocess, sys, os, tempfile, xml.etree.ElementTree as ET
repo = sys.argv[1] if len(sys.argv) > 1 else "/repo"
base = json.load(open("/root/.vp/BASELINE.json"))
want = set(base["stable_pass"])
with tempfile.TemporaryDirectory() as d:
    x = os.path.join(d, "j.xml")
    subprocess.run(["/venv/bin/python", "-m", "pytest", "-ra", "-q", "-p", "no:cacheprovider", "--timeout=900",
                    "--continue-on-collection-errors", f"--junitxml={x}"], cwd=repo, stdout=subprocess.DEVNULL, stderr=subprocess.DEVNULL)
    passed = set()
    for tc in ET.parse(x).getroot().iter("testcase"):
        if not list(tc):
            passed.add(f"{tc.get('classname')}::{tc.get('name')}")
missing = sorted(want - passed)
print(f"baseline: {len(want & passed)}/{len(want)} stable tests pass; extra passes {len(passed - want)}")
for m in missing[:20]:
    print("  MISSING", m)
sys.exit(1 if missing else 0)

"""Helpers for the structural obligations that recognise a *form* of the code.

A recogniser must not turn a harmless rewrite into an alarm.  Two measures:
 * `inline(fn, expr)`: local names that are bound exactly once in the function (plain `name = <expr>`, not in a loop header, not augmented) are replaced by the expression they
   stand for before the form is compared - `target = out / "favicon.png"; copy(icon, target)` is the same form as `copy(icon, out / "favicon.png")`;
 * `decide(r, ok, replay)`: a form that is still not recognised is *undecided* (status unknown, exit 2), unless the property's stand-in finds a failing input on the real code -
   then, and only then, it is a violation, reported with that input."""
from __future__ import annotations
import ast, copy
from harness.core import PROVED, REFUTED, UNKNOWN


def single_bindings(fn):
    counts, vals = {}, {}
    for n in ast.walk(fn):
        tgts = []
        if isinstance(n, ast.Assign):
            tgts = [t for t in n.targets]
        elif isinstance(n, (ast.AugAssign, ast.AnnAssign)):
            tgts = [n.target]
        elif isinstance(n, (ast.For, ast.comprehension)):
            tgts = [n.target]
        elif isinstance(n, ast.NamedExpr):
            tgts = [n.target]
        elif isinstance(n, ast.withitem) and n.optional_vars is not None:
            tgts = [n.optional_vars]
        for t in tgts:
            for x in ast.walk(t):
                if isinstance(x, ast.Name):
                    counts[x.id] = counts.get(x.id, 0) + 1
                    if isinstance(n, ast.Assign) and len(n.targets) == 1 and x is n.targets[0]:
                        vals[x.id] = n.value
    params = {a.arg for a in fn.args.args + fn.args.kwonlyargs + fn.args.posonlyargs} if hasattr(fn, "args") else set()
    return {k: v for k, v in vals.items() if counts.get(k) == 1 and k not in params}


def inline(fn, expr, depth=3):
    """expr with the once-bound local names of fn replaced by their values (a copy)"""
    binds = single_bindings(fn)

    class T(ast.NodeTransformer):
        def visit_Name(self, node):
            if isinstance(node.ctx, ast.Load) and node.id in binds:
                return copy.deepcopy(binds[node.id])
            return node
    e = copy.deepcopy(expr)
    for _ in range(depth):
        new = T().visit(copy.deepcopy(e))
        ast.fix_missing_locations(new)
        if ast.dump(new) == ast.dump(e):
            break
        e = new
    return e


def text(fn, expr):
    return ast.unparse(inline(fn, expr))


def decide(r, ok, replay, why_unknown="the code is not of the recognised form; the property's stand-in finds no failing input"):
    """sets r.status (and r.replay): PROVED if ok; else REFUTED iff the stand-in confirms a failing input on the real code; else UNKNOWN"""
    if ok:
        r.status = PROVED
        return r
    hit = None
    if replay is not None:
        try:
            hit = replay()
        except Exception as e:           # a stand-in that cannot run decides nothing
            hit = None
            why_unknown += f" (stand-in failed: {type(e).__name__})"
    if hit:
        r.status = REFUTED
        r.replay = hit if isinstance(hit, dict) else {"confirmed": True, "input": "see `how`", "actual": repr(hit)[:600], "expected": "no deviation", "how": "the property's stand-in on the real code"}
    else:
        r.status = UNKNOWN
        r.detail = ((r.detail + "; ") if r.detail else "") + why_unknown
    return r

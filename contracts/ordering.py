"""Ordering-discipline obligations for C12: iteration over an unordered collection (set, file-system enumeration) is an arbitrary permutation.
Every loop / comprehension over such a collection in the anchor modules must either iterate `sorted(...)` of it, or have an order-insensitive
body (a short list of accepted shapes, each recognised syntactically: pure membership/any/all tests, building another set, adding to sets,
summing)."""
from __future__ import annotations
import ast
from harness.core import OR, PROVED, REFUTED, UNKNOWN
from harness import loader

MODULES = ["ford.fortran_project", "ford.graphs", "ford.sourceform", "ford.output", "ford.settings", "ford.pagetree", "ford.external_project", "ford.reader", "ford.utils", "ford._markdown", "ford.__init__"]
SET_RETURNING_CALLS = {"find_all_files", "set", "frozenset", "glob", "rglob", "iterdir", "listdir", "scandir"}


def set_attrs(tree):
    """attribute names assigned a set somewhere in the module (self.x = set() / set([...]) / {..} / annotated Set[...])"""
    names = set()
    for n in ast.walk(tree):
        tgt, val, ann = None, None, None
        if isinstance(n, ast.Assign) and len(n.targets) == 1:
            tgt, val = n.targets[0], n.value
        elif isinstance(n, ast.AnnAssign):
            tgt, val, ann = n.target, n.value, n.annotation
        if isinstance(tgt, ast.Attribute):
            if ann is not None and ast.unparse(ann).startswith(("Set[", "set[", "typing.Set[")):
                names.add(tgt.attr)
            if (ann is not None and "Set[" in ast.unparse(ann) and ast.unparse(ann).startswith(("Dict[", "dict[", "DefaultDict[", "defaultdict["))) or \
                    (isinstance(val, ast.Call) and ast.unparse(val.func).endswith("defaultdict") and val.args and ast.unparse(val.args[0]) == "set"):
                DICT_OF_SETS.add(tgt.attr)
            if val is not None and is_set_expr(val, set()):
                names.add(tgt.attr)
    return names


DICT_OF_SETS = set()          # attribute names assigned `defaultdict(set)` / annotated Dict[.., Set[..]] somewhere in the scanned modules (filled by set_attrs)


def is_set_expr(e, setattrs, localsets=()):
    if isinstance(e, (ast.Set, ast.SetComp)):
        return True
    if isinstance(e, ast.Subscript) and isinstance(e.value, ast.Attribute) and e.value.attr in DICT_OF_SETS:
        return True               # one value of a dictionary of sets
    if isinstance(e, ast.Call):
        f = e.func
        name = f.id if isinstance(f, ast.Name) else (f.attr if isinstance(f, ast.Attribute) else None)
        if name in SET_RETURNING_CALLS:
            return True
        if name == "sorted" and e.args and any(k.arg == "key" for k in e.keywords) and is_set_expr(e.args[0], setattrs, localsets):
            return True       # stable sort with a key: elements with equal keys keep the unordered source's order - still not a determined order
        if name == "getattr" and len(e.args) >= 2 and isinstance(e.args[1], ast.Constant) and e.args[1].value in setattrs:
            return True
        if name in ("union", "intersection", "difference", "symmetric_difference"):
            return True
        if name in ("ProgressBar",) and len(e.args) >= 2:
            return is_set_expr(e.args[1], setattrs, localsets)
        return False
    if isinstance(e, ast.NamedExpr):
        return is_set_expr(e.value, setattrs, localsets)
    if isinstance(e, ast.BinOp) and isinstance(e.op, (ast.BitOr, ast.BitAnd, ast.Sub, ast.BitXor)):
        return is_set_expr(e.left, setattrs, localsets) or is_set_expr(e.right, setattrs, localsets)
    if isinstance(e, ast.Attribute) and e.attr in setattrs:
        return True
    if isinstance(e, ast.Name) and e.id in localsets:
        return True
    return False


def is_sorted_wrapped(e):
    if isinstance(e, ast.Call) and isinstance(e.func, ast.Name) and e.func.id == "sorted":
        # sorted() is stable: with a key function, elements with equal keys keep the order of the (unordered) source.  Only the natural order of the
        # elements (paths, strings, nodes ordered by their injective ident: C12's __lt__ contracts) is accepted as a total order.
        return not any(k.arg == "key" for k in e.keywords)
    if isinstance(e, ast.Call) and isinstance(e.func, ast.Name) and e.func.id == "ProgressBar" and len(e.args) >= 2:
        return is_sorted_wrapped(e.args[1])
    if isinstance(e, ast.NamedExpr):
        return is_sorted_wrapped(e.value)
    if isinstance(e, ast.Call) and isinstance(e.func, ast.Name) and e.func.id in ("enumerate", "list", "reversed") and e.args:
        return is_sorted_wrapped(e.args[0])
    return False


IDEMPOTENT_CALLS = {"get_node", "get_module_node", "get_type_node", "get_procedure_node", "get_file_node"}              # GraphData.get_node: one node per entity, registered once (C13 contract) - the same result in any order
DISJOINT_WRITERS = {"create_svg", "touch"}   # each iteration writes its own file (graph idents are injective, C10): effects commute


def _pure_rhs(e):
    for n in ast.walk(e):
        if isinstance(n, ast.Call):
            f = n.func
            name = f.attr if isinstance(f, ast.Attribute) else (f.id if isinstance(f, ast.Name) else None)
            if name not in IDEMPOTENT_CALLS | {"getattr", "isinstance", "len", "str", "hasattr"}:
                return False
    return True


def sorted_root_lists(fn, tree=None, depth=0):
    """names of local lists that are only handed, as the root collection, to a *Graph(...) constructor (FortranGraph.__init__ sorts its roots) - in this function, or, for a list
    that a private helper returns, at every place in the module where the helper's result is bound (`a, b = self._helper()` ... `ModuleGraph(a, ..)`)"""
    names = set()
    for n in ast.walk(fn):
        if isinstance(n, ast.Call) and isinstance(n.func, ast.Name) and n.func.id.endswith("Graph") and n.args and isinstance(n.args[0], ast.Name):
            names.add(n.args[0].id)
    if tree is not None and depth < 2 and fn.name.startswith("_") and not fn.name.startswith("__"):
        rets = [r.value for r in ast.walk(fn) if isinstance(r, ast.Return) and r.value is not None]
        shapes = {tuple(e.id if isinstance(e, ast.Name) else None for e in (r.elts if isinstance(r, ast.Tuple) else [r])) for r in rets}
        if len(shapes) == 1:
            shape = next(iter(shapes))
            callers = [f for f in ast.walk(tree) if isinstance(f, ast.FunctionDef) and f is not fn]
            bound, escapes = [], False
            for f in callers:
                for st in ast.walk(f):
                    for c in ast.walk(st) if isinstance(st, ast.stmt) else []:
                        if isinstance(c, ast.Call) and ((isinstance(c.func, ast.Attribute) and c.func.attr == fn.name) or (isinstance(c.func, ast.Name) and c.func.id == fn.name)):
                            if isinstance(st, ast.Assign) and st.value is c and len(st.targets) == 1:
                                t = st.targets[0]
                                tn = tuple(e.id if isinstance(e, ast.Name) else None for e in (t.elts if isinstance(t, ast.Tuple) else [t]))
                                if len(tn) == len(shape):
                                    bound.append((f, tn))
                                    continue
                            if isinstance(st, (ast.Assign, ast.Expr, ast.Return)) and any(x is c for x in ast.walk(st)):
                                escapes = escapes or not (isinstance(st, ast.Assign) and st.value is c)
            if bound and not escapes:
                for k, local in enumerate(shape):
                    if local and all(tn[k] is not None and tn[k] in sorted_root_lists(f, tree, depth + 1) for f, tn in bound):
                        names.add(local)
    return names


def body_order_insensitive(body, sorted_lists=()):
    """accepted shapes: every statement only (a) adds to / updates a set, (b) augments a number, (c) is an `if` over such statements, (d) sets an attribute
    to a constant, (e) continue/pass; no list append, no name allocation, no output"""
    for st in body:
        if isinstance(st, (ast.Pass, ast.Continue)):
            continue
        if isinstance(st, ast.If):
            if not (body_order_insensitive(st.body, sorted_lists) and body_order_insensitive(st.orelse, sorted_lists)):
                return False
            continue
        if isinstance(st, ast.Expr) and isinstance(st.value, ast.Call) and isinstance(st.value.func, ast.Attribute) and st.value.func.attr in ("add", "update", "discard"):
            continue
        if isinstance(st, ast.AugAssign) and isinstance(st.op, (ast.Add, ast.BitOr)) and not isinstance(st.value, (ast.List, ast.ListComp)):
            continue
        if isinstance(st, ast.Assign) and all(isinstance(t, ast.Attribute) for t in st.targets) and isinstance(st.value, ast.Constant):
            continue
        if isinstance(st, ast.Assign) and all(isinstance(t, ast.Name) for t in st.targets) and _pure_rhs(st.value):
            continue          # a local binding from an idempotent lookup
        if isinstance(st, ast.Expr) and isinstance(st.value, ast.Call) and isinstance(st.value.func, ast.Attribute) and st.value.func.attr in DISJOINT_WRITERS:
            continue
        if isinstance(st, ast.Expr) and isinstance(st.value, ast.Call) and isinstance(st.value.func, ast.Attribute) and st.value.func.attr == "append" and \
                isinstance(st.value.func.value, ast.Name) and st.value.func.value.id in sorted_lists:
            continue          # the list is sorted by the graph constructor it is handed to
        return False
    return True


ORDER_FREE = {"sorted", "len", "any", "all", "sum", "set", "frozenset", "min", "max", "bool", "isinstance", "Counter"}


def _inherits_order(e, unordered):
    """does the value of e list elements in an order taken from one of the `unordered` locals?"""
    if isinstance(e, ast.Call):
        f = e.func
        name = f.id if isinstance(f, ast.Name) else (f.attr if isinstance(f, ast.Attribute) else None)
        if name in ORDER_FREE:
            return name == "sorted" and any(k.arg == "key" for k in e.keywords) and any(_inherits_order(a, unordered) for a in e.args)
        if name in ("list", "tuple", "fromkeys", "chain", "reversed", "enumerate", "dict", "OrderedDict", "filter", "map"):
            return any(_inherits_order(a, unordered) for a in e.args)
        return False
    if isinstance(e, ast.Name):
        return e.id in unordered
    if isinstance(e, ast.BinOp) and isinstance(e.op, ast.Add):
        return _inherits_order(e.left, unordered) or _inherits_order(e.right, unordered)
    if isinstance(e, (ast.ListComp, ast.GeneratorExp)):
        return any(_inherits_order(g.iter, unordered) for g in e.generators)
    if isinstance(e, ast.IfExp):
        return _inherits_order(e.body, unordered) or _inherits_order(e.orelse, unordered)
    if isinstance(e, ast.Starred):
        return _inherits_order(e.value, unordered)
    if isinstance(e, (ast.List, ast.Tuple)):
        return any(_inherits_order(x, unordered) for x in e.elts)
    return False


def obligations(prop="C12"):
    out = []
    for mod in MODULES:
        _, tree = loader.module_source(mod)
        sa = set_attrs(tree)
        fns = []
        for n in tree.body:
            if isinstance(n, ast.FunctionDef):
                fns.append((n.name, n))
            elif isinstance(n, ast.ClassDef):
                fns += [(f"{n.name}.{m.name}", m) for m in n.body if isinstance(m, ast.FunctionDef)]
        # per-class view for `self.X`: X is set-typed only if this class, an ancestor or a descendant assigns a set to it
        classes = {n.name: n for n in tree.body if isinstance(n, ast.ClassDef)}

        def family(cname):
            """the class, its ancestors and its descendants (not its siblings)"""
            up, todo = set(), [cname]
            while todo:
                c = todo.pop()
                if c in up or c not in classes:
                    continue
                up.add(c)
                todo += [b.id for b in classes[c].bases if isinstance(b, ast.Name)]
            down, todo = set(), [cname]
            while todo:
                c = todo.pop()
                if c in down or c not in classes:
                    continue
                down.add(c)
                todo += [k for k, v in classes.items() if any(isinstance(b, ast.Name) and b.id == c for b in v.bases)]
            return up | down
        class_sets = {c: set_attrs(ast.Module(body=[classes[c]], type_ignores=[])) for c in classes}
        for qual, fn in fns:
            cname = qual.split(".")[0] if "." in qual else None
            self_sets = set().union(*[class_sets[c] for c in family(cname)]) if cname else set()
            localsets = {t.id for st in tree.body if isinstance(st, (ast.Assign, ast.AnnAssign)) and getattr(st, "value", None) is not None and is_set_expr(st.value, set())
                         for t in (st.targets if isinstance(st, ast.Assign) else [st.target]) if isinstance(t, ast.Name)}     # module-level constants holding a set
            becomes_set_at = {}
            for n in ast.walk(fn):
                if isinstance(n, ast.Assign) and len(n.targets) == 1 and isinstance(n.targets[0], ast.Attribute) and is_set_expr(n.value, set()):
                    becomes_set_at[n.targets[0].attr] = min(becomes_set_at.get(n.targets[0].attr, 10**9), n.lineno)
            for n in ast.walk(fn):
                if isinstance(n, ast.Assign) and len(n.targets) == 1 and isinstance(n.targets[0], ast.Name) and is_set_expr(n.value, sa):
                    localsets.add(n.targets[0].id)
                if isinstance(n, ast.AnnAssign) and isinstance(n.target, ast.Name) and ast.unparse(n.annotation).startswith(("Set[", "set[")):
                    localsets.add(n.target.id)
            # an order is inherited: a local list built from an unordered local (concatenation, list(), dict.fromkeys, comprehension) has an undetermined order too,
            # unless it goes through sorted() without a key or an order-insensitive reduction
            changed = True
            while changed:
                changed = False
                for n in ast.walk(fn):
                    if isinstance(n, ast.Assign) and len(n.targets) == 1 and isinstance(n.targets[0], ast.Name) and n.targets[0].id not in localsets:
                        if _inherits_order(n.value, localsets):
                            localsets.add(n.targets[0].id)
                            changed = True
            k = 0
            for n in ast.walk(fn):
                iters = []
                if isinstance(n, ast.Starred) and isinstance(n.ctx, ast.Load):
                    iters.append((n.value, [ast.Expr(value=ast.Constant(value="order-sensitive: unpacked into a sequence"))], "unpacking"))
                if isinstance(n, ast.Call) and isinstance(n.func, ast.Attribute) and n.func.attr == "join" and len(n.args) == 1:
                    iters.append((n.args[0], [ast.Expr(value=ast.Constant(value="order-sensitive: joined into a string"))], "join"))
                if isinstance(n, ast.For):
                    iters.append((n.iter, n.body, "for"))
                elif isinstance(n, (ast.ListComp, ast.GeneratorExp, ast.DictComp)):
                    for g in n.generators:
                        iters.append((g.iter, None, type(n).__name__))
                for it, body, kind in iters:
                    if not is_set_expr(it, sa, localsets):
                        continue
                    if isinstance(it, ast.Attribute) and isinstance(it.value, ast.Name) and it.value.id == "self" and it.attr not in self_sets and not is_set_expr(it, set(), localsets):
                        continue      # in this class family the attribute is never a set
                    if isinstance(it, ast.Attribute) and it.attr in becomes_set_at and it.lineno < becomes_set_at[it.attr]:
                        continue      # still the list it was built as: it is turned into a set later in this function
                    if kind == "ListComp" and isinstance(n.elt, ast.Tuple) and ast.unparse(n.elt.elts[-1]) == "self.graphdir":
                        out.append(OR(id=f"{prop}.S.{mod.split('.')[-1]}.{qual}.iter{k}", status=PROVED, kind="S", role="pre", backend="ast", target=f"{mod}.{qual}",
                                      desc=f"task list over unordered `{ast.unparse(it)[:40]}`: each task writes its own graph files (distinct idents), order of tasks is irrelevant"))
                        k += 1
                        continue
                    if is_sorted_wrapped(it):
                        status, why = PROVED, "iterates sorted(...)"
                    elif kind == "GeneratorExp" or (kind == "ListComp" and _consumed_order_free(fn, n)):
                        status, why = PROVED, "result consumed by an order-insensitive reduction (any/all/sum/set/sorted/min/max/len)"
                    elif body is not None and body_order_insensitive(body, sorted_root_lists(fn, tree)):
                        status, why = PROVED, "loop body is order-insensitive (only set additions / counters / constant flags)"
                    else:
                        status, why = REFUTED, "unordered iteration with an order-sensitive body (appends, numbering, output)"
                    r = OR(id=f"{prop}.S.{mod.split('.')[-1]}.{qual}.iter{k}", status=status, kind="S", role="pre", backend="ast", target=f"{mod}.{qual}",
                           desc=f"{kind} over unordered `{ast.unparse(it)[:60]}`: {why}")
                    if status == REFUTED:
                        r.witness = {"iter": ast.unparse(it)[:120], "line": getattr(it, "lineno", 0)}
                    out.append(r)
                    k += 1
    # the contract the previous rule relies on: FortranGraph.__init__ sorts its root collection
    try:
        init = loader.find_def("ford.graphs", "FortranGraph.__init__")
        ok = any(isinstance(n, ast.Assign) and ast.unparse(n).replace(" ", "").startswith("root=sorted(") for n in ast.walk(init))
        out.append(OR(id=f"{prop}.S.graphs.FortranGraph.__init__.roots_sorted", status=PROVED if ok else REFUTED, kind="S", role="post", backend="ast",
                      target="ford.graphs.FortranGraph.__init__", desc="the root collection of every graph is sorted before use"))
    except loader.TargetMissing:
        out.append(OR(id=f"{prop}.S.graphs.FortranGraph.__init__.roots_sorted", status=UNKNOWN, kind="S", target="ford.graphs.FortranGraph.__init__", detail="not found"))
    if not out:
        out.append(OR(id=f"{prop}.S.ordering.anchor", status=UNKNOWN, kind="S", target="ordering", detail="no iteration over an unordered collection found"))
    return out


def _consumed_order_free(fn, comp):
    for n in ast.walk(fn):
        if isinstance(n, ast.Call) and isinstance(n.func, ast.Name) and n.func.id in ("any", "all", "sum", "set", "sorted", "min", "max", "len", "frozenset") and n.args and n.args[0] is comp:
            return True
    return False


def lt_contracts(prop="C12"):
    """__lt__ of entities and graph nodes orders by the (injective, C10) identifier: sorting a set by it yields one order whatever the iteration order"""
    import z3
    from pyvc.contract import Contract, TRef, verify
    from pyvc.values import SStr
    IDENT = z3.Function("IDENT", z3.IntSort(), z3.StringSort())
    out = []
    for mod, qual in (("ford.sourceform", "FortranBase.__lt__"), ("ford.graphs", "BaseNode.__lt__")):
        c = Contract(mod, qual, prop)
        c.fields = {"ident": "str", "name": "str"}
        c.param("self", TRef())
        c.param("other", TRef())
        if "sourceform" in mod:
            c.props["ident"] = lambda eng, path, obj: SStr(IDENT(obj.t))
            key = lambda v, o: IDENT(o)
        else:
            key = lambda v, o: z3.Select(v._e.field_array(v._p, "ident"), o)
        c.ensures("orders_by_identifier", lambda v0, res, v1, key=key: res.t == (key(v0, v0.self) < key(v0, v0.other)))
        c.no_raise = True
        out += verify(c)
    return out


def structural(prop="C12"):
    out = []
    # toposort_flatten must keep its default deterministic tie-breaking (sort=True) wherever FORD orders entities with it
    n = 0
    for mod in ("ford.fortran_project", "ford.sourceform"):
        _, tree = loader.module_source(mod)
        for c in ast.walk(tree):
            if isinstance(c, ast.Call) and isinstance(c.func, ast.Attribute) and c.func.attr == "toposort_flatten":
                bad = [k for k in c.keywords if k.arg == "sort" and not (isinstance(k.value, ast.Constant) and k.value.value is True)] or len(c.args) > 1
                out.append(OR(id=f"{prop}.S.{mod.split('.')[-1]}.toposort_flatten.call{n}", status=REFUTED if bad else PROVED, kind="S", role="pre", backend="ast", target=mod,
                              desc="toposort_flatten is called with its deterministic tie-breaking (sort=True, the default): entities of one dependency level come out ordered by __lt__"))
                n += 1
    # hash values differ from run to run (strings are salted by PYTHONHASHSEED, objects hash by address): the only place one may be computed is a __hash__ method, for the use of
    # sets and dicts; anywhere else it is a number on its way into the output
    nh = 0
    for mod in MODULES:
        _, tree = loader.module_source(mod)
        inside = {id(c) for f in ast.walk(tree) if isinstance(f, ast.FunctionDef) and f.name == "__hash__" for c in ast.walk(f)}
        for c in ast.walk(tree):
            if isinstance(c, ast.Call) and isinstance(c.func, ast.Name) and c.func.id == "hash" and id(c) not in inside:
                r = OR(id=f"{prop}.S.{mod.split('.')[-1]}.hash_value_outside___hash__.site{nh}", status=REFUTED, kind="S", role="pre", backend="ast", target=mod,
                       desc=f"`{ast.unparse(c)[:60]}` (line {c.lineno}): a hash value is computed outside a __hash__ method")
                r.witness = {"call": ast.unparse(c), "line": c.lineno}
                r.detail = "the value changes with PYTHONHASHSEED / object addresses; whatever is derived from it (a colour, an order, a name) changes from run to run"
                out.append(r)
                nh += 1
    out.append(OR(id=f"{prop}.S.no_hash_value_outside___hash__", status=PROVED if nh == 0 else REFUTED, kind="S", role="pre", backend="ast", target="ford/*.py",
                  desc=f"no call of the builtin hash() outside __hash__ methods in {len(MODULES)} modules"))
    # stale output cannot survive: the first file-system effects of writeout remove the output directory
    fn = loader.find_def("ford.output", "Documentation.writeout")
    first_effect = None
    for st in fn.body:
        s = ast.unparse(st)
        if any(w in s for w in (".unlink()", "shutil.rmtree(", ".mkdir(", "copytree(", "shutil.copy", "write_")):
            first_effect = s
            break
    ok = first_effect is not None and "out_dir.unlink()" in first_effect and "shutil.rmtree(out_dir" in first_effect
    out.append(OR(id=f"{prop}.S.output.writeout.removes_output_dir_first", status=PROVED if ok else REFUTED, kind="S", role="post", backend="ast", target="ford.output.Documentation.writeout",
                  desc="the first file-system effect of writeout is the removal of the whole output directory (nothing of an earlier run survives)"))
    # output names are allocated in source order right after each file is parsed
    ff = loader.find_def("ford.fortran_project", "Project._fortran_file")
    body = [ast.unparse(st) for st in ff.body]
    i_new = next((i for i, s in enumerate(body) if s.startswith("new_file = FortranSourceFile(")), None)
    i_alloc = next((i for i, s in enumerate(body) if s.startswith("for entity in new_file.markdownable_items") and ".ident" in s), None)
    i_reg = next((i for i, s in enumerate(body) if "self.modules.append" in s or s.startswith("for module in new_file.modules")), None)
    ok = None not in (i_new, i_alloc, i_reg) and i_new < i_alloc < i_reg
    out.append(OR(id=f"{prop}.S.fortran_project._fortran_file.names_allocated_in_source_order", status=PROVED if ok else REFUTED, kind="S", role="post", backend="ast",
                  target="ford.fortran_project.Project._fortran_file", desc="identifiers (first come, first served) are requested for every entity of a file right after it is parsed, before anything else can ask"))
    return out


def template_obligations(prop="C12"):
    """the templates iterate attributes of the entities: an attribute the parser turns into a set (read from the assignments of ford/sourceform.py and
    ford/fortran_project.py on every run) has no order of its own, so a `{% for x in E.attr %}` over it must go through the `sort` filter"""
    import os
    out = []
    names = set_attrs(loader.module_source("ford.sourceform")[1]) | set_attrs(loader.module_source("ford.fortran_project")[1])
    try:
        import jinja2, jinja2.nodes as N
        env = jinja2.Environment()
        tdir = os.path.join(os.path.dirname(loader.module_path("ford.output")), "templates")
        k = 0
        for name in sorted(os.listdir(tdir)):
            if not name.endswith(".html"):
                continue
            tree = env.parse(open(os.path.join(tdir, name), encoding="utf-8").read())
            for f in tree.find_all(N.For):
                base, filters = f.iter, []
                while isinstance(base, N.Filter):
                    filters.append(base.name)
                    base = base.node
                if isinstance(base, N.Getattr) and base.attr in names and not (isinstance(base.node, N.Name) and base.node.name == "project"):
                    ok = "sort" in filters
                    r = OR(id=f"{prop}.S.templates.{name}.L{f.lineno}.loop_over_{base.attr}", status=PROVED if ok else REFUTED, kind="S", role="pre", backend="jinja2-ast",
                           target=f"ford/templates/{name}", desc=f"`for ... in <entity>.{base.attr}` (line {f.lineno}): the attribute is a set in ford/sourceform.py; the loop iterates it sorted")
                    if not ok:
                        r.witness = {"template": name, "line": f.lineno, "filters": filters}
                        r.detail = "the order of the rendered items follows the hash order of a set (object addresses, PYTHONHASHSEED for names of unknown modules)"
                    out.append(r)
                    k += 1
        if k == 0:
            out.append(OR(id=f"{prop}.S.templates.loops_over_sets.anchor", status=UNKNOWN, kind="S", target="ford/templates", detail=f"no template loop over one of {sorted(names)} found"))
    except Exception as e:
        out.append(OR(id=f"{prop}.S.templates.loops_over_sets", status=UNKNOWN, kind="S", target="ford/templates", detail=f"{type(e).__name__}: {e}"))
    return out


def run_time_values_obligation(prop="C12"):
    """the time of the run is the one input-independent value FORD can print: the templates print `creation_date` only under `print_creation_date` (off by default)"""
    import os
    out = []
    try:
        import jinja2, jinja2.nodes as N
        env = jinja2.Environment()
        tdir = os.path.join(os.path.dirname(loader.module_path("ford.output")), "templates")
        k = 0
        for name in sorted(os.listdir(tdir)):
            if not name.endswith(".html"):
                continue
            tree = env.parse(open(os.path.join(tdir, name), encoding="utf-8").read())

            def visit(node, guards):
                nonlocal k
                if isinstance(node, N.If):
                    names = {x.name for x in node.test.find_all(N.Name)} | ({node.test.name} if isinstance(node.test, N.Name) else set())
                    for b in node.body:
                        visit(b, guards | names)
                    for e in node.elif_:
                        visit(e, guards)
                    for b in node.else_:
                        visit(b, guards)
                    return
                if isinstance(node, N.Output):
                    for ch in node.nodes:
                        if not isinstance(ch, N.TemplateData) and any(x.name == "creation_date" for x in ([ch] if isinstance(ch, N.Name) else []) + list(ch.find_all(N.Name))):
                            ok = "print_creation_date" in guards
                            r = OR(id=f"{prop}.S.templates.{name}.L{ch.lineno}.creation_date_only_on_request", status=PROVED if ok else REFUTED, kind="S", role="pre", backend="jinja2-ast",
                                   target=f"ford/templates/{name}", desc=f"`creation_date` (line {ch.lineno}) is printed under `{{% if print_creation_date %}}` (enclosing tests name {sorted(guards)})")
                            if not ok:
                                r.witness = {"template": name, "line": ch.lineno, "guards": sorted(guards)}
                                r.detail = "the time of the run is written into every page although it was not asked for: two runs on the same inputs differ"
                            out.append(r)
                            k += 1
                for c in node.iter_child_nodes():
                    visit(c, guards)
            visit(tree, frozenset())
        if k == 0:
            out.append(OR(id=f"{prop}.S.templates.creation_date.anchor", status=UNKNOWN, kind="S", target="ford/templates", detail="no template prints creation_date"))
    except Exception as e:
        out.append(OR(id=f"{prop}.S.templates.creation_date", status=UNKNOWN, kind="S", target="ford/templates", detail=f"{type(e).__name__}: {e}"))
    return out


def serial_parallel_agreement(prop="C12"):
    """GraphManager.output_graphs has one branch for `parallel: 0` and one that hands the graphs to worker processes.  The output must not depend on the number of workers:
    for every collection the two branches save the same graphs.  Both sides are read from the AST: (collection, graph attribute) pairs of `x.<g>graph.create_svg(...)` in the
    loops of the serial branch, and of the tuples `(x.<g>graph, ..., self.graphdir) for x in self.<collection>` of the other."""
    try:
        fn = loader.find_def("ford.graphs", "GraphManager.output_graphs")
    except loader.TargetMissing as e:
        return [OR(id=f"{prop}.S.graphs.output_graphs.serial_and_parallel_save_the_same_graphs", status=UNKNOWN, kind="S", target="ford.graphs.GraphManager.output_graphs", detail=str(e))]
    br = [n for n in fn.body if isinstance(n, ast.If) and "njobs" in ast.unparse(n.test)]
    oid = f"{prop}.S.graphs.output_graphs.serial_and_parallel_save_the_same_graphs"
    if len(br) != 1 or not br[0].orelse:
        return [OR(id=oid, status=UNKNOWN, kind="S", target="ford.graphs.GraphManager.output_graphs", detail="`if njobs == 0: ... else: ...` not found")]
    serial, par = set(), set()
    # a branch may hand its work to private methods of the class (`self._output_entity_graphs()`): their bodies are read as part of the branch
    _, gtree = loader.module_source("ford.graphs")
    helpers = {m.name: m for c in gtree.body if isinstance(c, ast.ClassDef) and c.name == "GraphManager" for m in c.body if isinstance(m, ast.FunctionDef) and m.name.startswith("_")}

    def expand(stmts, depth=0):
        out = list(stmts)
        for st in stmts:
            for c in ast.walk(st):
                if isinstance(c, ast.Call) and isinstance(c.func, ast.Attribute) and isinstance(c.func.value, ast.Name) and c.func.value.id == "self" and c.func.attr in helpers and depth < 3:
                    out += expand(helpers[c.func.attr].body, depth + 1)
        return out
    br[0].body, br[0].orelse = expand(br[0].body), expand(br[0].orelse)
    for loop in [n for n in ast.walk(ast.Module(body=br[0].body, type_ignores=[])) if isinstance(n, ast.For)]:
        coll = ast.unparse(loop.iter)
        var = loop.target.id if isinstance(loop.target, ast.Name) else None
        for c in ast.walk(loop):
            if isinstance(c, ast.Call) and isinstance(c.func, ast.Attribute) and c.func.attr == "create_svg" and isinstance(c.func.value, ast.Attribute) \
                    and isinstance(c.func.value.value, ast.Name) and c.func.value.value.id == var:
                serial.add((coll, c.func.value.attr))
    for comp in [n for n in ast.walk(ast.Module(body=br[0].orelse, type_ignores=[])) if isinstance(n, ast.ListComp)]:
        g = comp.generators[0]
        coll = ast.unparse(g.iter)
        var = g.target.id if isinstance(g.target, ast.Name) else None
        if isinstance(comp.elt, ast.Tuple):
            for e in comp.elt.elts:
                if isinstance(e, ast.Attribute) and isinstance(e.value, ast.Name) and e.value.id == var and e.attr.endswith("graph"):
                    par.add((coll, e.attr))
    ok = bool(serial) and serial == par
    if not serial or not par:
        return [OR(id=oid, status=UNKNOWN, kind="S", role="post", backend="ast", target="ford.graphs.GraphManager.output_graphs",
                   detail=f"the graphs saved by the {'serial' if not serial else 'worker'} branch were not found in the form this obligation reads (loops over `x.<g>graph.create_svg(..)` / tuples `(x.<g>graph, ..)`)")]
    r = OR(id=oid, status=PROVED if ok else REFUTED, kind="S", role="post", backend="ast", target="ford.graphs.GraphManager.output_graphs",
           desc=f"the serial branch and the worker branch save the same {len(serial)} (collection, graph) pairs")
    if not ok:
        r.witness = {"only_serial": sorted(serial - par), "only_parallel": sorted(par - serial)}
        r.detail = "the set of graph files written depends on the `parallel` setting"
    return [r]

"""C13 - every graph shows exactly the relation it is documented to show (partial).  DESIGN.md section 6, C13."""
from __future__ import annotations
import time
from harness.core import Task, OR, PROVED, REFUTED
from contracts import graphsc
from contracts.common import *

PROP = "C13"


def _replay(fn):
    def run():
        res = fn(PROP)
        bad = [r for r in res if r.status == REFUTED and r.replay is None]
        if bad:
            from bounded import c13
            hit = c13.search()
            for r in bad:
                r.replay = hit
        return res
    return run


def bounded_task():
    def run():
        from bounded import c13
        t0 = time.time()
        hit = c13.search()
        r = OR(id=f"{PROP}.Bd.graphs.real_builders", status=REFUTED if hit else PROVED, kind="Bd", role="bounded", target="ford.graphs.GraphManager.graph_all (real)",
               desc="a project with a 5-cycle of calls, a diamond of module uses, a type extension chain with composition, a generic binding with a single specific and an entity with "
                    "`graph: false`, built for 5 (graph_maxdepth, graph_maxnodes) settings: no dangling edge in any DOT source, first-hop inverse consistency of uses/used-by, "
                    "inherits/inherited-by, calls/called-by, node limit respected, graph: false honoured", bound=f"{c13.count_cases()} builds of one project", cases=c13.count_cases(),
               seconds=time.time() - t0, backend="enumeration")
        if hit:
            r.replay, r.witness = hit, hit["input"]
        return [r]
    return Task(f"{PROP}.Bd.graphs", PROP, "real graphs", run)


def build(tier, seed):
    set_tier(tier)
    def _w(mk):
        def mk2():
            from bounded import c13
            c = mk(PROP)
            c.search_fn = c13.search
            return c
        mk2.__name__ = mk.__name__
        return mk2
    def _get_deps():
        from bounded import c13
        from contracts import deps
        c = deps.get_deps(PROP)
        c.search_fn = c13.search
        return c
    _get_deps.__name__ = "get_deps"
    def _wc(name):
        def mk():
            from contracts import calls
            from bounded import c13
            c = getattr(calls, name)(PROP)
            c.search_fn = c13.search
            return c
        mk.__name__ = name
        return mk
    def _psb():
        from contracts import scoping
        from bounded import c07
        c = scoping.parent_submodule_block(PROP)
        c.search_fn = c07.search
        return c
    _psb.__name__ = "parent_submodule_block"
    tasks = [Task(f"{PROP}.B.use_patterns", PROP, "USE_RE/ONLY_RE/RENAME_RE", lambda: __import__("contracts.rx_use", fromlist=["x"]).obligations(PROP)),
             a_task(PROP, _get_deps),
             Task(f"{PROP}.S.deplist", PROP, "Project.correlate deplist", lambda: __import__("contracts.deps", fromlist=["x"]).deplist_obligations(PROP, lambda: __import__("bounded.c13", fromlist=["x"]).search())),
             Task(f"{PROP}.S.local_variables", PROP, "FortranType.correlate", lambda: graphsc.local_variables_obligations(PROP)),
             a_task(PROP, _w(graphsc.add_nested_nodes)),
             a_task(PROP, _w(graphsc.add_to_graph)), a_task(PROP, _w(graphsc.register)),
             Task(f"{PROP}.S.add_node", PROP, "add_node methods", _replay(graphsc.add_node_obligations)),
             Task(f"{PROP}.S.adjacency", PROP, "node constructors", _replay(graphsc.adjacency_obligations)),
             Task(f"{PROP}.S.find_used_modules.lookup", PROP, "find_used_modules", lambda: __import__("contracts.external", fromlist=["x"]).find_used_modules_lookup(PROP, lambda: __import__("bounded.c06", fromlist=["x"]).search())),
             a_task(PROP, _psb),
             Task(f"{PROP}.S.file_identity", PROP, "FileNode.__init__", lambda: __import__("contracts.plumbing", fromlist=["x"]).file_dependencies_by_identity(PROP, lambda: __import__("bounded.c13", fromlist=["x"]).search())),
             Task(f"{PROP}.S.graph_false", PROP, "project-wide graphs", lambda: graphsc.project_graphs_respect_graph_false(PROP, lambda: __import__("bounded.c13", fromlist=["x"]).search())),
             a_task(PROP, _wc("assoc_getitem")), a_task(PROP, _wc("assoc_contains")), bounded_task()]
    meta = {
        "trusted_base": TRUSTED_BASE,
        "assumptions": PYVC_ASSUMPTIONS + [
            "sets of nodes are container references with contents Array Int Bool; len() is an uninterpreted cardinality with the ground facts CARD(empty) = 0, "
            "CARD(s + x) = CARD(s) + (0 if x in s else 1), max(CARD a, CARD b) <= CARD(a | b) <= CARD a + CARD b",
            "graphviz calls (dot.node, dot.edge) do not touch the graph object's own fields",
            "edge / adjacency obligations on add_node and the node constructors are syntactic (each edge site is guarded by the insertion of its far endpoint into the hop set; "
            "each adjacency insertion is paired with its inverse in the same block)",
        ],
        "functions_under_contract": fn_meta([("ford.sourceform", "Associations.__getitem__", "innermost ASSOCIATE batch wins: the call edge of `call item%draw()` depends on it"), ("ford.sourceform", "Associations.__contains__", None),
                                             ("ford.graphs", "FortranGraph.add_to_graph", None), ("ford.graphs", "GraphManager.register", None),
                                             ("ford.fortran_project", "Project.correlate.get_deps", "nested function; the lists it feeds (deplist) are the edges of the file graphs")]) +
        [{"methods": "every add_node in ford/graphs.py (edge sites), every *Node.__init__ (adjacency registration)"}],
        "unverified_surroundings": ["get_call_nodes (recursion over visited/result sets)", "add_nodes / _add_nested_nodes recursion depth", "graphviz, DOT text, SVG", "that obj.uses / obj.calls are right (C06-C08)"],
        "explanation": "add_to_graph extends the drawn set exactly when the node limit allows and otherwise leaves it untouched and records the cut; register honours meta.graph; every "
                       "edge site adds its far endpoint to the hop set first; every adjacency insertion is mirrored; inverse graphs walk inverse adjacency.",
    }
    return tasks, meta

"""Shared pieces of the per-property check modules."""
from __future__ import annotations
from harness.core import Task, OR
from harness import loader
from pyvc.contract import verify, Contract
from pyvc.engine import ASSUMPTIONS as PYVC_ASSUMPTIONS

TRUSTED_BASE = [
    "pyvc (the /verif AST->VC generator) and its encoding of Python semantics",
    "revc (the /verif sre_parse->regex translator), ASCII universe",
    "z3 5.1.0 (z3-solver wheel)",
    "CPython 3.12 re._parser (used to read the live patterns)",
    "spec functions/automata under /verif/specs (the meaning of 'holds')",
]

REVC_ASSUMPTIONS = [
    "revc: regex match *existence* of CPython's backtracking matcher equals language membership (no possessive/atomic constructs in the package)",
    "revc: subject strings are ASCII (code points 0..127); IGNORECASE as ASCII case pairs; \\w \\s \\d as their ASCII sets",
    "revc: capture positions are used only where a unique_split obligation has been discharged",
]


def a_task(prop, mk, tier="quick"):
    """Engine A task: verify the current source of the function against the contract built by mk()"""
    def run():
        c = mk()
        return verify(c, tier=_TIER[0])
    name = getattr(mk, "__name__", "contract")
    return Task(id=f"{prop}.A.{name}", prop=prop, target=name, run=run, tier=tier)


_TIER = ["quick"]


def set_tier(t):
    _TIER[0] = t


def fn_meta(contracts):
    out = []
    for mod, qn, dropped in contracts:
        try:
            h = loader.source_hash(mod, qn)
        except loader.TargetMissing:
            h = "missing"
        out.append({"function": f"{mod}.{qn}", "source_sha256_16": h,
                    "extraction_drops": dropped or "type annotations, docstrings, print/warn calls"})
    return out

"""Shared pieces of the per-property check modules."""
from __future__ import annotations
from harness.core import Task, OR
from harness import loader
from pyvc.contract import verify, Contract
from pyvc.engine import ASSUMPTIONS as PYVC_ASSUMPTIONS

TRUSTED_BASE = [
    "pyvc (the /verif AST->VC generator) and its encoding of Python semantics",
    "revc (the /verif sre_parse->regex translator), ASCII universe",
    "z3 5.1.0 (z3-solver wheel)",
    "CPython 3.12 re._parser (used to read the live patterns)",
    "spec functions/automata under /verif/specs (the meaning of 'holds')",
]

REVC_ASSUMPTIONS = [
    "revc: regex match *existence* of CPython's backtracking matcher equals language membership (no possessive/atomic constructs in the package)",
    "revc: subject strings are ASCII (code points 0..127); IGNORECASE as ASCII case pairs; \\w \\s \\d as their ASCII sets",
    "revc: capture positions are used only where a unique_split obligation has been discharged",
]


def a_task(prop, mk, tier="quick"):
    """Engine A task: verify the current source of the function against the contract built by mk()"""
    def run():
        c = mk()
        return verify_with_deadline(c, _TIER[0])
    name = getattr(mk, "__name__", "contract")
    return Task(id=f"{prop}.A.{name}", prop=prop, target=name, run=run, tier=tier)


def verify_with_deadline(c, tier, deadline_s=None, _attempt=0):
    """verify(c) in a forked child with a wall-clock deadline.  z3 sometimes ignores both its timeout and Z3_interrupt (observed on VCs produced from a seeded change:
    minutes inside Z3_solver_check past a 30 s budget); the child is then killed, the contract is reported as undecided and its bounded stand-in is run here."""
    import multiprocessing, os, time
    from harness.core import OR, UNKNOWN, REFUTED
    deadline_s = deadline_s or int(os.environ.get("VERIF_VERIFY_TIMEOUT", "240"))
    ctx = multiprocessing.get_context("fork")
    rx, tx = ctx.Pipe(duplex=False)

    def child():
        try:
            tx.send(("ok", verify(c, tier=tier)))
        except BaseException as e:       # noqa
            import traceback
            tx.send(("err", f"{type(e).__name__}: {e}\n" + traceback.format_exc()[-2000:]))
        finally:
            tx.close()
    p = ctx.Process(target=child)
    p.start()
    tx.close()
    if rx.poll(deadline_s):
        try:
            kind, payload = rx.recv()
        except (EOFError, OSError):
            kind, payload = "err", f"the verifier process ended without a result (exit code {p.exitcode})"
        p.join(timeout=10)
        if kind == "err" and payload.startswith("the verifier process ended without a result") and _attempt < 2:
            # the solver library crashed in the child (observed once: SIGSEGV inside libz3 on a VC set that is decided in every other run): nothing was decided, run it again
            return verify_with_deadline(c, tier, deadline_s, _attempt + 1)
        if kind == "ok":
            return payload
        from harness.loader import TargetMissing
        if payload.startswith("TargetMissing"):
            raise TargetMissing(payload.split("\n")[0][len("TargetMissing: "):])
        raise RuntimeError(payload)
    p.kill()
    p.join(timeout=10)
    target = c.target()
    out = [OR(id=f"{c.prop}.A.{c.qualname}.subset", status=UNKNOWN, kind="A", target=target, role="guard", desc="every VC of the function decided within the wall-clock budget",
              detail=f"out of reach: the solver did not return within {deadline_s} s (verifier process killed); the bounded stand-in decides")]
    if c.search_fn is not None:
        t1 = time.time()
        try:
            hit = c.search_fn()
        except Exception:
            hit = None
        if hit:
            out.append(OR(id=f"{c.prop}.Bd.{c.qualname}.standin", status=REFUTED, kind="Bd", target=target, role="bounded",
                          desc="bounded stand-in (solver budget exhausted): real function vs executable contract", witness=hit.get("input"), replay=hit,
                          seconds=time.time() - t1, backend="enumeration", bound="see contract search_fn"))
    return out


_TIER = ["quick"]


def set_tier(t):
    _TIER[0] = t


def fn_meta(contracts):
    out = []
    for mod, qn, dropped in contracts:
        try:
            h = loader.source_hash(mod, qn)
        except loader.TargetMissing:
            h = "missing"
        out.append({"function": f"{mod}.{qn}", "source_sha256_16": h,
                    "extraction_drops": dropped or "type annotations, docstrings, print/warn calls"})
    return out


def standin_task(prop, name, fn, target, desc, bound, cases=1):
    """a bounded stand-in shared with another property's check: fn() -> None | failing-input dict (never counted as proved)"""
    def run():
        import time
        from harness.core import PROVED, REFUTED
        t0 = time.time()
        hit = fn()
        r = OR(id=f"{prop}.Bd.{name}", status=REFUTED if hit else PROVED, kind="Bd", role="bounded", target=target, desc=desc, bound=bound, cases=cases, seconds=time.time() - t0, backend="enumeration")
        if hit:
            r.replay, r.witness = hit, hit.get("input") if isinstance(hit, dict) else hit
        return [r]
    return Task(f"{prop}.Bd.{name}", prop, target, run)


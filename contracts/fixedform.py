"""Engine A contracts for the fixed-form line classifier (C14): ford/fixed2free2.py FortranLine.__analyse."""
from __future__ import annotations
import z3
from pyvc.contract import *
from pyvc.values import *
from contracts.display import H, sel

FL_FIELDS = {"length_limit": "bool", "isComment": "bool", "isContinuation": "bool", "isNewComment": "bool", "isOMP": "bool", "isCppLine": "bool",
             "is_regular": "bool", "isShort": "bool", "isLong": "bool", "label": "opaque:str", "excess_line": "opaque:str", "line": "opaque:str",
             "line_conv": "opaque:str", "code": "opaque:str"}


def in_set(c, chars):
    return z3.Or(*[c == ord(x) for x in chars])


def analyse(prop="C14"):
    c = Contract("ford.fixed2free2", "FortranLine.__analyse", prop)
    c.fields = dict(FL_FIELDS)
    c.param("self", TRef("FortranLine"))
    c.param("the_line", TScan())          # ghost: the text held in self.line at entry
    c.props["line"] = lambda eng, path, obj: path.env["the_line"]
    c.methods["__convert"] = lambda eng, path, e, args, recv: SNone()
    c.assumed.append("self.__convert() (called last) does not change the classification flags (it only builds line_conv / code)")
    A = lambda v: v.val("the_line").base.arr
    N = lambda v: v.val("the_line").base.n
    isspace = lambda ch: c.isspace_char(ch)

    def flags(v1):
        return {f: sel(H(v1, f), v1.self) for f in ("isComment", "isContinuation", "isNewComment", "isOMP", "isCppLine", "is_regular", "isShort", "isLong")}

    # oracle: the fixed-form column rules of the property statement (plus FORD's documented extras: OpenMP sentinels, cpp lines)
    def col1_comment(v0):
        return z3.Or(N(v0) == 0, in_set(z3.Select(A(v0), 0), "cC*!"))

    def omp(v0):
        a = A(v0)
        lowers = [z3.Select(a, 1) == ord("$")] + [in_set(z3.Select(a, i), ch + ch.upper()) for i, ch in ((2, "o"), (3, "m"), (4, "p"))]
        return z3.And(col1_comment(v0), N(v0) >= 5, *lowers)

    def bang_in_2_5(v0):
        a, n = A(v0), N(v0)
        return z3.Or(*[z3.And(n > j, z3.Select(a, j) == ord("!")) for j in (1, 2, 3, 4)])

    def first_nonblank(v0):
        sl = v0.val("the_line")
        return FIRST_NONBLANK(sl.base.arr, sl.lo, sl.hi)

    def blank(v0):
        """a line of blanks (of any length) is a comment line"""
        return first_nonblank(v0) == v0.val("the_line").hi

    def comment_only_from_column_7(v0):
        """the first character that is not a blank is a '!' standing in column 7 or later: '!' starts a comment anywhere but in column 6"""
        r = first_nonblank(v0)
        return z3.And(r < v0.val("the_line").hi, z3.Select(A(v0), r) == ord("!"), r > 5)

    def regular(v0):
        n = N(v0)
        return z3.Not(z3.Or(z3.And(col1_comment(v0), z3.Not(omp(v0))), z3.And(z3.Or(bang_in_2_5(v0), comment_only_from_column_7(v0)), z3.Not(col1_comment(v0))),
                            z3.And(n > 0, z3.Select(A(v0), 0) == ord("#")), n <= 6, blank(v0)))
    c.ensures("comment_iff_column1_is_cC*!_and_not_an_OpenMP_sentinel",
              lambda v0, res, v1: flags(v1)["isComment"] == z3.And(col1_comment(v0), z3.Not(omp(v0))))
    c.assumed.append("str.lstrip(): FIRST_NONBLANK(arr, lo, hi) is the index of the first character of the line that is not white space (hi if there is none)")
    c.ensures("regular_iff_not_comment_cpp_blank_or_short", lambda v0, res, v1: flags(v1)["is_regular"] == regular(v0))
    c.ensures("continuation_iff_regular_and_column6_not_blank_not_zero",
              lambda v0, res, v1: flags(v1)["isContinuation"] ==
              z3.And(regular(v0), N(v0) >= 6, z3.Not(isspace(z3.Select(A(v0), 5))), z3.Select(A(v0), 5) != ord("0")))
    c.ensures("long_iff_limit_on_and_beyond_column_72", lambda v0, res, v1: flags(v1)["isLong"] == z3.And(N(v0) > 73, sel(H(v0, "length_limit"), v0.self)))
    c.no_raise = True
    return c


# ------------------------------------------------------------------ fixed2free2._inline_comment_start
def inline_comment_start(prop="C14"):
    """the scanner continueLine uses to place the continuation mark: the index of the first '!' read in state CODE of the character-context automaton (specs/lex.py), else -1"""
    from specs import lex
    from contracts.scanners import _arr, _n, _oracle_pair
    c = Contract("ford.fixed2free2", "_inline_comment_start", prop)
    c.param("text", TScan())
    c.local("quote", TOptChar())
    A = lambda v: _arr(v, "text")
    NOBANG = z3.Function("NO_CODE_BANG_BEFORE", z3.ArraySort(z3.IntSort(), z3.IntSort()), z3.IntSort(), z3.BoolSort())   # no '!' in state CODE among text[0:k]
    BANG = 33

    def unfold(v):
        arr, k = A(v), v.k
        return lex.unfold(arr, k) + [NOBANG(arr, 0), NOBANG(arr, k + 1) == z3.And(NOBANG(arr, k), z3.Not(z3.And(z3.Select(arr, k) == BANG, lex.RUN(arr, k) == lex.CODE)))]
    c.loop(0, invariants=[
        ("quote_is_state", lambda v: z3.And(z3.Implies(lex.RUN(A(v), v.k) == lex.CODE, v.quote == -1), z3.Implies(lex.RUN(A(v), v.k) == lex.SQ, v.quote == lex.QS),
                                            z3.Implies(lex.RUN(A(v), v.k) == lex.DQ, v.quote == lex.QD))),
        ("no_comment_so_far", lambda v: NOBANG(A(v), v.k)),
    ], unfold=unfold, variant=lambda v: _n(v, "text") - v.k)
    c.post_facts = lambda v0: [NOBANG(A(v0), 0)]

    def post(v0, res, v1):
        arr, n = A(v0), _n(v0, "text")
        r = res.t
        return z3.If(r == -1, NOBANG(arr, n), z3.And(0 <= r, r < n, z3.Select(arr, r) == BANG, lex.RUN(arr, r) == lex.CODE, NOBANG(arr, r)))
    c.ensures("first_exclamation_mark_outside_character_literals_else_minus_one", post)
    c.no_raise = True
    real = loader.get_obj("ford.fixed2free2", "_inline_comment_start")

    def oracle(s):
        st = lex.py_states(s)
        for i, ch in enumerate(s):
            if ch == "!" and st[i] == lex.CODE:
                return i
        return -1
    rp, search = _oracle_pair(real, oracle, lambda: ((s,) for s in lex.strings("a'\"!", 6)), "_inline_comment_start")
    c.replay_fn = lambda w: rp((w["text"],)) if w.get("text") is not None else {"confirmed": False}
    c.search_fn = search
    return c

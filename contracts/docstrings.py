"""Engine A contracts for doc-comment collection (C03): ford.sourceform.read_docstring."""
from __future__ import annotations
import z3
from pyvc.contract import *
from pyvc.engine import _Raise
from pyvc.values import *

I, S, B = z3.IntSort(), z3.StringSort(), z3.BoolSort()
SI = z3.SeqSort(I)
DOCS = z3.Function("DOCLINES", SI, I, S, SI)        # marker-stripped text of lines 0..k-1 of the stream (all of which start with the marker)
ALLDOC = z3.Function("ALLDOC", SI, I, S, B)


def unfold(R, k, mark):
    s = STR_OF(R[k])
    body = z3.SubString(s, z3.Length(mark), z3.Length(s) - z3.Length(mark))
    return [DOCS(R, 0, mark) == z3.Empty(SI), ALLDOC(R, 0, mark),
            DOCS(R, k + 1, mark) == z3.Concat(DOCS(R, k, mark), z3.Unit(SID(body))), STR_OF(SID(body)) == body,
            ALLDOC(R, k + 1, mark) == z3.And(ALLDOC(R, k, mark), z3.PrefixOf(mark, s))]


def read_docstring(prop="C03"):
    """reader modelled by its abstract view: the sequence of lines it will still deliver (field `stream` of the reader object);
    next(source) pops the head, source.pass_back(x) pushes x back in front"""
    c = Contract("ford.sourceform", "read_docstring", prop)
    c.fields = {"stream": "list:str"}
    c.param("source", TRef("FortranReader"))
    c.param("docmark", TStr())
    c.local("docmark", TStr())
    c.local("line", TStr())
    c.hints["list"] = "str"
    stream = lambda v: v.heap.list_get(SList(z3.Select(v._e.field_array(v._p, "stream"), v.source), "str"))

    def setup(eng, path):
        eng.field_array(path, "stream")
        path.heap._lmap("str")
    c.extra_setup.append(setup)

    def call_next(eng, path, e, args, recv):
        src = args[0]
        l = eng.read_field(path, src.t, "stream")
        seq = path.heap.list_get(l)
        if "StopIteration" not in getattr(path, "noraise", set()):
            raise _Raise(z3.Length(seq) > 0, "StopIteration")
        path.heap.list_set(l, z3.SubSeq(seq, 1, z3.Length(seq) - 1))
        return eng.elem_val(path, l, seq[0])
    c.calls["next"] = call_next

    def call_pass_back(eng, path, e, args, recv):
        l = eng.read_field(path, recv.t, "stream")
        path.heap.list_set(l, z3.Concat(z3.Unit(eng.elem_term(path, l, args[0])), path.heap.list_get(l)))
        return SNone()
    c.methods["pass_back"] = call_pass_back
    c.assumed.append("reader contract (assumed): next(source) delivers and removes the first line still to come or raises StopIteration; source.pass_back(x) puts x back in front")
    c.requires("stream_allocated", lambda v: z3.And(z3.Select(v._e.field_array(v._p, "stream"), v.source) > 0,
                                                   z3.Select(v._e.field_array(v._p, "stream"), v.source) < v.heap.alloc0))
    E = lambda v: V(v._e, v._e.entry)
    mark = lambda e: z3.Concat(z3.StringVal("!"), e.docmark)
    R0 = lambda e: stream(e)

    def inv(v):
        e = E(v)
        k = z3.Length(v.docstring)
        return z3.And(v.docstring == DOCS(R0(e), k, mark(e)), ALLDOC(R0(e), k, mark(e)), stream(v) == z3.SubSeq(R0(e), k, z3.Length(R0(e)) - k),
                      v.docmark == mark(e), z3.Select(v._e.field_array(v._p, "stream"), v.source) == z3.Select(e._e.field_array(e._p, "stream"), e.source))
    c.loop(0, invariants=[("collected_is_marker_stripped_prefix", inv)], unfold=lambda v: unfold(R0(E(v)), z3.Length(v.docstring), mark(E(v))),
           variant=lambda v: z3.Length(stream(v)))
    c.post_facts = lambda v0: [DOCS(R0(v0), 0, mark(v0)) == z3.Empty(SI), ALLDOC(R0(v0), 0, mark(v0))]

    def post(v0, res, v1):
        R = R0(v0)
        out = v1.heap.list_get(res)
        k = z3.Length(out)
        return z3.And(out == DOCS(R, k, mark(v0)), ALLDOC(R, k, mark(v0)),                                   # every collected line carried the marker, in order, marker removed
                      k < z3.Length(R), z3.Not(z3.PrefixOf(mark(v0), STR_OF(R[k]))),                          # maximal: the next line is not a doc line ...
                      stream(v1) == z3.SubSeq(R, k, z3.Length(R) - k))                                        # ... and it (with everything after it) is still to come
    c.ensures("consumes_exactly_the_maximal_run_of_doc_lines", post)
    c.allowed_raises = {"StopIteration"}
    return c



def converter_reset_obligations(prop="C03"):
    """FortranBase.markdown: the Markdown converter is shared by all entities of a project (Project.markdown passes one `md` to every item), and python-markdown
    keeps per-document state between convert() calls (footnotes, reference definitions, abbreviations, the HTML stash).  Every comment is a document of its own:
    the conversion that produces `self.doc` must be made on a reset converter - `md.reset().convert(...)`, or a `md.reset()` statement before it in the same function."""
    import ast
    from harness.core import OR, PROVED, REFUTED, UNKNOWN
    from harness import loader
    oid = f"{prop}.S.FortranBase.markdown.converter_reset_for_every_comment"
    try:
        fn = loader.find_def("ford.sourceform", "FortranBase.markdown")
    except loader.TargetMissing as e:
        return [OR(id=oid, status=UNKNOWN, kind="S", target="ford.sourceform.FortranBase.markdown", detail=str(e))]
    sites = [n for n in ast.walk(fn) if isinstance(n, ast.Assign) and any(ast.unparse(t) == "self.doc" for t in n.targets)]
    if len(sites) != 1:
        return [OR(id=oid, status=UNKNOWN, kind="S", target="ford.sourceform.FortranBase.markdown", detail=f"expected one assignment to self.doc, found {len(sites)}")]
    st = sites[0]
    conv = [c for c in ast.walk(st.value) if isinstance(c, ast.Call) and isinstance(c.func, ast.Attribute) and c.func.attr == "convert"]
    ok = False
    if len(conv) == 1:
        recv = conv[0].func.value
        ok = isinstance(recv, ast.Call) and isinstance(recv.func, ast.Attribute) and recv.func.attr == "reset" and not recv.args
        if not ok and isinstance(recv, ast.Name):
            # a reset statement on the same converter earlier in the function, outside any branch
            for prev in fn.body:
                if prev.lineno >= st.lineno:
                    break
                if isinstance(prev, ast.Expr) and isinstance(prev.value, ast.Call) and ast.unparse(prev.value) == f"{recv.id}.reset()":
                    ok = True
    r = OR(id=oid, status=PROVED if ok else REFUTED, kind="S", role="pre", backend="ast", target="ford.sourceform.FortranBase.markdown",
           desc=f"`{ast.unparse(st)[:100]}`: each entity's comment is converted by a reset converter (no footnote / link definition / stash state of a neighbour)")
    if not ok:
        from bounded import c03
        r.witness = {"assignment": ast.unparse(st)}
        r.detail = "the shared converter is not reset before this entity's comment is converted"
        r.replay = c03.search_project_render()
    # ... and for every entity: the conversion is reached on every call (no `return` / `continue` / `raise` before it, not inside a conditional or a loop; a `try` is fine)
    def _unconditional(body):
        for b in body:
            if b is st:
                return True
            if isinstance(b, ast.Try) and any(x is st for x in b.body):
                # the statements of the try body in front of the conversion are subject to the same rule
                return _unconditional(b.body)
            if any(isinstance(n, (ast.Return, ast.Raise, ast.Continue, ast.Break)) for n in ast.walk(b)):
                return False
        return False
    ok2 = _unconditional(fn.body)
    src_ok = "self.doc_list" in ast.unparse(st.value)
    r2 = OR(id=f"{prop}.S.FortranBase.markdown.every_entity_is_converted_from_its_comment", status=PROVED if (ok2 and src_ok) else REFUTED, kind="S", role="post", backend="ast",
            target="ford.sourceform.FortranBase.markdown",
            desc="the assignment to self.doc converts self.doc_list and is reached on every call: not guarded by a condition, no return before it (an entity whose `doc` was pre-set, "
                 "e.g. the placeholder of an inherited component, is converted like any other)")
    if not (ok2 and src_ok):
        from bounded import c03
        r2.witness = {"assignment": ast.unparse(st), "line": st.lineno}
        r2.detail = "some entities keep whatever `doc` held before: their comment never reaches the rendered documentation"
        r2.replay = c03.inherited_component_metadata() or c03.search_project_render()
    return [r, r2]


def common_doc_sharing(prop="C03", replay=None):
    """a COMMON statement that declares several blocks (`common /a/ x /b/ y`) is documented by one comment: FortranContainer.__init__ builds one FortranCommon per block (the
    first one constructed reads the comment) and then gives every block the documentation of the *first block of this statement*.  The index expression that picks that block
    is translated from the AST into integer arithmetic (Python's floor division) and proved equal to -n, n = len(split) // 2 the number of blocks, for every odd
    len(split) >= 3 (COMMON_SPLIT_RE.split yields 2n + 1 pieces)."""
    import ast
    import z3
    from harness import loader
    from harness.core import OR, PROVED, REFUTED, UNKNOWN
    oid = f"{prop}.A.FortranContainer.__init__.common_blocks_share_the_documentation_of_the_first_block"
    fn = loader.find_def("ford.sourceform", "FortranContainer.__init__")
    sites = [n for n in ast.walk(fn) if isinstance(n, ast.Assign) and len(n.targets) == 1 and ast.unparse(n.targets[0]).startswith("self.common[") and ast.unparse(n.targets[0]).endswith(".doc_list")
             and ast.unparse(n.value).startswith("self.common[") and ast.unparse(n.value).endswith(".doc_list")]
    if len(sites) != 1:
        return [OR(id=oid, status=UNKNOWN, kind="A", target="ford.sourceform.FortranContainer.__init__", detail=f"documentation-sharing assignment: {len(sites)} matches")]
    idx = sites[0].value.value.slice
    L = z3.Int("len_split")
    env = {}
    for n in ast.walk(fn):
        if isinstance(n, ast.Assign) and len(n.targets) == 1 and isinstance(n.targets[0], ast.Name) and "len(split)" in ast.unparse(n.value) and n.lineno < sites[0].lineno:
            env[n.targets[0].id] = n.value

    def tr(e):
        if isinstance(e, ast.Constant) and isinstance(e.value, int):
            return z3.IntVal(e.value)
        if isinstance(e, ast.Call) and ast.unparse(e) == "len(split)":
            return L
        if isinstance(e, ast.Name) and e.id in env:
            return tr(env[e.id])
        if isinstance(e, ast.UnaryOp) and isinstance(e.op, ast.USub):
            return -tr(e.operand)
        if isinstance(e, ast.BinOp):
            a, b = tr(e.left), tr(e.right)
            if isinstance(e.op, ast.Add):
                return a + b
            if isinstance(e.op, ast.Sub):
                return a - b
            if isinstance(e.op, ast.Mult):
                return a * b
            if isinstance(e.op, ast.FloorDiv) and isinstance(e.right, ast.Constant) and e.right.value > 0:
                return a / b            # z3 integer division rounds towards minus infinity for a positive divisor, like Python's //
        raise ValueError(ast.unparse(e))
    try:
        t = tr(idx)
    except ValueError as ex:
        return [OR(id=oid, status=UNKNOWN, kind="A", target="ford.sourceform.FortranContainer.__init__", detail=f"index expression outside the translated subset: {ex}")]
    s = z3.Solver()
    s.set("timeout", 10000)
    n = z3.Int("n")
    s.add(L == 2 * n + 1, n >= 1, t != -n)
    res = s.check()
    ok = res == z3.unsat
    r = OR(id=oid, status=PROVED if ok else (REFUTED if res == z3.sat else UNKNOWN), kind="A", role="post", backend="z3", target="ford.sourceform.FortranContainer.__init__",
           desc=f"`self.common[{ast.unparse(idx)}]` is the first block of the statement: the index equals -(len(split) // 2) for every odd len(split) >= 3")
    if res == z3.sat:
        m = s.model()
        r.witness = {"len(split)": m.eval(L, model_completion=True).as_long(), "index": m.eval(t, model_completion=True).as_long(), "expected": -m.eval(n, model_completion=True).as_long()}
        r.detail = "the documentation of another block (an empty one) overwrites every block of the statement"
        if replay:
            r.replay = replay()
    return [r]

"""Engine B contracts on the call-scanning patterns (C08)."""
from __future__ import annotations
import z3
from harness.core import OR, PROVED, REFUTED, UNKNOWN
from harness import loader
from revc.oblig import RX, lang_nonempty, _solve, _matches
from revc.translate import lang, re_full, Unsupported
from revc import spec as SP
from revc.spec import kw, ws0, ws1, NAME, seq, alt, opt, star, plus, lit, cls, notcls
from specs import stmts as ST
from contracts.cascade import read_cascade, live_patterns
from contracts.rx_cascade import guard_possible, branch_language

CALLSTMT = seq(opt(seq(ST.DIG, ws1)), opt(seq(kw("if"), ws0, ST.COND, ws0)), kw("call"), ws1, ST.LHS)          # (an optional statement label in front)
GOTO = seq(kw("go"), ws0, kw("to"), ws0, lit("("), ws0, ST.DIG, star(seq(ws0, lit(","), ws0, ST.DIG)), ws0, lit(")"), opt(seq(ws0, opt(lit(",")), ws0, ST.E1)))
ENTRY = seq(kw("entry"), ws1, NAME, ws0, opt(seq(ST.A1, ws0)), opt(seq(kw("result"), ws0, lit("("), ws0, NAME, ws0, lit(")"), ws0)))
FUNCREF_STMT = seq(ST.LHS, ws0, lit("="), ws0, opt(seq(ST.E1, ws0, ST.OPER, ws0)), NAME, ws0, ST.A1, opt(seq(ws0, ST.OPER, ws0, ST.E1)))


def obligations(prop="C08", part="all"):
    """part: 'patterns' | 'reach:<kname>:<REGEX>' | 'all'"""
    pats = live_patterns()
    cas = read_cascade()
    out = []
    if part.startswith("reach:"):
        return _reach(prop, pats, cas, part.split(":")[1], part.split(":")[2])
    T = "ford.sourceform.FortranContainer."
    sub = RX(T + "SUBCALL_RE", pats["SUBCALL_RE"], "search")
    out.append(lang_nonempty(f"{prop}.B.SUBCALL_RE.spec_inhabited", sub.name, CALLSTMT, "CALL statements"))
    out.append(sub.covers(f"{prop}.B.SUBCALL_RE.covers_call_statements", CALLSTMT,
                          "`call x`, `call x(args)`, `if (cond) call x(args)`, `call a%b%c(args)` in any letter case are found"))
    out.append(sub.case_closed(f"{prop}.B.SUBCALL_RE.case_closed"))
    call = RX(T + "CALL_RE", pats["CALL_RE"], "search")
    out.append(call.covers(f"{prop}.B.CALL_RE.covers_function_references", FUNCREF_STMT, "an assignment whose right-hand side holds `name(args)` is scanned for calls"))
    out.append(call.excludes(f"{prop}.B.CALL_RE.excludes_masked_literals", seq(NAME, ws0, lit("="), ws0, ST.MASK, star(seq(ws0, lit("//"), ws0, ST.MASK))),
                             "text inside character literals (masked as \"k\") can never look like a call"))
    out.append(call.excludes(f"{prop}.B.CALL_RE.excludes_plain_assignment", seq(NAME, ws0, lit("="), ws0, alt(NAME, ST.NUMBER), star(seq(ws0, ST.OPER, ws0, alt(NAME, ST.NUMBER)))),
                             "an assignment without parentheses records nothing"))
    g = call.excludes(f"{prop}.B.CALL_RE.mustfail", FUNCREF_STMT, "must-fail: function references are NOT excluded", must_fail=True)
    g.kind = "G"
    out.append(g)
    # the statements that must not be scanned are dispatched before the call branch
    callidx = min(b.idx for b in cas if b.regex in ("CALL_RE", "SUBCALL_RE"))
    goto = RX(T + "ARITH_GOTO_RE", pats["ARITH_GOTO_RE"], "search")
    out.append(goto.covers(f"{prop}.B.ARITH_GOTO_RE.covers", GOTO, "computed / arithmetic GOTO `go to (10, 20) i`, `goto(1,2,3), k`"))
    if "ENTRY_RE" in pats:
        ent = RX(T + "ENTRY_RE", pats["ENTRY_RE"], "match")
        out.append(ent.covers(f"{prop}.B.ENTRY_RE.covers", ENTRY, "`entry name`, `entry name(args)`, `entry name(args) result(r)` in any letter case"))
        out.append(ent.excludes(f"{prop}.B.ENTRY_RE.excludes_assignments", seq(kw("entry"), ws0, opt(ST.A1), ws0, lit("="), star(cls(SP.ALL))),
                                "an assignment to a variable called `entry` is not an ENTRY statement"))
    else:
        out.append(OR(id=f"{prop}.B.ENTRY_RE.covers", status=REFUTED, kind="B", target=T + "ENTRY_RE", desc="ENTRY statements are recognised before the call-scanning branch",
                      detail="no ENTRY_RE in the dispatch cascade: `entry name(args)` is scanned as a function reference",
                      replay={"confirmed": True, "input": "entry second(y)", "actual": "no pattern ENTRY_RE", "expected": "a pattern dispatched before CALL_RE"}))
    for name, S in (("format", ST.FORMAT), ("goto", GOTO), ("entry", ENTRY)):
        rxname = {"format": "FORMAT_RE", "goto": "ARITH_GOTO_RE", "entry": "ENTRY_RE"}[name]
        idx = [b.idx for b in cas if b.regex == rxname]
        ok = bool(idx) and idx[0] < callidx
        out.append(OR(id=f"{prop}.S.cascade.{name}_before_call_branch", status=PROVED if ok else REFUTED, kind="S", role="pre", backend="ast",
                      target="ford.sourceform.FortranContainer.__init__", desc=f"{rxname} is tested before the call-scanning branch (order read from the if/elif chain)",
                      replay=None if ok else {"confirmed": True, "input": rxname, "actual": idx, "expected": f"< {callidx}"}))
    if part == "patterns":
        pass
    if part == "all":
        for kname in ("call_stmt", "funcref_stmt"):
            for b in cas:
                if b.kind == "regex" and b.idx < callidx:
                    out += _reach(prop, pats, cas, kname, b.regex)
    # declaration kinds never reach the call branch: each is dispatched by a branch tested earlier (coverage itself is C01's obligation)
    from contracts.rx_cascade import KIND_RE
    for kind, rn in KIND_RE.items():
        idx = [b.idx for b in cas if b.regex in rn.split("|")]
        ok = bool(idx) and min(idx) < callidx
        out.append(OR(id=f"{prop}.S.cascade.{kind}_before_call_branch", status=PROVED if ok else REFUTED, kind="S", role="pre", backend="ast",
                      target="ford.sourceform.FortranContainer.__init__", desc=f"'{kind}' statements are dispatched (by {rn}) before the call-scanning branch"))
    return out


def reach_parts():
    cas = read_cascade()
    callidx = min(b.idx for b in cas if b.regex in ("CALL_RE", "SUBCALL_RE"))
    return [f"reach:{k}:{b.regex}" for k in ("call_stmt", "funcref_stmt") for b in cas if b.kind == "regex" and b.idx < callidx]


def _reach(prop, pats, cas, kname, regex):
    """CALL statements and function references reach the call branch: the earlier branch `regex` does not capture them"""
    T = "ford.sourceform.FortranContainer."
    callidx = min(b.idx for b in cas if b.regex in ("CALL_RE", "SUBCALL_RE"))
    ctx = {"incontains": False, "in_interface": False}
    ANY = star(cls(SP.ALL))
    # a user function or array called `goto` is outside the subset (it is indistinguishable from a computed GOTO)
    NOGOTO = SP.comp(seq(opt(seq(ANY, notcls(SP.WORD))), kw("go"), ws0, kw("to"), ws0, lit("("), ANY))
    S = {"call_stmt": z3.Intersect(CALLSTMT, NOGOTO), "funcref_stmt": z3.Intersect(FUNCREF_STMT, SP.comp(ST.starts_with_keyword()), NOGOTO)}[kname]
    out = []
    for b in cas:
        if b.regex != regex or b.idx >= callidx or b.kind != "regex" or not guard_possible(b.guard, ctx):
            continue
        try:
            Le = branch_language(b, pats, ctx)
        except Unsupported as e:
            out.append(OR(id=f"{prop}.B.{kname}.reaches_call_branch.not_{b.regex}", status=UNKNOWN, kind="B", target=T + b.regex, detail=f"unsupported: {e}"))
            continue
        st, w, dt, smt = _solve(lambda s: [z3.InRe(s, S), z3.InRe(s, Le)])
        r = OR(id=f"{prop}.B.{kname}.reaches_call_branch.not_{b.regex}", status=st, kind="B", target=T + b.regex, seconds=dt, smt=smt, backend="z3-seq",
               desc=f"no {kname.replace('_', ' ')} is captured by the earlier branch #{b.idx} ({b.regex})")
        if st == REFUTED:
            real = _matches(pats[b.regex], b.mode, w)
            r.witness = {"string": w}
            r.replay = {"confirmed": real, "contradicted": not real, "input": w, "actual": f"{b.regex}.{b.mode} matches", "expected": "reaches the call branch"}
        elif st == UNKNOWN:
            r.detail = str(w)
        out.append(r)
    return out

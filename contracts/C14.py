"""C14 - fixed-form sources document the same as their free-form equivalent.  DESIGN.md section 6, C14."""
from __future__ import annotations
import itertools, os, time
from harness.core import Task, OR, PROVED, REFUTED
from harness import loader
from contracts import fixedform
from contracts.common import *

PROP = "C14"


def py_flags(line, limit):
    """executable form of the classifier's postconditions (column rules of the property statement)"""
    n = len(line)
    col1 = n == 0 or line[0] in "cC*!"
    omp = col1 and n >= 5 and line[1:5].lower() == "$omp"
    bang = any(j < n and line[j] == "!" for j in (1, 2, 3, 4))
    regular = not ((col1 and not omp) or (bang and not col1) or (n > 0 and line[0] == "#") or n <= 6)
    return {"isComment": col1 and not omp, "is_regular": regular,
            "isContinuation": regular and n >= 6 and not line[5].isspace() and line[5] != "0", "isLong": n > 73 and limit}


def analyse_search():
    f2f = loader.import_repo("ford.fixed2free2")
    alpha = "c*! 0&x$#\n"
    pool = ["".join(t) for k in range(0, 4) for t in itertools.product(alpha, repeat=k)]
    tails = ["", "   ", "  x = 1\n", "omp x\n", " " * 70 + "TAIL\n"]
    for head in pool:
        for tail in tails:
            for limit in (True, False):
                line = head + tail
                fl = f2f.FortranLine(line, limit)
                exp = py_flags(line, limit)
                act = {k: getattr(fl, k) for k in exp}
                if act != exp:
                    return {"confirmed": True, "input": [line, limit], "actual": act, "expected": exp, "how": "bounded search: real FortranLine(line, limit) flags vs column rules"}
    return None


def _analyse():
    c = fixedform.analyse(PROP)
    c.search_fn = analyse_search
    return c


_analyse.__name__ = "analyse"


def bounded_task(seed, tier="quick"):
    def run():
        from bounded import c14
        t0 = time.time()
        kn = 400 if tier == "quick" else 100000
        hit = c14.search(seed, keep_n=kn)
        out = []
        r = OR(id=f"{PROP}.Bd.reader.fixed_vs_free", status=REFUTED if hit else PROVED, kind="Bd", role="bounded",
               target="ford.reader.FortranReader(fixed=True) = convertToFree + free-form reader",
               desc="one token-level program rendered in both forms: continuation character, break position between tokens, comment style, "
                    "comment lines between continuation lines, labels, sequence field, inline / own-line doc comments",
               bound=f"{c14.count_cases(seed, kn)} renderings drawn (seeded) from the full product; breaks between tokens only", cases=c14.count_cases(seed, kn),
               seconds=time.time() - t0, backend="enumeration")
        if hit:
            r.replay, r.witness = hit, hit["input"]
        out.append(r)
        kc = c14.known_case()
        k = OR(id=f"{PROP}.Bd.reader.seqfield_inline_doc", status=REFUTED if kc else PROVED, kind="Bd", role="bounded",
               target="ford.fixed2free2.FortranLine.__analyse (excess_line)", desc="sequence-field text must not end up in documentation",
               bound="1 case", cases=1, backend="enumeration", known="C14-seqfield-inline-doc")
        if kc:
            k.replay, k.witness = kc, kc["input"]
        out.append(k)
        return out
    return Task(f"{PROP}.Bd.reader", PROP, "reader", run)


def _ics():
    return fixedform.inline_comment_start(PROP)


_ics.__name__ = "inline_comment_start"


def call_site_task():
    """FortranReader.__init__ hands its length_limit setting to the converter (a call-site obligation: the converter's contract is stated per limit)"""
    def run():
        import ast
        fn = loader.find_def("ford.reader", "FortranReader.__init__")
        calls = [n for n in ast.walk(fn) if isinstance(n, ast.Call) and ast.unparse(n.func) == "convertToFree"]
        if len(calls) != 1:
            return [OR(id=f"{PROP}.S.FortranReader.__init__.converter_gets_the_length_limit", status="unknown", kind="S", role="pre", backend="ast", target="ford.reader.FortranReader.__init__",
                       detail=f"{len(calls)} calls of convertToFree")]
        c = calls[0]
        passed = (len(c.args) >= 2 and ast.unparse(c.args[1]) == "length_limit") or any(k.arg == "length_limit" and ast.unparse(k.value) == "length_limit" for k in c.keywords)
        r = OR(id=f"{PROP}.S.FortranReader.__init__.converter_gets_the_length_limit", status=PROVED if passed else REFUTED, kind="S", role="pre", backend="ast",
               target="ford.reader.FortranReader.__init__", desc="convertToFree(self.reader, length_limit): the fixed_length_limit setting reaches the fixed-form converter")
        if not passed:
            from bounded import c14
            r.witness = {"call": ast.unparse(c)}
            r.replay = c14.limit_off_case()
        # ... and the conversion is applied to whatever source self.reader was given: the `if fixed:` statement stands at the top level of __init__, after every
        # branch (preprocessor output, fallback after a preprocessor error, plain file) has bound self.reader
        guards = [n for n in fn.body if isinstance(n, ast.If) and ast.unparse(n.test) == "fixed" and any(x is c for x in ast.walk(n))]
        binds = [n.lineno for n in ast.walk(fn) if isinstance(n, ast.Assign) and any(ast.unparse(t) == "self.reader" for t in n.targets) and not any(x is c for x in ast.walk(n))]
        dom = bool(guards) and all(b < guards[0].lineno for b in binds)
        r2 = OR(id=f"{PROP}.S.FortranReader.__init__.every_source_of_a_fixed_form_file_is_converted", status=PROVED if dom else REFUTED, kind="S", role="post", backend="ast",
                target="ford.reader.FortranReader.__init__", desc="`if fixed: self.reader = convertToFree(...)` is a statement of the function body placed after every other assignment to "
                                                                 "self.reader (preprocessed or not, a fixed-form file is converted)")
        if not dom:
            from bounded import c14
            r2.witness = {"assignments_to_self.reader_at_lines": binds, "conversion": "not at top level" if not guards else f"line {guards[0].lineno}"}
            r2.replay = c14.preprocessed_fixed_case()
        return [r, r2]
    return Task(f"{PROP}.S.call_site", PROP, "FortranReader.__init__", run)


def form_flag_task():
    """Project._fortran_file decides the source form of a file: the `fixed` argument of FortranSourceFile is `extension in self.fixed_extensions` - membership in the list of
    fixed-form extensions and nothing else (the list of free-form extensions also holds the preprocessed ones, F and FOR among them)"""
    def run():
        import ast
        oid = f"{PROP}.S.Project._fortran_file.fixed_form_iff_the_extension_is_a_fixed_form_extension"
        fn = loader.find_def("ford.fortran_project", "Project._fortran_file")
        calls = [n for n in ast.walk(fn) if isinstance(n, ast.Call) and ast.unparse(n.func).endswith("FortranSourceFile")]
        if len(calls) != 1:
            return [OR(id=oid, status="unknown", kind="S", role="pre", backend="ast", target="ford.fortran_project.Project._fortran_file", detail=f"{len(calls)} FortranSourceFile constructions")]
        c = calls[0]
        arg = next((k.value for k in c.keywords if k.arg == "fixed"), c.args[3] if len(c.args) > 3 else None)
        from contracts import astform
        txt = astform.text(fn, arg) if arg is not None else ""
        ok = txt in ("extension in self.fixed_extensions", "extension in settings.fixed_extensions")
        r = OR(id=oid, status=PROVED, kind="S", role="pre", backend="ast", target="ford.fortran_project.Project._fortran_file",
               desc=f"FortranSourceFile(..., fixed=`{txt}`, ...): the form of a file is fixed exactly when its extension is listed in fixed_extensions")
        if not ok:
            r.witness = {"fixed_argument": txt}
            r.detail = "some files may be read in the wrong source form"
        from bounded import c14
        return [astform.decide(r, ok, c14.form_by_extension)]
    return Task(f"{PROP}.S.form_flag", PROP, "Project._fortran_file", run)


def form_bd_task():
    def run():
        from bounded import c14
        import time as _t
        t0 = _t.time()
        hit = c14.form_by_extension()
        r = OR(id=f"{PROP}.Bd.project.form_by_extension", status=REFUTED if hit else PROVED, kind="Bd", role="bounded", target="ford.fortran_project.Project (real)",
               desc="one fixed-form module per fixed extension (f, for, F, FOR) and one free-form module per free extension, default extension lists: every module is found",
               bound="9 files", cases=9, seconds=_t.time() - t0, backend="enumeration")
        if hit:
            r.replay, r.witness = hit, hit["input"]
        return [r]
    return Task(f"{PROP}.Bd.form_by_extension", PROP, "real project", run)


def build(tier, seed):
    set_tier(tier)
    from contracts import readerblocks
    tasks = [a_task(PROP, _analyse), a_task(PROP, _ics), call_site_task(), form_flag_task(), form_bd_task(),
             Task(f"{PROP}.S.blank_lines", PROP, "FortranLine.__convert", lambda: __import__("contracts.plumbing", fromlist=["x"]).blank_lines_stay_blank(PROP, lambda: __import__("bounded.c14", fromlist=["x"]).alternate_block_then_blank_line())),
             Task(f"{PROP}.S.include", PROP, "FortranReader.include", lambda: readerblocks.include_forwards_configuration(PROP, names=("fixed", "length_limit"), replay=lambda: __import__("bounded.c14", fromlist=["x"]).included_fixed_form())),
             bounded_task(seed, tier)]
    meta = {
        "trusted_base": TRUSTED_BASE,
        "assumptions": PYVC_ASSUMPTIONS + [
            "str.isspace exact on ASCII, uninterpreted above; str.lower of the OpenMP sentinel compared on ASCII letters",
            "self.__convert() does not change the classification flags",
            "the label / excess_line / line_conv strings are opaque to the proof (built strings are outside the scanned-string encoding)",
        ],
        "functions_under_contract": fn_meta([("ford.fixed2free2", "FortranLine.__analyse", "string-building statements are executed with opaque values"),
                                             ("ford.fixed2free2", "_inline_comment_start", None)]),
        "unverified_surroundings": ["FortranLine.__convert / continueLine (built strings)", "convertToFree (generator)", "composition with the free-form reader "
                                    "(bounded stand-in only)", "continuation breaks inside a token or literal (FORD inserts a blank at every break: stated limit)"],
        "explanation": "The fixed-form line classifier is proved, for lines of any length, to implement the column rules: comment iff column 1 is one of cC*! "
                       "(OpenMP sentinels excepted), continuation iff a regular line has a non-blank non-zero column 6, long iff the limit is on and the "
                       "line extends beyond column 72.",
    }
    return tasks, meta

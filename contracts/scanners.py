"""Engine A contracts for the character scanners (ford/reader.py, ford/utils.py).  Shared by C01, C02, C08, C20."""
from __future__ import annotations
import z3
from pyvc.contract import *
from specs import lex, paren
from harness import loader


def _arr(v, name):
    return v.val(name).base.arr


def _n(v, name):
    return v.val(name).base.n


def _oracle_pair(real, oracle, gen, label):
    """replay_fn / search_fn from a real function, a Python oracle and an input generator.
    `real(*args)` and `oracle(*args)` return comparable values (exceptions are mapped to ('raise', name))."""
    def call(f, args):
        try:
            return f(*args)
        except Exception as e:
            return ("raise", type(e).__name__)

    def replay_args(args):
        act, exp = call(real, args), call(oracle, args)
        return {"confirmed": act != exp, "contradicted": act == exp, "input": list(args), "actual": repr(act), "expected": repr(exp),
                "how": f"{label}{tuple(args)!r} on the real code in /repo vs the executable spec"}

    def search():
        for args in gen():
            act, exp = call(real, args), call(oracle, args)
            if act != exp:
                return {"confirmed": True, "input": list(args), "actual": repr(act), "expected": repr(exp),
                        "how": f"bounded search: {label}{tuple(args)!r} on the real code vs the executable spec"}
        return None
    return replay_args, search


# ------------------------------------------------------------------ reader._contains_unterminated_string
def unterminated(prop="C02"):
    c = Contract("ford.reader", "_contains_unterminated_string", prop)
    c.param("string", TScan())
    c.local("current_quote", TOptChar())
    c.local("previous_char", TOptChar())
    A = lambda v: _arr(v, "string")
    c.loop(0, invariants=[
        ("in_quote_is_state", lambda v: v.in_quote == (lex.RUN(A(v), v.k) != lex.CODE)),
        ("code_no_quote", lambda v: z3.Implies(lex.RUN(A(v), v.k) == lex.CODE, v.current_quote == -1)),
        ("sq_quote", lambda v: z3.Implies(lex.RUN(A(v), v.k) == lex.SQ, v.current_quote == lex.QS)),
        ("dq_quote", lambda v: z3.Implies(lex.RUN(A(v), v.k) == lex.DQ, v.current_quote == lex.QD)),
    ], unfold=lambda v: lex.unfold(A(v), v.k), variant=lambda v: _n(v, "string") - v.k)
    c.ensures("unterminated_iff_state_not_code",
              lambda v0, res, v1: res.t == (lex.RUN(A(v0), _n(v0, "string")) != lex.CODE))
    c.no_raise = True
    real = loader.get_obj("ford.reader", "_contains_unterminated_string")
    rp, search = _oracle_pair(real, lambda s: lex.py_run(s) != lex.CODE, lambda: ((s,) for s in lex.strings("a'\"", 7)),
                              "_contains_unterminated_string")
    c.replay_fn = lambda w: rp((w["string"],)) if w.get("string") is not None else {"confirmed": False}
    c.search_fn = search
    return c


# ------------------------------------------------------------------ utils.quote_split
QSPLIT = paren.SplitSpec("quote", lambda arr, sep, j: z3.And(z3.Select(arr, j) == sep, lex.RUN(arr, j) == lex.CODE))


def quote_split(prop="C02"):
    c = Contract("ford.utils", "quote_split", prop)
    c.param("sep", TChar())
    c.param("string", TScan())
    c.requires("sep_not_a_quote", lambda v: z3.And(v.sep != lex.QS, v.sep != lex.QD))   # call sites pass ';'
    c.hints["list"] = "slice:string"
    A = lambda v: _arr(v, "string")
    N = lambda v: _n(v, "string")

    def unfold(v):
        return lex.unfold(A(v), v.i) + lex.unfold(A(v), v.i + 1) + QSPLIT.unfold(A(v), v.sep, v.i) + QSPLIT.unfold(A(v), v.sep, v.i + 1)
    c.loop(0, invariants=[
        ("i_range", lambda v: z3.And(0 <= v.i, v.i <= N(v))),
        ("left_range", lambda v: z3.And(0 <= v.left, v.left <= v.i)),
        # the code's flag names are swapped (squote is set by a double quote); the invariant follows the code
        ("squote_is_DQ", lambda v: v.squote == (lex.RUN(A(v), v.i) == lex.DQ)),
        ("dquote_is_SQ", lambda v: v.dquote == (lex.RUN(A(v), v.i) == lex.SQ)),
        ("left_is_lastcut", lambda v: v.left == QSPLIT.LAST(A(v), v.sep, v.i)),
        ("pieces", lambda v: v.retlist == QSPLIT.PIECES(A(v), v.sep, v.i)),
    ], unfold=unfold, variant=lambda v: N(v) - v.i)
    c.ensures("pieces_are_the_code_state_split",
              lambda v0, res, v1: v1.heap.list_get(res) == QSPLIT.result(A(v0), v0.sep, N(v0)))
    c.allowed_raises = set()
    real = loader.get_obj("ford.utils", "quote_split")
    rp, search = _oracle_pair(real, lex.py_split, lambda: ((";", s) for s in lex.strings("a'\";", 7)), "quote_split")
    c.replay_fn = lambda w: rp((w["sep"], w["string"])) if w.get("string") is not None and w.get("sep") else {"confirmed": False}
    c.search_fn = search
    return c


# ------------------------------------------------------------------ utils.paren_split
PSPLIT = paren.SplitSpec("paren", lambda arr, sep, j: z3.And(z3.Select(arr, j) == sep, paren.LEV(arr, j) == 0, paren.BLEV(arr, j) == 0))


def paren_split(prop="C01"):
    c = Contract("ford.utils", "paren_split", prop)
    c.param("sep", TChar())
    c.param("string", TScan())
    c.requires("sep_not_a_bracket", lambda v: z3.And(*[v.sep != x for x in (paren.LP, paren.RP, paren.LB, paren.RB)]))
    c.hints["list"] = "slice:string"
    A = lambda v: _arr(v, "string")
    N = lambda v: _n(v, "string")
    c.loop(0, invariants=[
        ("left_range", lambda v: z3.And(0 <= v.left, v.left <= v.k)),
        ("level", lambda v: v.level == paren.LEV(A(v), v.k)),
        ("blevel", lambda v: v.blevel == paren.BLEV(A(v), v.k)),
        ("left_is_lastcut", lambda v: v.left == PSPLIT.LAST(A(v), v.sep, v.k)),
        ("pieces", lambda v: v.retlist == PSPLIT.PIECES(A(v), v.sep, v.k)),
    ], unfold=lambda v: paren.unfold(A(v), v.k) + PSPLIT.unfold(A(v), v.sep, v.k), variant=lambda v: N(v) - v.k)
    c.ensures("pieces_are_the_depth0_split", lambda v0, res, v1: v1.heap.list_get(res) == PSPLIT.result(A(v0), v0.sep, N(v0)))
    c.allowed_raises = set()
    real = loader.get_obj("ford.utils", "paren_split")
    rp, search = _oracle_pair(real, paren.py_paren_split, lambda: ((",", s) for s in lex.strings("a,()[]", 6)), "paren_split")
    c.replay_fn = lambda w: rp((w["sep"], w["string"])) if w.get("string") is not None and w.get("sep") else {"confirmed": False}
    c.search_fn = search
    return c


# ------------------------------------------------------------------ utils.get_parens
NOSTOP = z3.Function("GP_NOSTOP", paren.A, z3.IntSort(), z3.IntSort(), z3.IntSort(), z3.BoolSort())


def _stopchar(c):
    from pyvc.contract import ISALPHA_HI
    alpha = z3.If(c < 128, z3.Or(z3.And(c >= 65, c <= 90), z3.And(c >= 97, c <= 122)), ISALPHA_HI(c))
    return z3.And(z3.Or(alpha, c == 95, c == 58, c == 44, c == 32),
                  c != paren.LP, c != paren.RP, c != paren.LB, c != paren.RB)


def _stop(arr, rl, rb, j):
    return z3.And(_stopchar(z3.Select(arr, j)), paren.LEV(arr, j) == rl, paren.BLEV(arr, j) == rb)


def get_parens(prop="C01"):
    c = Contract("ford.utils", "get_parens", prop)
    c.param("line", TScan())
    c.param("retlevel", TInt())
    c.param("retblevel", TInt())
    c.local("parenstr", TSliceOf("line"))
    A = lambda v: _arr(v, "line")
    N = lambda v: _n(v, "line")

    def unfold(v):
        return paren.unfold(A(v), v.k) + [NOSTOP(A(v), v.retlevel, v.retblevel, 0),
                                          NOSTOP(A(v), v.retlevel, v.retblevel, v.k + 1) ==
                                          z3.And(NOSTOP(A(v), v.retlevel, v.retblevel, v.k), z3.Not(_stop(A(v), v.retlevel, v.retblevel, v.k)))]
    c.loop(0, invariants=[
        ("prefix", lambda v: z3.And(v.parenstr.lo == 0, v.parenstr.hi == v.k)),
        ("level", lambda v: v.level == paren.LEV(A(v), v.k)),
        ("blevel", lambda v: v.blevel == paren.BLEV(A(v), v.k)),
        ("nostop", lambda v: NOSTOP(A(v), v.retlevel, v.retblevel, v.k)),
    ], unfold=unfold, variant=lambda v: N(v) - v.k)
    c.post_facts = lambda v0: [NOSTOP(A(v0), v0.retlevel, v0.retblevel, 0), paren.LEV(A(v0), 0) == 0, paren.BLEV(A(v0), 0) == 0]

    def post(v0, res, v1):
        a, rl, rb, n = A(v0), v0.retlevel, v0.retblevel, N(v0)
        return z3.And(res.lo == 0, 0 <= res.hi, res.hi <= n, NOSTOP(a, rl, rb, res.hi),
                      z3.Implies(res.hi < n, _stop(a, rl, rb, res.hi)),
                      z3.Implies(z3.And(res.hi == n, n > 0), z3.And(paren.LEV(a, n) == rl, paren.BLEV(a, n) == rb)))
    c.ensures("prefix_up_to_first_stop_at_return_depth", post)
    c.raises("only_when_no_stop_and_depth_mismatch",
             lambda v0, exc, v1: z3.And(z3.BoolVal(exc == "RuntimeError"), NOSTOP(A(v0), v0.retlevel, v0.retblevel, N(v0)),
                                        z3.Not(z3.And(paren.LEV(A(v0), N(v0)) == v0.retlevel, paren.BLEV(A(v0), N(v0)) == v0.retblevel))))
    real = loader.get_obj("ford.utils", "get_parens")

    def real_w(line, rl, rb):
        try:
            return ("ok", real(line, rl, rb))
        except RuntimeError:
            return ("raise", None)
    rp, search = _oracle_pair(real_w, paren.py_get_parens,
                              lambda: ((s, rl, rb) for s in lex.strings("a ,()[]*", 5) for rl in (0, -1) for rb in (0,)), "get_parens")
    c.replay_fn = lambda w: rp((w["line"], w["retlevel"], w["retblevel"])) if w.get("line") is not None else {"confirmed": False}
    c.search_fn = search
    return c


# ------------------------------------------------------------------ reader._literal_end
def literal_end(prop="C02"):
    """where the character literal left open by `buffer` ends on `line`: the prefix of `line` up to the result is read inside the literal (doubled quotes
    included), the closing quote is not followed by another one, and after it the automaton is back in code state"""
    c = Contract("ford.reader", "_literal_end", prop)
    c.param("buffer", TScan())
    c.param("line", TScan())
    c.local("quote", TOptChar())
    B, L = (lambda v: _arr(v, "buffer")), (lambda v: _arr(v, "line"))
    NB, NL = (lambda v: _n(v, "buffer")), (lambda v: _n(v, "line"))
    QCH = lambda st: z3.If(st == lex.SQ, lex.QS, z3.If(st == lex.DQ, lex.QD, -1))
    c.requires("buffer_ends_inside_a_literal", lambda v: lex.RUN(B(v), NB(v)) != lex.CODE)
    # first loop: `quote` is the state of the character-context automaton after the buffer
    c.loop(0, invariants=[("quote_is_state", lambda v: v.quote == QCH(lex.RUN(B(v), v.k)))],
           unfold=lambda v: lex.unfold(B(v), v.k), variant=lambda v: NB(v) - v.k)
    q0 = lambda v: QCH(lex.RUN(B(v), NB(v)))
    E = lambda v: V(v._e, v._e.entry)

    # second loop (while): every loop-head index is reached inside the literal; it advances by one character, or by two over a doubled quote
    c.loop(1, invariants=[
        ("index_in_range", lambda v: z3.And(0 <= v.index, v.index <= NL(v))),
        ("quote_is_the_open_one", lambda v: z3.And(v.quote == q0(E(v)), v.quote != -1)),
    ], variant=lambda v: NL(v) - v.index)

    def post(v0, res, v1):
        r, n, arr, q = res.t, NL(v0), L(v0), q0(v0)
        closed = z3.And(1 <= r, r <= n, z3.Select(arr, r - 1) == q, z3.Or(r == n, z3.Select(arr, r) != q))
        return z3.And(0 <= r, r <= n, z3.Or(r == n, closed))
    c.ensures("ends_right_after_a_closing_quote_that_is_not_doubled_or_at_the_end_of_the_line", post)
    c.no_raise = True
    real = loader.get_obj("ford.reader", "_literal_end")

    def oracle(buf, line):
        q = {lex.SQ: "'", lex.DQ: '"'}[lex.py_run(buf)]
        i = 0
        while i < len(line):
            if line[i] == q:
                if line[i + 1:i + 2] == q:
                    i += 2
                    continue
                return i + 1
            i += 1
        return len(line)

    def inputs():
        for b in ("x = 'a", 'y = "b', "z = 'it''s", 'u = "it\'s all ', "w = 'say \"hi\" to ", 'v = "a\'b\'c'):
            for s in lex.strings("a'\"!", 5):
                yield (b, s)
    rp, search = _oracle_pair(real, oracle, inputs, "_literal_end")
    c.replay_fn = lambda w: rp((w["buffer"], w["line"])) if w.get("buffer") is not None and w.get("line") is not None else {"confirmed": False}
    c.search_fn = search
    return c

"""Engine A contract for the dependency collection that orders the correlation of modules (C06): Project.correlate.get_deps."""
from __future__ import annotations
import z3
from pyvc.contract import *
from pyvc.values import *
from contracts.display import H, sel, base

I, S, B = z3.IntSort(), z3.StringSort(), z3.BoolSort()
SI = z3.SeqSort(I)
HEAD = z3.Function("USE_ENTRY_MODULE", I, I)            # m[0] of a use entry: the used module (object) or its unresolved name
DEPS = z3.Function("DEPS_OF", I, SI)                    # specification: every module used by a unit or by anything nested in it, in order
HEADS = z3.Function("USE_HEADS_PREFIX", SI, I, SI)
IPROCS = z3.Function("INTERFACE_PROCS_PREFIX", SI, I, SI)
FLAT = z3.Function("NESTED_DEPS_PREFIX", SI, I, SI)


def get_deps(prop="C06"):
    c = base(Contract("ford.fortran_project", "Project.correlate.get_deps", prop))
    c.fields.update({"uses": "list:ref", "interfaces": "list:ref", "absinterfaces": "list:ref", "routines": "list:ref", "procedure": "ref"})
    c.param("item", TRef("FortranCodeUnit"))
    c.hints["listcomp"] = "ref"
    c.hints["list"] = "ref"
    E = lambda v: V(v._e, v._e.entry)
    item = lambda v: v.item
    uses = lambda v0: v0.heap.list_get(SList(sel(H(v0, "uses"), v0.item), "ref"))
    routines = lambda v0: v0.heap.list_get(SList(sel(H(v0, "routines"), v0.item), "ref"))
    has_l = lambda v0, f: z3.And(v0.item != 0, z3.Select(v0._e.has_array(v0._p, f), v0.item))
    lst_or_empty = lambda v0, f: z3.If(has_l(v0, f), v0.heap.list_get(SList(sel(H(v0, f), v0.item), "ref")), z3.Empty(SI))
    # every interface block of the unit: the named / plain ones, then the abstract ones
    ifaces = lambda v0: z3.Concat(lst_or_empty(v0, "interfaces"), lst_or_empty(v0, "absinterfaces"))
    routines_of = lambda v, x: v.heap.list_get(SList(sel(H(v, "routines"), x), "ref"))
    has_proc = lambda v, x: z3.And(x != 0, z3.Select(v._e.has_array(v._p, "procedure"), x))
    c.opaque_index = lambda eng, path, container, idx, e: SRef(HEAD(container.t)) if isinstance(container, SRef) else None

    def wf(v):
        a0 = v.heap.alloc0
        ids = [sel(H(v, f), v.item) for f in ("uses", "routines", "interfaces", "absinterfaces")]
        return z3.And(*[z3.And(i > 0, i < a0) for i in ids], z3.Distinct(*ids))
    c.requires("the_lists_of_the_unit_are_distinct_lists_of_the_initial_heap", wf)

    def call_get_deps(eng, path, e, args, recv):
        new = eng.new_list(path, [], e, elem="ref")
        path.heap.list_set(new, DEPS(args[0].t))
        return new
    c.calls["get_deps"] = call_get_deps
    c.assumed.append("a use entry is a record whose first field is the used module (HEAD); the recursive call returns a new list holding DEPS of its argument "
                     "(DEPS is *defined* by this function's postcondition: induction over the finite nesting of program units)")

    def unfold0(v):
        seq = v.it.seq
        return [HEADS(seq, 0) == z3.Empty(SI), HEADS(seq, v.k + 1) == z3.Concat(HEADS(seq, v.k), z3.Unit(HEAD(seq[v.k])))]

    def unfold1(v):
        seq = v.it.seq
        return [IPROCS(seq, 0) == z3.Empty(SI),
                # the single procedure of a non-generic block, or every interface body of a generic one
                IPROCS(seq, v.k + 1) == z3.Concat(IPROCS(seq, v.k), z3.If(has_proc(E(v), seq[v.k]), z3.Unit(sel(H(E(v), "procedure"), seq[v.k])), routines_of(E(v), seq[v.k])))]

    def unfold2(v):
        seq = v.it.seq
        return [FLAT(seq, 0) == z3.Empty(SI), FLAT(seq, v.k + 1) == z3.Concat(FLAT(seq, v.k), DEPS(seq[v.k]))]
    def stable(v):
        x = z3.Int("x!routines")
        return z3.And(v.item == E(v).item, uses(v) == uses(E(v)), routines(v) == routines(E(v)), ifaces(v) == ifaces(E(v)), H(v, "procedure") == H(E(v), "procedure"),
                      H(v, "routines") == H(E(v), "routines"), z3.ForAll([x], z3.Implies(z3.And(sel(H(v, "routines"), x) > 0, sel(H(v, "routines"), x) < E(v).heap.alloc0),
                                                                                         routines_of(v, x) == routines_of(E(v), x))))
    ul = lambda v: v.heap.list_get(v.val("uselist"))
    ip = lambda v: v.heap.list_get(v.val("interfaceprocs"))
    heads_all = lambda v0: HEADS(uses(v0), z3.Length(uses(v0)))
    ip_all = lambda v0: IPROCS(ifaces(v0), z3.Length(ifaces(v0)))
    c.loop(0, invariants=[("heads_so_far", lambda v: v._lc0 == HEADS(v.it.seq, v.k)), ("frame", lambda v: z3.And(stable(v), v.it.seq == uses(E(v))))],
           unfold=unfold0, variant=lambda v: z3.Length(v.it.seq) - v.k)
    c.loop(1, invariants=[("interface_procedures_so_far", lambda v: ip(v) == IPROCS(v.it.seq, v.k)), ("uselist_is_the_heads", lambda v: ul(v) == heads_all(E(v))),
                          ("frame", lambda v: z3.And(stable(v), v.it.seq == ifaces(E(v)), v.val("uselist").id != v.val("interfaceprocs").id))],
           unfold=unfold1, variant=lambda v: z3.Length(v.it.seq) - v.k)
    c.loop(2, invariants=[("uselist_so_far", lambda v: ul(v) == z3.Concat(heads_all(E(v)), FLAT(v.it.seq, v.k))),
                          ("frame", lambda v: z3.And(stable(v), v.it.seq == z3.Concat(routines(E(v)), ip_all(E(v)))))],
           unfold=unfold2, variant=lambda v: z3.Length(v.it.seq) - v.k)
    c.post_facts = lambda v0: [HEADS(uses(v0), 0) == z3.Empty(SI), IPROCS(ifaces(v0), 0) == z3.Empty(SI)]

    def post(v0, res, v1):
        nested = z3.Concat(routines(v0), ip_all(v0))
        return v1.heap.list_get(res) == z3.Concat(heads_all(v0), FLAT(nested, z3.Length(nested)))
    c.ensures("own_uses_then_the_dependencies_of_every_routine_and_interface_procedure_at_any_depth", post)
    c.no_raise = True
    return c


def deplist_obligations(prop="C06", replay=None):
    """Project.correlate: every dependency list (`X.deplist = ...`) is built from filter_modules(X) - the modules used by X *and by everything nested in it* (get_deps, under
    contract) - for the same entity X.  The lists order the correlation of modules and submodules (toposort) and are the edges of the file graphs."""
    import ast
    from harness import loader
    from harness.core import OR, PROVED, REFUTED, UNKNOWN
    try:
        fn = loader.find_def("ford.fortran_project", "Project.correlate")
    except loader.TargetMissing as e:
        return [OR(id=f"{prop}.S.Project.correlate.deplist", status=UNKNOWN, kind="S", target="ford.fortran_project.Project.correlate", detail=str(e))]
    sites = [n for n in ast.walk(fn) if isinstance(n, ast.Assign) and len(n.targets) == 1 and isinstance(n.targets[0], ast.Attribute) and n.targets[0].attr == "deplist"
             and isinstance(n.targets[0].value, ast.Name)]
    out = []
    if len(sites) < 3:
        out.append(OR(id=f"{prop}.S.Project.correlate.deplist.anchor", status=UNKNOWN, kind="S", target="ford.fortran_project.Project.correlate",
                      detail=f"expected the deplist assignments for modules, submodules and program units, found {len(sites)}"))
    for k, st in enumerate(sites):
        ent = st.targets[0].value.id
        calls = [c for c in ast.walk(st.value) if isinstance(c, ast.Call) and isinstance(c.func, ast.Name) and c.func.id == "filter_modules"
                 and len(c.args) == 1 and isinstance(c.args[0], ast.Name) and c.args[0].id == ent]
        ok = bool(calls)
        r = OR(id=f"{prop}.S.Project.correlate.deplist.site{k}", status=PROVED if ok else REFUTED, kind="S", role="post", backend="ast", target="ford.fortran_project.Project.correlate",
               desc=f"`{ast.unparse(st)[:100]}` (line {st.lineno}): the dependency list of `{ent}` holds filter_modules({ent}), the modules used anywhere inside it")
        if not ok:
            r.witness = {"assignment": ast.unparse(st), "line": st.lineno}
            r.detail = f"the list is not built from filter_modules({ent}): USE statements of the unit or of what it contains do not order its correlation / do not reach the graphs"
            if replay:
                r.replay = replay()
        out.append(r)
    return out

"""The statement-dispatch cascade of FortranContainer.__init__, read mechanically from the if/elif chain on every run."""
from __future__ import annotations
import ast, re
from harness import loader


class Branch:
    def __init__(self, idx, kind, regex=None, mode=None, guard="", literal=None, src=""):
        self.idx, self.kind, self.regex, self.mode, self.guard, self.literal, self.src = idx, kind, regex, mode, guard, literal, src

    def __repr__(self):
        return f"#{self.idx} {self.regex or self.literal}.{self.mode or ''} {('and ' + self.guard) if self.guard else ''}"


def _regex_calls(test):
    """[(regex attr name, mode)] for self.X_RE.match/search(line) calls in a condition"""
    out = []
    for n in ast.walk(test):
        if isinstance(n, ast.Call) and isinstance(n.func, ast.Attribute) and n.func.attr in ("match", "search", "fullmatch"):
            v = n.func.value
            if isinstance(v, ast.Attribute) and isinstance(v.value, ast.Name) and v.value.id == "self":
                out.append((v.attr, n.func.attr))
    return out


def read_cascade():
    fn = loader.find_def("ford.sourceform", "FortranContainer.__init__")
    loops = [n for n in fn.body if isinstance(n, ast.For) and ast.unparse(n.iter) == "source"]
    if len(loops) != 1:
        raise loader.TargetMissing("FortranContainer.__init__: `for line in source` loop not found")
    chain = None
    for st in loops[0].body:
        if isinstance(st, ast.If) and "line_lower == 'contains'" in ast.unparse(st.test):
            chain = st
    if chain is None:
        raise loader.TargetMissing("cascade head `if line_lower == 'contains'` not found")
    branches = []
    node = chain
    i = 0
    while True:
        test = node.test
        src = ast.unparse(test)
        calls = _regex_calls(test)
        if calls:
            for (rx, mode) in calls:
                guard = ""
                if isinstance(test, ast.BoolOp) and isinstance(test.op, ast.And):
                    guard = " and ".join(ast.unparse(v) for v in test.values if not _regex_calls(v))
                branches.append(Branch(i, "regex", rx, mode, guard, src=src))
        else:
            branches.append(Branch(i, "literal", literal=src, src=src))
        i += 1
        if len(node.orelse) == 1 and isinstance(node.orelse[0], ast.If):
            node = node.orelse[0]
        else:
            break
    return branches


def live_patterns():
    """name -> compiled pattern as the constructor sees them (VARIABLE_RE built with the default extra_vartypes)"""
    sf = loader.import_repo("ford.sourceform")
    FC = sf.FortranContainer
    pats = {n: getattr(FC, n) for n in dir(FC) if n.endswith("_RE") and isinstance(getattr(FC, n), re.Pattern)}
    pats["VARIABLE_RE"] = re.compile(FC.VARIABLE_STRING.format(""), re.IGNORECASE)
    return pats

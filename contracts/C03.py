"""C03 - each doc comment lands on its entity, complete, once and in order (partial).  DESIGN.md section 6, C03."""
from __future__ import annotations
import time
from harness.core import Task, OR, PROVED, REFUTED
from harness import loader
from contracts import docstrings, metadata, readerblocks, rx_lex
from contracts.common import *

PROP = "C03"


def bounded_task():
    def run():
        from bounded import c03
        na, nr = c03.count_cases()
        t0 = time.time()
        hit = c03.search_attachment()
        r = OR(id=f"{PROP}.Bd.parser.attachment", status=REFUTED if hit else PROVED, kind="Bd", role="bounded", target="ford.sourceform.FortranSourceFile (real parser)",
               desc="a module holding variables, a type with a component, a subroutine with a dummy argument and a function, every entity carrying a unique tracer word sequence; "
                    "four marker styles x two marker alphabets x inline/own-line x ordinary comments and blank lines between entities: doc_list of each entity = its words, in order",
               bound=f"{na} generated programs", cases=na, seconds=time.time() - t0, backend="enumeration")
        if hit:
            r.replay, r.witness = hit, hit["input"]
        t1 = time.time()
        hit2 = c03.search_render()
        r2 = OR(id=f"{PROP}.Bd.markdown.word_preservation", status=REFUTED if hit2 else PROVED, kind="Bd", role="bounded", target="ford._markdown.MetaMarkdown.convert (real, incl. AdmonitionPreprocessor)",
                desc="documentation bodies built from paragraphs, lists, code blocks and note boxes (inline end marker, own-line end marker, end marker with trailing text, list inside, "
                     "unterminated, consecutive without blank line): the rendered HTML holds every tracer word exactly once and in order",
                bound=f"{nr} bodies of up to 3 blocks", cases=nr, seconds=time.time() - t1, backend="enumeration")
        if hit2:
            r2.replay, r2.witness = hit2, hit2["input"]
        t2 = time.time()
        hit3 = c03.search_project_render()
        r3 = OR(id=f"{PROP}.Bd.project.rendering_per_entity", status=REFUTED if hit3 else PROVED, kind="Bd", role="bounded", target="ford.fortran_project.Project.markdown (real)",
                desc="a module whose entities' comments use per-document Markdown state (footnotes, reference-style links, an undefined reference), start with '---' / '...' text, "
                     "carry `summary:` metadata, or stand after a statement that takes no documentation; one- and two-character doc markers: the rendered documentation of every "
                     "entity holds exactly its own tracer words, in order, and only its own link targets",
                bound="2 projects of 9 documented entities", cases=2, seconds=time.time() - t2, backend="enumeration")
        if hit3:
            r3.replay, r3.witness = hit3, hit3["input"]
        t3 = time.time()
        hit4 = c03.include_cases() or c03.common_cases() or c03.inherited_component_metadata() or c03.metadata_block_cases() or c03.inherited_generic_doc() or c03.generic_source_docs() or c03.pageless_entity_docs() or c03.multi_name_statement_docs()
        r4 = OR(id=f"{PROP}.Bd.parser.included_declarations", status=REFUTED if hit4 else PROVED, kind="Bd", role="bounded", target="ford.reader.FortranReader.include (real)",
                desc="twelve declaration / documentation lines in the four marker styles, written in a module and pulled in with INCLUDE: the same variables with the same documentation; "
                     "COMMON statements of one to three blocks with one comment: every block carries it",
                bound="1 pair of sources + 6 COMMON statements", cases=7, seconds=time.time() - t3, backend="enumeration")
        if hit4:
            r4.replay, r4.witness = hit4, hit4["input"]
        return [r, r2, r3, r4]
    return Task(f"{PROP}.Bd", PROP, "real parser / markdown", run)


def build(tier, seed):
    set_tier(tier)
    def _meta():
        return metadata.meta_preprocessor(PROP)
    _meta.__name__ = "meta_preprocessor"
    tasks = [a_task(PROP, docstrings.read_docstring), a_task(PROP, _meta)]
    for w in ("predocmark", "predocmark_alt", "docmark_alt"):
        def mk(w=w):
            return readerblocks.marker_block(w, PROP)
        mk.__name__ = f"marker_block[{w}]"
        tasks.append(a_task(PROP, mk))
    for m in ("!", ">", "*", "|", "^"):
        def dm(m=m):
            rd = loader.import_repo("ford.reader")
            return rx_lex.comment_regex_obligations(PROP, "ford.reader._compile_docmark", rd._compile_docmark(m), m)
        tasks.append(Task(f"{PROP}.B.docmark[{m}]", PROP, "ford.reader._compile_docmark", dm))
    tasks.append(Task(f"{PROP}.B.meta_delimiters", PROP, "ford.utils.BEGIN_RE / END_RE", lambda: metadata.delimiter_obligations(PROP)))
    tasks.append(Task(f"{PROP}.A.common_doc", PROP, "COMMON statement documentation", lambda: docstrings.common_doc_sharing(PROP, replay=lambda: __import__("bounded.c03", fromlist=["x"]).common_cases())))
    tasks.append(Task(f"{PROP}.S.include", PROP, "FortranReader.include", lambda: readerblocks.include_forwards_configuration(PROP, replay=lambda: __import__("bounded.c03", fromlist=["x"]).include_cases())))
    def _fx():
        from contracts import fixedform, C14
        c = fixedform.analyse(PROP)
        c.search_fn = C14.analyse_search
        return c
    _fx.__name__ = "analyse"
    tasks.append(a_task(PROP, _fx))
    tasks.append(Task(f"{PROP}.S.casefold.metadata_key", PROP, "ford.sourceform.FortranBase.read_metadata", lambda: __import__("contracts.casefold", fromlist=["x"]).metadata_key_obligation(PROP, lambda: __import__("bounded.c03", fromlist=["x"]).metadata_block_cases())))
    tasks.append(Task(f"{PROP}.S.templates.docstring", PROP, "ford/templates/macros.html", lambda: __import__("contracts.tmpl_links", fromlist=["x"]).summary_obligations(PROP, lambda: __import__("bounded.c05", fromlist=["x"]).site_cases("hidden_specifics_with_long_docs"))))
    tasks.append(Task(f"{PROP}.S.converter_reset", PROP, "ford.sourceform.FortranBase.markdown", lambda: docstrings.converter_reset_obligations(PROP)))

    def _pb():
        from bounded import c02
        c = readerblocks.pass_back(PROP)
        c.search_fn = lambda: c02.lookahead_cases()
        return c
    _pb.__name__ = "pass_back"
    tasks.append(a_task(PROP, _pb))
    tasks.append(bounded_task())
    meta = {
        "trusted_base": TRUSTED_BASE,
        "assumptions": PYVC_ASSUMPTIONS + REVC_ASSUMPTIONS + [
            "reader contract assumed inside read_docstring: next(source) delivers and removes the first line still to come (StopIteration when none); pass_back(x) puts x back in front "
            "(that half is discharged: FortranReader.pass_back is under contract here)",
            "regex constants are opaque inside meta_preprocessor and the marker blocks (uninterpreted match predicate, groups, start index); the doc-marker patterns themselves "
            "are under Engine B contracts (match exactly the lines whose first '!' in code state is followed by the marker; unique comment start)",
        ],
        "functions_under_contract": fn_meta([("ford.sourceform", "read_docstring", None), ("ford.utils", "meta_preprocessor", None),
                                             ("ford.reader", "FortranReader.__next__", "block contracts: the three `if match:` statements that rewrite pre/alt markers")]) +
        [{"constant": "ford.reader._compile_docmark(m) for m in ! > * | ^"}],
        "unverified_surroundings": ["docbuffer ordering in FortranReader.__next__ as a whole", "FortranBase.markdown (dedent, summary extraction)", "python-markdown",
                                    "AdmonitionPreprocessor._find_admonitions / _process_admonitions (objects created in loops, regex substitution: bounded stand-in only)",
                                    "line_to_variables / get_mod_procs / FortranFinalProc docstring sharing"],
        "explanation": "read_docstring consumes exactly the maximal run of marker lines and hands back the first other line; meta_preprocessor splits a prefix of metadata lines "
                       "from an untouched body; marker rewriting keeps the comment text verbatim and rejects inline use; ordinary comments are in no doc language.",
    }
    return tasks, meta

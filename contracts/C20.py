"""C20 - an unparseable file is skipped without disturbing the rest (partial).  DESIGN.md section 6, C20."""
from __future__ import annotations
import time
from harness.core import Task, OR, PROVED, REFUTED, UNKNOWN
from contracts import containment, scanners, docstrings, readerblocks
from contracts.common import *

PROP = "C20"


def _replay(fn):
    def run():
        res = fn(PROP)
        if any(r.status == REFUTED and r.replay is None for r in res):
            from bounded import c20
            hit = c20.search()
            for r in res:
                if r.status == REFUTED and r.replay is None:
                    if hit:
                        r.replay = hit
                    else:       # a form that is not recognised, and no failing input from the stand-in: undecided (DESIGN 4.2 / 11.5), not a violation
                        r.status = UNKNOWN
                        r.detail = ((r.detail + "; ") if r.detail else "") + "the code is not of the recognised form; the property's stand-in finds no failing input"
        return res
    return run


def bounded_task():
    def run():
        from bounded import c20
        t0 = time.time()
        hit = c20.search()
        r = OR(id=f"{PROP}.Bd.project.corrupted_file", status=REFUTED if hit else PROVED, kind="Bd", role="bounded", target="Project(...).correlate() (real, default settings)",
               desc="two valid files plus a third one truncated after every line, with an unbalanced END, END at file level, doubled / misplaced CONTAINS, arbitrary text, a leading '&', "
                    "a splice of two files, undecodable bytes; read between the valid files (sorted order): canonical entity trees and identifiers of the valid files equal the run "
                    "without the bad file, the rejected file is named in the output, each run ends within 60 s", bound=f"{c20.count_cases()} corruptions of one file",
               cases=c20.count_cases(), seconds=time.time() - t0, backend="enumeration")
        if hit:
            r.replay, r.witness = hit, hit["input"]
        kt = c20.known_tolerated()
        k = OR(id=f"{PROP}.Bd.project.reported_but_not_skipped", status=REFUTED if kt else PROVED, kind="Bd", role="bounded", target="ford.sourceform.FortranContainer.print_error (dbg on)",
               desc="a file with a misplaced CONTAINS is reported AND skipped", bound="1 corruption", cases=1, backend="enumeration", known="C20-reported-not-skipped")
        if kt:
            k.replay, k.witness = kt, kt["input"]
        return [r, k]
    return Task(f"{PROP}.Bd.project", PROP, "real pipeline", run)


def retime_task():
    def run():
        from bounded import retime
        t0 = time.time()
        hit, info = retime.search(budget_s=90)
        r = OR(id=f"{PROP}.Bd.regex.matching_time_on_pumped_lines", status=REFUTED if hit else PROVED, kind="Bd", role="bounded", target="every compiled pattern of the parsing modules",
               desc="match and search of every pattern on statement lines with long identifiers followed by a text that makes the match fail: no catastrophic backtracking "
                    "(a line on which one match does not return would hang the run)", bound=f"{(info or {}).get('patterns', '?')} patterns x {(info or {}).get('lines', '?')} pumped lines; "
                    f"slowest single match {(info or {}).get('slowest_s', '?')} s", cases=(info or {}).get("lines", 0), seconds=time.time() - t0, backend="enumeration")
        if hit:
            r.replay, r.witness = hit, hit.get("input")
        return [r]
    return Task(f"{PROP}.Bd.regex", PROP, "regex time", run)


def _handler():
    from bounded import c20
    c = containment.handler_block(PROP)
    c.search_fn = c20.search
    return c


_handler.__name__ = "per_file_handler"


def build(tier, seed):
    set_tier(tier)
    def _mk(f):
        def mk():
            return f(PROP)
        mk.__name__ = f.__name__
        return mk
    # termination: the loop variants of the scanners / readers are part of their contracts (re-used here under C20's id)
    tasks = [Task(f"{PROP}.S.instance_state", PROP, "reader / parser classes", lambda: __import__("contracts.plumbing", fromlist=["x"]).no_shared_mutable_state(PROP, replay=lambda: __import__("bounded.c20", fromlist=["x"]).leak_cases())),
             Task(f"{PROP}.B.ambiguous_repeats", PROP, "compiled patterns", lambda: __import__("contracts.rx_lex", fromlist=["x"]).ambiguous_repeat_obligations(PROP)),
             Task(f"{PROP}.S.preprocessor_exit", PROP, "FortranReader.__init__", lambda: containment.preprocessor_exit_obligations(PROP)),
             Task(f"{PROP}.S.default_not_shared", PROP, "mutable default arguments", lambda: __import__("contracts.plumbing", fromlist=["x"]).mutable_defaults_not_shared(PROP, ("ford.sourceform", "ford.reader", "ford.fortran_project"), lambda: __import__("bounded.c20", fromlist=["x"]).leak_cases())),
             Task(f"{PROP}.S.diagnostics_allocate_nothing", PROP, "FortranContainer.print_error", lambda: containment.diagnostics_allocate_nothing(PROP, lambda: __import__("bounded.c20", fromlist=["x"]).name_allocation_case())),
             Task(f"{PROP}.S.reader_progress", PROP, "FortranReader.__next__", lambda: containment.reader_progress_obligation(PROP, lambda: __import__("bounded.c20", fromlist=["x"]).search())),
             __import__("contracts.C15", fromlist=["x"]).argparse_task(PROP, only=("debug", "d", "force", "quiet", "q"), replay=lambda: __import__("bounded.c20", fromlist=["x"]).command_line_run()),
             Task(f"{PROP}.S.containment", PROP, "exception containment", _replay(containment.obligations)),
             Task(f"{PROP}.S.diagnostic", PROP, "ford.console.warn", lambda: containment.diagnostic_obligations(PROP)),
             a_task(PROP, _mk(scanners.unterminated)), a_task(PROP, _mk(scanners.quote_split)), a_task(PROP, _mk(scanners.paren_split)), a_task(PROP, _mk(scanners.get_parens)),
             a_task(PROP, _mk(docstrings.read_docstring)), a_task(PROP, _mk(readerblocks.continuation)), a_task(PROP, _handler), bounded_task(), retime_task()]
    meta = {
        "trusted_base": TRUSTED_BASE,
        "assumptions": PYVC_ASSUMPTIONS + [
            "termination is shown per loop by a decreasing, bounded variant (part of each function contract): the scanners, read_docstring; FortranReader.__next__ consumes one line of a "
            "finite stream per iteration (block contract on the continuation part only; the outer loop's variant is not proved)",
            "module-level state shared across files (the NameSelector, regex caches) is not modelled: only 'identifiers are allocated after a file has been parsed completely' (C12) is checked",
        ],
        "functions_under_contract": fn_meta([("ford.fortran_project", "Project._fortran_file", "AST-level exceptional frame"), ("ford.fortran_project", "Project.__init__", "AST-level handler shape; block contract on the handler body (message building kept for its safety obligations)"),
                                             ("ford.reader", "_contains_unterminated_string", None), ("ford.utils", "quote_split", None), ("ford.utils", "paren_split", None),
                                             ("ford.utils", "get_parens", None), ("ford.sourceform", "read_docstring", None)]),
        "unverified_surroundings": ["equality of the other files' documentation is a differential statement: bounded stand-in only", "regex matching time: no static ambiguity analysis; a bounded probe runs every pattern on pumped lines",
                                    "print_error with dbg on reports and carries on parsing the file (the file is then kept, not skipped)"],
        "explanation": "If parsing a file raises, nothing of it has been registered in the project and the per-file handler reports and continues; running out of input inside a container "
                       "raises; the scanning loops terminate (variants).",
    }
    return tasks, meta

"""Operand lists that can hold parenthesised text are split at top-level commas only (C01).

`ford.utils.paren_split` is under contract (C01.A.paren_split: the pieces are exactly the maximal depth-0 comma-free segments).  The callers that
split text in which a comma may stand inside parentheses - array bounds in attribute statements, attribute lists and entity lists of a type
declaration, PARAMETER statements - must go through it: a call site that splits with str.split / a regex cuts `a(2,3)` in two.  The obligation is
generated for every assignment to the listed names in the current source of the listed functions:

    FortranContainer.__init__ (attribute-statement branch):   names        = paren_split(",", <operand text>)
    line_to_variables:                                        tmp_attribs  = [.. for .. in paren_split(",", attribstr)]
                                                              declarations = paren_split(",", declarestr)
"""
from __future__ import annotations
import ast
from harness.core import OR, PROVED, REFUTED, UNKNOWN
from harness import loader

SITES = [
    ("ford.sourceform", "FortranContainer.__init__", "names", 2, "operands of an attribute / PARAMETER statement (array bounds `a(2,3)`, values `f(1,2)`)"),
    ("ford.sourceform", "line_to_variables", "tmp_attribs", 1, "attribute list of a type declaration (`dimension(2,3)`)"),
    ("ford.sourceform", "line_to_variables", "declarations", 1, "entity list of a type declaration (`a(2,3), b = f(1,2)`)"),
]


def _is_paren_split_on_comma(call):
    if not isinstance(call, ast.Call):
        return False
    f = call.func
    name = f.attr if isinstance(f, ast.Attribute) else (f.id if isinstance(f, ast.Name) else None)
    return name == "paren_split" and len(call.args) == 2 and isinstance(call.args[0], ast.Constant) and call.args[0].value == ","


def _source_of_value(val):
    """the call that produces the list: the value itself, or the iterable of a one-generator comprehension over it"""
    if isinstance(val, ast.ListComp) and len(val.generators) == 1:
        return val.generators[0].iter
    return val


def obligations(prop, replay=None):
    out = []
    for mod, qn, name, minimum, what in SITES:
        try:
            fn = loader.find_def(mod, qn)
        except loader.TargetMissing as e:
            out.append(OR(id=f"{prop}.S.operands.{qn}.{name}", status=UNKNOWN, kind="S", target=f"{mod}.{qn}", detail=str(e)))
            continue
        scope = fn
        if name == "names":
            # the branch of the statement dispatch guarded by ATTRIB_RE / PARAMETER_RE
            br = [n for n in ast.walk(fn) if isinstance(n, ast.If) and "ATTRIB_RE" in ast.unparse(n.test)]
            if len(br) != 1:
                out.append(OR(id=f"{prop}.S.operands.{qn}.{name}", status=UNKNOWN, kind="S", target=f"{mod}.{qn}",
                              detail=f"attribute-statement branch not found (expected one `if` on ATTRIB_RE, found {len(br)})"))
                continue
            scope = ast.Module(body=br[0].body, type_ignores=[])
        sites = [n for n in ast.walk(scope) if isinstance(n, ast.Assign) and len(n.targets) == 1 and isinstance(n.targets[0], ast.Name) and n.targets[0].id == name]
        if len(sites) < minimum:
            out.append(OR(id=f"{prop}.S.operands.{qn}.{name}", status=UNKNOWN, kind="S", target=f"{mod}.{qn}",
                          detail=f"expected at least {minimum} assignment(s) to `{name}`, found {len(sites)} (code restructured?)"))
            continue
        for k, st in enumerate(sites):
            ok = _is_paren_split_on_comma(_source_of_value(st.value))
            r = OR(id=f"{prop}.S.operands.{qn}.{name}.site{k}", status=PROVED if ok else REFUTED, kind="S", role="pre", backend="ast", target=f"{mod}.{qn}",
                   desc=f"`{ast.unparse(st)[:90]}` (line {st.lineno}): {what} is split at top-level commas by paren_split (under contract {prop}.A.paren_split)")
            if not ok:
                r.witness = {"assignment": ast.unparse(st), "line": st.lineno}
                r.detail = "the list is not produced by ford.utils.paren_split(',', ...): a comma inside parentheses cuts an operand"
                if replay:
                    r.replay = replay()
            out.append(r)
    return out


def value_obligations(prop, module="ford.sourceform", replay=None):
    """`name = value` pairs (PARAMETER statements, entity declarations) are cut at the *first* top-level `=` only - a value is an expression and may hold `==`, `<=`, `>=`, `/=`.
    For every `S = paren_split("=", ..)` in the current source: the pieces after the first are joined back, `"=".join(S[1:])`, and no single later piece (`S[1]`, a `[:2]`
    slice, a two-target unpacking) is taken for the value."""
    _, tree = loader.module_source(module)
    out = []
    is_split = lambda v: isinstance(v, ast.Call) and (v.func.attr if isinstance(v.func, ast.Attribute) else getattr(v.func, "id", None)) == "paren_split" \
        and len(v.args) == 2 and isinstance(v.args[0], ast.Constant) and v.args[0].value == "="
    for fn in [x for x in ast.walk(tree) if isinstance(x, (ast.FunctionDef, ast.AsyncFunctionDef))]:
        k = 0
        for n in ast.walk(fn):
            if not isinstance(n, ast.Assign):
                continue
            calls = [c for c in ast.walk(n.value) if is_split(c)]
            if not calls:
                continue
            t = n.targets[0]
            if isinstance(t, ast.Name) and is_split(n.value):
                S = t.id
                # the uses of S: the statements that follow the assignment in its own block (the name may be re-used elsewhere in a long function)
                block = next((b for p_ in ast.walk(fn) for f_ in ("body", "orelse", "finalbody") for b in [getattr(p_, f_, None)] if isinstance(b, list) and n in b), [n])
                scope = ast.Module(body=block[block.index(n) + 1:], type_ignores=[])
                joined = any(isinstance(c, ast.Call) and isinstance(c.func, ast.Attribute) and c.func.attr == "join" and isinstance(c.func.value, ast.Constant) and c.func.value.value == "="
                             and c.args and ast.unparse(c.args[0]) == f"{S}[1:]" for c in ast.walk(scope))
                single = [ast.unparse(x) for x in ast.walk(scope) if isinstance(x, ast.Subscript) and isinstance(x.value, ast.Name) and x.value.id == S
                          and not isinstance(x.slice, ast.Slice) and ast.unparse(x.slice) not in ("0",)]
                ok, why = joined and not single, f"joined back: {joined}; single pieces read: {single}"
            else:
                ok, why = False, "the result is sliced / unpacked at once"
            r = OR(id=f"{prop}.S.operands.{fn.name}.value_after_the_first_equals_sign.site{k}", status=PROVED if ok else REFUTED, kind="S", role="post", backend="ast", target=f"{module}.{fn.name}",
                   desc=f"`{ast.unparse(n)[:80]}` (line {n.lineno}): the value is everything after the first top-level `=` ({why})")
            if not ok:
                r.witness = {"assignment": ast.unparse(n), "line": n.lineno}
                r.detail = "a value that holds a relational operator is cut at that operator"
                if replay:
                    r.replay = replay()
            out.append(r)
            k += 1
    if not out:
        out.append(OR(id=f"{prop}.S.operands.value.anchor", status=UNKNOWN, kind="S", target=module, detail="no paren_split('=', ..) found"))
    return out

"""Call-site preconditions of re.sub / Pattern.sub (C01, C18): the replacement argument is processed as a *template* (backslash escapes,
group references).  Every call site whose replacement is source text (taken from the `strings` / `capture_strings` lists of masked
literals) must pass it inertly: through a callable replacement, or with its backslashes doubled."""
from __future__ import annotations
import ast
from harness.core import OR, PROVED, REFUTED, UNKNOWN
from harness import loader

SOURCE_LISTS = ("strings", "capture_strings")


def _mentions_source(node):
    for n in ast.walk(node):
        if isinstance(n, ast.Subscript):
            v = n.value
            name = v.attr if isinstance(v, ast.Attribute) else (v.id if isinstance(v, ast.Name) else None)
            if name in SOURCE_LISTS:
                return True
    return False


def _escaped(expr, assigns):
    """is the replacement expression inert?  constant | callable | name whose last assignment doubles backslashes"""
    if isinstance(expr, ast.Constant):
        return True
    if isinstance(expr, ast.JoinedStr):
        return not _mentions_source(expr)
    if isinstance(expr, (ast.Lambda,)):
        return True
    if isinstance(expr, ast.Name):
        hist = assigns.get(expr.id, [])
        if not hist:
            return False
        last = hist[-1]
        src = ast.unparse(last)
        if ".replace('\\\\', '\\\\\\\\')" in src or "re.escape" in src:
            return True
        return not any(_mentions_source(h) for h in hist)
    return not _mentions_source(expr)


def obligations(prop, module="ford.sourceform"):
    _, tree = loader.module_source(module)
    out = []
    n = 0
    for fn in [x for x in ast.walk(tree) if isinstance(x, ast.FunctionDef)]:
        assigns = {}
        for st in ast.walk(fn):
            if isinstance(st, ast.Assign) and len(st.targets) == 1 and isinstance(st.targets[0], ast.Name):
                assigns.setdefault(st.targets[0].id, []).append(st.value)
        k = 0
        for c in ast.walk(fn):
            if not (isinstance(c, ast.Call) and isinstance(c.func, ast.Attribute) and c.func.attr == "sub"):
                continue
            is_re_mod = isinstance(c.func.value, ast.Name) and c.func.value.id == "re"
            repl = c.args[1] if is_re_mod and len(c.args) > 1 else (c.args[0] if c.args else None)
            if repl is None:
                continue
            source_derived = _mentions_source(repl) or (isinstance(repl, ast.Name) and any(_mentions_source(h) for h in assigns.get(repl.id, [])))
            if not source_derived:
                continue
            ok = _escaped(repl, assigns)
            n += 1
            r = OR(id=f"{prop}.S.resub.{fn.name}.site{k}", status=PROVED if ok else REFUTED, kind="S", role="pre", backend="ast",
                   target=f"{module}.{fn.name}", desc=f"re.sub replacement `{ast.unparse(repl)[:60]}` built from source text is passed inertly (callable or backslashes doubled)")
            if not ok:
                r.witness = {"replacement": ast.unparse(repl)}
                r.replay = replay_backslash({"_parse_bind_C": "bind name", "__init__": "attribute statement", "parse_type": "character kind"}.get(fn.name))
            out.append(r)
            k += 1
    if n == 0:
        out.append(OR(id=f"{prop}.S.resub.anchor", status=UNKNOWN, kind="S", target=module, detail="no source-derived re.sub call site found (code restructured?)"))
    return out


def replay_backslash(only=None):
    from bounded import realrun
    cases = {
        "bind name": 'subroutine s() bind(C, name="a\\d")\nend subroutine s\n',
        "attribute statement": 'module m\n  integer :: x\n  bind(C, name="x\\g<0>") :: x\nend module m\n',
        "character kind": "module m\n  character(kind=kind('\\d'), len=3) :: c\nend module m\n",
    }
    for label, src in cases.items():
        if only and label != only:
            continue
        try:
            f = realrun.parse_source(src)
        except Exception as e:
            return {"confirmed": True, "input": {"source": src}, "actual": f"{type(e).__name__}: {e}", "expected": "the file parses; the literal is kept verbatim",
                    "how": f"real parser on a literal containing a backslash ({label})"}
        if label == "bind name":
            got = f.subroutines[0].bindC
            if "a\\d" not in (got or ""):
                return {"confirmed": True, "input": {"source": src}, "actual": got, "expected": 'C, name="a\\d"', "how": "bind name literal altered"}
    return {"confirmed": False}


def placeholder_obligations(prop, module="ford.sourceform", replay=None):
    """literal placeholders (`"0"`, `"1"`, ...) are put back with `QUOTES_RE.sub(<callable>, text[, count=1])`.  When the call replaces *every* placeholder of the text (no
    `count=1`), the callable has to pick the literal of the placeholder it is given: its parameter occurs in its body (`lambda m: strings[int(m.group()[1:-1])]`).  A callable
    that ignores its argument puts one and the same literal into every place."""
    _, tree = loader.module_source(module)
    out = []
    for fn in [x for x in ast.walk(tree) if isinstance(x, ast.FunctionDef)]:
        k = 0
        for c in ast.walk(fn):
            if not (isinstance(c, ast.Call) and isinstance(c.func, ast.Attribute) and c.func.attr == "sub" and ast.unparse(c.func.value).endswith("QUOTES_RE") and c.args):
                continue
            repl = c.args[0]
            if not isinstance(repl, ast.Lambda):
                continue
            once = any(kw.arg == "count" and isinstance(kw.value, ast.Constant) and kw.value.value == 1 for kw in c.keywords) or (len(c.args) > 2 and isinstance(c.args[2], ast.Constant) and c.args[2].value == 1)
            params = [a.arg for a in repl.args.args]
            uses = any(isinstance(n, ast.Name) and n.id in params for n in ast.walk(repl.body))
            ok = uses or once
            r = OR(id=f"{prop}.S.resub.placeholders.{fn.name}.site{k}", status=PROVED if ok else REFUTED, kind="S", role="pre", backend="ast", target=f"{module}.{fn.name}",
                   desc=f"`{ast.unparse(c)[:90]}` (line {c.lineno}): every placeholder gets the literal it stands for")
            if not ok:
                r.witness = {"call": ast.unparse(c), "line": c.lineno}
                r.detail = "the replacement ignores which placeholder it replaces: a text with two literals shows the same literal twice"
                if replay:
                    r.replay = replay()
            out.append(r)
            k += 1
    if not out:
        out.append(OR(id=f"{prop}.S.resub.placeholders.anchor", status=UNKNOWN, kind="S", target=module, detail="no QUOTES_RE.sub with a callable found"))
    return out

"""Literal masking / re-insertion loops (C02, C18): the scan resumes behind the text that was just substituted.

FORD replaces each character literal of a statement by a numbered placeholder (FortranContainer.__init__) and later puts the literals back
(attribute statements, BIND names, initial values).  All these loops have the shape

    search_from = 0
    while <m := QUOTES_RE.search(X[search_from:])>:
        ...
        X = X[0:search_from] + QUOTES_RE.sub(<replacement>, X[search_from:], count=1)
        search_from += <offset>

The substitution changes the length of the matched text (a literal of any length <-> a short placeholder), so <offset> has to be measured in the
string *after* the substitution: by a fresh QUOTES_RE.search(X[search_from:]) placed after the assignment to X, never by the match object taken
before it.  An offset measured in the old string skips (or re-reads) up to |literal| - |placeholder| characters, and a literal starting there
stays unmasked - its content is then parsed as Fortran.  The obligation is generated for every such loop in the current source."""
from __future__ import annotations
import ast
from harness.core import OR, PROVED, REFUTED, UNKNOWN
from harness import loader


def _is_quotes_search(n):
    return isinstance(n, ast.Call) and isinstance(n.func, ast.Attribute) and n.func.attr == "search" and "QUOTES_RE" in ast.unparse(n.func.value)


def _sliced_target(call):
    """QUOTES_RE.search(X[search_from:]) -> source text of X"""
    if call.args and isinstance(call.args[0], ast.Subscript):
        return ast.unparse(call.args[0].value)
    return None


def obligations(prop, module="ford.sourceform", replay=None):
    _, tree = loader.module_source(module)
    out = []
    for fn in [x for x in ast.walk(tree) if isinstance(x, ast.FunctionDef)]:
        k = 0
        for w in [n for n in ast.walk(fn) if isinstance(n, ast.While)]:
            searches = [n for n in ast.walk(w.test) if _is_quotes_search(n)]
            if not searches:
                continue
            X = _sliced_target(searches[0])
            oid = f"{prop}.S.masking.{fn.name}.loop{k}.resume_offset_measured_after_substitution"
            k += 1
            if X is None:
                out.append(OR(id=oid, status=UNKNOWN, kind="S", target=f"{module}.{fn.name}", detail="loop test does not search a slice X[search_from:]"))
                continue
            body = w.body
            assigns = [i for i, st in enumerate(body) if isinstance(st, ast.Assign) and any(ast.unparse(t) == X for t in st.targets)]
            incs = [i for i, st in enumerate(body) if isinstance(st, ast.AugAssign) and ast.unparse(st.target) == "search_from"]
            if len(assigns) != 1 or len(incs) != 1:
                out.append(OR(id=oid, status=UNKNOWN, kind="S", target=f"{module}.{fn.name}",
                              detail=f"expected one assignment to {X} and one increment of search_from in the loop body, found {len(assigns)} / {len(incs)}"))
                continue
            ia, ii = assigns[0], incs[0]
            inc = body[ii]
            # match objects bound before the substitution (in the loop test or in the body up to and including the assignment)
            stale = set()
            for n in ast.walk(w.test):
                if isinstance(n, ast.NamedExpr) and isinstance(n.target, ast.Name):
                    stale.add(n.target.id)
            fresh = set()
            for i, st in enumerate(body):
                for n in ast.walk(st):
                    tgt = n.target if isinstance(n, ast.NamedExpr) else (n.targets[0] if isinstance(n, ast.Assign) and len(n.targets) == 1 else None)
                    if isinstance(tgt, ast.Name) and any(_is_quotes_search(c) for c in ast.walk(n.value)):
                        (stale if i <= ia else fresh).add(tgt.id)
            fresh -= {x for x in stale if x not in fresh}
            used = {n.id for n in ast.walk(inc.value) if isinstance(n, ast.Name)}
            direct = [n for n in ast.walk(inc.value) if _is_quotes_search(n) and _sliced_target(n) == X]
            ok = ii > ia and not (used & stale) and (bool(direct) or bool(used & fresh))
            r = OR(id=oid, status=PROVED if ok else REFUTED, kind="S", role="invariant", backend="ast", target=f"{module}.{fn.name}",
                   desc=f"`{ast.unparse(inc)[:90]}` (line {inc.lineno}): the scan of {X} resumes at an offset found in the string after the substitution")
            if not ok:
                r.witness = {"loop_line": w.lineno, "increment": ast.unparse(inc), "stale_match_objects": sorted(used & stale)}
                r.detail = "the offset comes from a match taken before the substitution (or the increment precedes it): text between the old and the new end is skipped"
                if replay:
                    r.replay = replay()
            out.append(r)
    if not out:
        out.append(OR(id=f"{prop}.S.masking.anchor", status=UNKNOWN, kind="S", target=module, detail="no QUOTES_RE scanning loop found (code restructured?)"))
    return out

"""C19 - a run touches nothing outside its output directory.  DESIGN.md section 6, C19."""
from __future__ import annotations
import time
from harness.core import Task, OR, PROVED, REFUTED
from contracts import confine
from contracts.common import *

PROP = "C19"


def _replay_if_refuted(results):
    """a failed call-site precondition is replayed by the end-to-end runs (a concrete escaping write confirms it)"""
    bad = [r for r in results if r.status == REFUTED]
    if bad:
        from bounded import c19
        hit = c19.search()
        for r in bad:
            r.replay = hit if hit else None
    return results


def bounded_task():
    def run():
        from bounded import c19
        t0 = time.time()
        hit = c19.search()
        r = OR(id=f"{PROP}.Bd.run.sandbox", status=REFUTED if hit else PROVED, kind="Bd", role="bounded", target="ford.main (real end-to-end run)",
               desc="placements of output_dir / graph_dir (sibling, nested, via '..', equal to or above a source directory, second source directory inside it, stale output) x options "
                    "that copy or write files (media_dir, css, mathjax_config, page_dir with copy_subdir and other files, incl_src, externalize, graph_dir): every recorded "
                    "file-system mutation (CPython audit hook) lies in the output/graph directory, all other files keep their content hash, refusal happens before any mutation",
               bound=f"{c19.count_cases()} end-to-end runs; no fault injection", cases=c19.count_cases(), seconds=time.time() - t0, backend="enumeration")
        if hit:
            r.replay, r.witness = hit, hit["input"]
        return [r]
    return Task(f"{PROP}.Bd.run", PROP, "real run", run)


def build(tier, seed):
    set_tier(tier)
    def _walk():
        from contracts import pages
        from bounded import c19
        c = pages.get_page_tree_walk(PROP)
        c.search_fn = c19.search
        return c
    _walk.__name__ = "get_page_tree_walk"
    tasks = [Task(f"{PROP}.S.save_graphs", PROP, "Documentation.__init__", lambda: __import__("contracts.plumbing", fromlist=["x"]).graphs_saved_only_into_graph_dir(PROP, lambda: __import__("bounded.c19", fromlist=["x"]).search())),
             a_task(PROP, _walk), Task(f"{PROP}.S.sites", PROP, "file-system call sites", lambda: _replay_if_refuted(confine.obligations(PROP))),
             Task(f"{PROP}.S.outfile", PROP, "outfile properties", lambda: confine.outfile_obligations(PROP) + confine.glob_targets_are_owned(PROP)),
             Task(f"{PROP}.S.location", PROP, "PageNode.__init__", lambda: __import__("contracts.pages", fromlist=["x"]).location_obligation(PROP, lambda: __import__("bounded.c19", fromlist=["x"]).search())),
             Task(f"{PROP}.S.refusal", PROP, "refusal", lambda: confine.refusal_obligations(PROP)), bounded_task()]
    meta = {
        "trusted_base": ["the path algebra of contracts/confine.py (Under(ROOT) / Safe component) and its pathlib reading: `a / b` stays under a iff b is relative and has no '..'",
                         "Python ast", "spec: the only roots FORD may write below are data['output_dir'] and data['graph_dir']"],
        "assumptions": [
            "component contracts assumed Safe (relative, no '..', no separator): entity ident / object_page / imgfile (C10), get_dir() (a fixed set of literals), PageNode.path / "
            ".location (C17: relative to the page directory), source-file and page-file base names, template_path / out_page (class constants)",
            "shutil / pathlib / graphviz write where their target argument says (library contracts), symlinks inside the output directory are not followed out of it",
            "the preprocessor subprocess and graphviz's own temporary files are out of scope",
            "safety at every prefix of a run: each obligation is about one call, so it also holds when the run fails later (this is how the crash-point quantifier is addressed); "
            "no fault is injected",
        ],
        "functions_under_contract": [{"call_sites": "every mkdir / unlink / rmtree / copy / copytree / write_bytes / write_text / open(w) / touch / rename / render call in the ford package, "
                                      "enumerated from the AST on every run"}, {"properties": "outfile of every page class"}, {"function": "ford.parse_arguments (refusal loop)"}],
        "unverified_surroundings": ["Path.resolve() / symlinks", "media_dir / page_dir placed inside the output directory (excluded by the statement's proviso)"],
        "explanation": "Each file-system mutating call site carries the precondition 'target under output_dir or graph_dir', discharged with a path algebra from the function-local "
                       "state, attribute contracts established in the initialisers and parameter contracts checked at every caller.",
    }
    return tasks, meta

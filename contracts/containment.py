"""Structural / Engine A obligations for C20: a file that cannot be parsed leaves no trace in the project."""
from __future__ import annotations
import ast
from harness.core import OR, PROVED, REFUTED, UNKNOWN
from harness import loader


def obligations(prop="C20"):
    out = []
    # 1. exceptional frame of Project._fortran_file: every registration of the new file's entities follows the (possibly raising) constructor
    ff = loader.find_def("ford.fortran_project", "Project._fortran_file")
    body = ff.body
    ctor = [i for i, st in enumerate(body) if isinstance(st, ast.Assign) and "FortranSourceFile(" in ast.unparse(st.value)]
    if len(ctor) != 1:
        out.append(OR(id=f"{prop}.S._fortran_file.anchor", status=UNKNOWN, kind="S", target="ford.fortran_project.Project._fortran_file", detail="constructor statement not found"))
    else:
        c = ctor[0]
        writes_before = []
        for st in body[:c]:
            for n in ast.walk(st):
                if isinstance(n, ast.Call) and isinstance(n.func, ast.Attribute) and n.func.attr in ("append", "extend", "add", "update", "insert") and ast.unparse(n.func.value).startswith("self."):
                    writes_before.append(ast.unparse(n)[:60])
                if isinstance(n, (ast.Assign, ast.AugAssign)) and any(ast.unparse(t).startswith("self.") for t in (n.targets if isinstance(n, ast.Assign) else [n.target])):
                    writes_before.append(ast.unparse(n)[:60])
        out.append(OR(id=f"{prop}.S._fortran_file.nothing_registered_before_the_parse", status=PROVED if not writes_before else REFUTED, kind="S", role="frame", backend="ast",
                      target="ford.fortran_project.Project._fortran_file",
                      desc="exceptional frame: if FortranSourceFile(...) raises, no project list has been touched (no write to self.* precedes the constructor call)",
                      detail=repr(writes_before)))
        in_try = any(isinstance(n, ast.Try) for n in ast.walk(ff))
        out.append(OR(id=f"{prop}.S._fortran_file.does_not_swallow_the_error", status=PROVED if not in_try else REFUTED, kind="S", role="post", backend="ast",
                      target="ford.fortran_project.Project._fortran_file", desc="_fortran_file itself has no try/except: a parse error reaches the per-file handler in Project.__init__ untouched"))
    # 2. the per-file handler of Project.__init__
    init = loader.find_def("ford.fortran_project", "Project.__init__")
    loops = [n for n in ast.walk(init) if isinstance(n, ast.For) and "find_all_files" in ast.unparse(n.iter)]
    ok_handler = ok_scope = False
    detail = ""
    if len(loops) == 1:
        tries = [n for n in loops[0].body if isinstance(n, ast.Try)]
        if len(tries) == 1 and len(tries[0].handlers) == 1:
            h = tries[0].handlers[0]
            src = [ast.unparse(s) for s in h.body]
            catches = ast.unparse(h.type) == "Exception" if h.type is not None else False
            reraise_iff_not_dbg = any(s.replace(" ", "").startswith("ifnotsettings.dbg:") and "raise" in s for s in src)
            from contracts import astform
            names_file = any(isinstance(x, ast.Call) and ast.unparse(x.func) == "warn" and ("relative_path" in ast.unparse(x) or "filename" in astform.text(init, x)) for s in h.body for x in ast.walk(s))
            # the handler goes on with the next file: it ends in `continue`, or it falls off its end and the try statement is the last statement of the loop body; nothing in it leaves the loop
            # otherwise than by the re-raise
            leaves = [x for s in h.body for x in ast.walk(s) if isinstance(x, (ast.Break, ast.Return))]
            falls_through = bool(h.body) and not isinstance(h.body[-1], ast.Raise) and loops[0].body[-1] is tries[0] and not tries[0].finalbody
            continues = bool(src) and not leaves and (src[-1] == "continue" or falls_through)
            ok_handler = catches and reraise_iff_not_dbg and names_file and continues
            detail = f"catches Exception: {catches}; re-raises iff not dbg: {reraise_iff_not_dbg}; names the file: {names_file}; continues: {continues}"
            ok_scope = any("_fortran_file(" in ast.unparse(s) for s in tries[0].body)
    out.append(OR(id=f"{prop}.S.__init__.per_file_handler", status=PROVED if ok_handler else REFUTED, kind="S", role="post", backend="ast", target="ford.fortran_project.Project.__init__",
                  desc="with dbg (the default) any Exception raised while parsing one file is caught, reported with the file's path and the loop continues with the next file",
                  detail=detail))
    out.append(OR(id=f"{prop}.S.__init__.handler_wraps_the_parse", status=PROVED if ok_scope else REFUTED, kind="S", role="pre", backend="ast", target="ford.fortran_project.Project.__init__",
                  desc="the try block contains the call of _fortran_file"))
    # 3. nesting errors: end of input inside a container raises
    ci = loader.find_def("ford.sourceform", "FortranContainer.__init__")
    last = ci.body[-1]
    ok = isinstance(last, ast.If) and "isinstance(self, FortranSourceFile)" in ast.unparse(last.test) and any(isinstance(s, ast.Raise) for s in last.body)
    out.append(OR(id=f"{prop}.S.FortranContainer.__init__.eof_inside_container_raises", status=PROVED if ok else REFUTED, kind="S", role="post", backend="ast",
                  target="ford.sourceform.FortranContainer.__init__", desc="when the source runs out inside any container other than the file itself an exception is raised"))
    # 3b. an END at nesting level 0 rejects the file: the END branch reaches self._cleanup(), which for a source file is the base class's raising stub
    end_branch = [n for n in ast.walk(ci) if isinstance(n, ast.If) and "self.END_RE.match(line)" in ast.unparse(n.test)]
    calls_cleanup = bool(end_branch) and any(isinstance(x, ast.Call) and ast.unparse(x.func) == "self._cleanup" for b in end_branch[0].body for x in ast.walk(b))
    sf = loader.import_repo("ford.sourceform")
    impl = sf.FortranSourceFile._cleanup
    owner = impl.__qualname__.rsplit(".", 1)[0]
    try:
        body = loader.find_def("ford.sourceform", impl.__qualname__).body
        body = [b for b in body if not (isinstance(b, ast.Expr) and isinstance(b.value, ast.Constant))]
        stub_raises = len(body) >= 1 and isinstance(body[0], ast.Raise)
    except Exception:
        stub_raises = False
    ok = calls_cleanup and stub_raises
    out.append(OR(id=f"{prop}.S.FortranSourceFile.end_at_file_level_raises", status=PROVED if ok else REFUTED, kind="S", role="post", backend="ast+mro",
                  target="ford.sourceform.FortranContainer.__init__ / FortranSourceFile._cleanup",
                  desc="an END statement at nesting level 0 of a file ends in self._cleanup(), which the method resolution order of FortranSourceFile maps to a stub that raises: "
                       "the file is rejected instead of being accepted with the text before the END",
                  witness=None if ok else {"END branch calls self._cleanup()": calls_cleanup, "FortranSourceFile._cleanup resolves to": impl.__qualname__, "which raises first": stub_raises}))
    # 4. reader errors name the offending line
    nx = loader.find_def("ford.reader", "FortranReader.__next__")
    raises = [n for n in ast.walk(nx) if isinstance(n, ast.Raise) and n.exc is not None]
    named = [r for r in raises if "line" in ast.unparse(r.exc)]
    out.append(OR(id=f"{prop}.S.FortranReader.__next__.errors_quote_the_line", status=PROVED if raises and len(named) == len(raises) else REFUTED, kind="S", role="post", backend="ast",
                  target="ford.reader.FortranReader.__next__", desc=f"each of the {len(raises)} error exits of the reader quotes the offending line"))
    return out


# ------------------------------------------------------------------ the per-file handler itself (Engine A block contract)
def handler_block(prop="C20"):
    """the body of `except Exception as e:` in Project.__init__: with dbg on (the default) it reports and moves on to the next file for EVERY exception object,
    whatever its args; with dbg off it re-raises that same exception"""
    import ast
    import z3
    from pyvc.contract import Contract, TRef, TStr, TOpaque
    from pyvc.values import SNone
    from contracts.display import base, H, sel
    from harness.loader import TargetMissing
    c = base(Contract("ford.fortran_project", "Project.__init__", prop))
    c.qual_suffix = "per_file_handler"

    def select(fn):
        hits = [h for n in ast.walk(fn) if isinstance(n, ast.Try) for h in n.handlers
                if any(isinstance(x, ast.Call) and ast.unparse(x.func) == "self._fortran_file" for b in n.body for x in ast.walk(b))]
        if len(hits) != 1:
            raise TargetMissing(f"per-file try statement: {len(hits)} handlers")
        if hits[0].name != "e":
            raise TargetMissing("handler does not bind the exception to `e`")
        return hits[0].body
    c.block_select = select
    c.dropped.append("block contract: the body of the handler of the per-file try statement in Project.__init__")
    c.fields.update({"args": "list:str", "dbg": "bool"})
    c.param("e", TRef("Exception"))
    c.param("settings", TRef("ProjectSettings"))
    c.param("relative_path", TStr())
    c.check_message_args = True        # building the diagnostic must not raise (e.args may be empty)
    c.assumed.append("an exception object's args is a tuple of any length (modelled as a list of display strings); warn() returns")
    dbg = lambda v: sel(H(v, "dbg"), v.settings)
    c.on_continue = [("only_with_dbg_on", lambda v0, v1: dbg(v0))]
    c.raises("only_with_dbg_off_and_then_the_original_exception", lambda v0, exc, v1: z3.And(z3.Not(dbg(v0)), z3.BoolVal(exc == "e")))
    c.allowed_raises = {"e"}
    return c


def diagnostic_obligations(prop="C20"):
    """the per-file handler reports a rejected file through ford.console.warn, and the message echoes source text and the file path.  rich treats `[...]` in what it prints
    as markup: an unmatched closing tag raises MarkupError *inside the except block* (the run aborts instead of going on), a `[word]` is swallowed (the file is not named).
    warn() must therefore pass the message through rich.markup.escape - and nothing else of the message may be interpolated unescaped."""
    import ast
    from harness import loader
    from harness.core import OR, PROVED, REFUTED, UNKNOWN
    oid = f"{prop}.S.console.warn.message_is_escaped"
    try:
        fn = loader.find_def("ford.console", "warn")
    except Exception as e:
        return [OR(id=oid, status=UNKNOWN, kind="S", target="ford.console.warn", detail=str(e))]
    arg = fn.args.args[0].arg if fn.args.args else None
    prints = [c for c in ast.walk(fn) if isinstance(c, ast.Call) and isinstance(c.func, ast.Attribute) and c.func.attr == "print"]
    if len(prints) != 1 or arg is None:
        return [OR(id=oid, status=UNKNOWN, kind="S", target="ford.console.warn", detail=f"expected one console.print call in warn(msg), found {len(prints)}")]
    # every use of the message inside the printed expression is the argument of escape(...)
    uses = [n for n in ast.walk(prints[0]) if isinstance(n, ast.Name) and n.id == arg]
    escaped = [n for c in ast.walk(prints[0]) if isinstance(c, ast.Call) and ast.unparse(c.func) in ("escape", "rich.markup.escape", "markup.escape") for n in ast.walk(c)
               if isinstance(n, ast.Name) and n.id == arg]
    markup_off = any(k.arg == "markup" and isinstance(k.value, ast.Constant) and k.value.value is False for k in prints[0].keywords)
    ok = bool(uses) and (markup_off or all(any(u is e for e in escaped) for u in uses))
    r = OR(id=oid, status=PROVED if ok else REFUTED, kind="S", role="pre", backend="ast", target="ford.console.warn",
           desc=f"`{ast.unparse(prints[0])[:90]}`: the message reaches rich only through escape() (or with markup switched off)")
    if not ok:
        from bounded import c20
        r.witness = {"print": ast.unparse(prints[0])}
        r.detail = "brackets in a rejected file's echoed line or path are parsed as console markup"
        r.replay = c20.markup_cases()
    # ... and it is printed whole: nothing tells rich to cut what does not fit the line (the path of the rejected file stands at the end of the first line)
    cutting = {k.arg: ast.unparse(k.value) for k in prints[0].keywords if (k.arg == "overflow" and ast.unparse(k.value).strip("'\"") in ("ellipsis", "crop"))
               or (k.arg == "no_wrap" and isinstance(k.value, ast.Constant) and k.value.value is True) or k.arg in ("crop", "width", "height") and not (isinstance(k.value, ast.Constant) and k.value.value in (None, False))}
    r2 = OR(id=f"{prop}.S.console.warn.message_is_printed_whole", status=REFUTED if cutting else PROVED, kind="S", role="pre", backend="ast", target="ford.console.warn",
            desc="console.print is given no option that cuts a line at the console width (overflow='ellipsis' / 'crop', no_wrap, crop, width)")
    if cutting:
        r2.witness = {"print": ast.unparse(prints[0]), "options": cutting}
        r2.detail = "a diagnostic longer than the console width (80 columns when the output is not a terminal) loses its tail: the name of a rejected file that lies a few directories deep"
    return [r, r2]


def preprocessor_exit_obligations(prop="C20"):
    """the built-in preprocessor (pcpp's CmdPreprocessor) reports errors it cannot recover from by ending the process (sys.exit): SystemExit is not an Exception, so the
    per-file handler of Project.__init__ would not contain it.  The call site in FortranReader.__init__ must stand inside a `try` whose handlers catch SystemExit."""
    import ast
    from harness import loader
    from harness.core import OR, PROVED, REFUTED, UNKNOWN
    oid = f"{prop}.S.FortranReader.__init__.preprocessor_exit_is_contained"
    fn = loader.find_def("ford.reader", "FortranReader.__init__")
    calls = [c for c in ast.walk(fn) if isinstance(c, ast.Call) and ast.unparse(c.func).endswith("CmdPreprocessor")]
    if len(calls) != 1:
        return [OR(id=oid, status=UNKNOWN, kind="S", target="ford.reader.FortranReader.__init__", detail=f"{len(calls)} CmdPreprocessor calls")]
    ok = False
    for t in [n for n in ast.walk(fn) if isinstance(n, ast.Try)]:
        if any(x is calls[0] for b in t.body for x in ast.walk(b)):
            for h in t.handlers:
                names = [ast.unparse(h.type)] if h.type is not None and not isinstance(h.type, ast.Tuple) else ([ast.unparse(e) for e in h.type.elts] if h.type is not None else ["BaseException"])
                if any(n in ("SystemExit", "BaseException") for n in names):
                    ok = True
    r = OR(id=oid, status=PROVED if ok else REFUTED, kind="S", role="pre", backend="ast", target="ford.reader.FortranReader.__init__",
           desc="CmdPreprocessor(...) (pcpp) is called inside a try block that catches SystemExit")
    if not ok:
        from bounded import c20
        r.detail = "a file pcpp gives up on (one that includes itself, say) ends the whole run"
        r.replay = c20.preprocessor_exit_case()
    return [r]


def reader_progress_obligation(prop="C20", replay=None):
    """FORD never hangs on a file: every iteration of the statement-assembly loop of FortranReader.__next__ (`while not done:`) takes one line from the underlying line iterator,
    `line = next(self.reader)`, as a direct statement of the loop body - not under a `try` whose handler could swallow the StopIteration of an exhausted file and go round
    again.  The iterator is finite (lines of a file / of the preprocessor's output), so the loop ends after at most that many iterations or leaves with StopIteration."""
    import ast
    from harness import loader
    from harness.core import OR, PROVED, REFUTED, UNKNOWN
    oid = f"{prop}.S.FortranReader.__next__.every_iteration_consumes_a_line_or_stops"
    fn = loader.find_def("ford.reader", "FortranReader.__next__")
    loops = [n for n in ast.walk(fn) if isinstance(n, ast.While) and ast.unparse(n.test) == "not done"]
    if len(loops) != 1:
        return [OR(id=oid, status=UNKNOWN, kind="S", target="ford.reader.FortranReader.__next__", detail=f"`while not done` loops: {len(loops)}")]
    l = loops[0]
    direct = [st for st in l.body if isinstance(st, ast.Assign) and ast.unparse(st.value) == "next(self.reader)"]
    # nothing before it in the body can `continue` without having consumed a line
    first = bool(direct) and l.body.index(direct[0]) == 0
    guarded = [t for t in ast.walk(l) if isinstance(t, ast.Try) and any("next(self.reader)" in ast.unparse(b) for b in t.body)]
    ok = first and not guarded
    r = OR(id=oid, status=PROVED if ok else REFUTED, kind="S", role="variant", backend="ast", target="ford.reader.FortranReader.__next__",
           desc="`while not done:` starts every iteration with `line = next(self.reader)` outside any try statement: the number of lines left is a variant of the loop")
    if not ok:
        r.witness = {"first_statement": ast.unparse(l.body[0])[:80], "under_try": bool(guarded)}
        r.detail = "an iteration can complete without consuming a line: at the end of a file the loop may feed itself forever"
        if replay:
            r.replay = replay()
    return [r]


def diagnostics_allocate_nothing(prop="C20", replay=None):
    """a file that is rejected leaves nothing behind in the project-wide name selector: output names are handed out after a file has parsed completely
    (Project._fortran_file).  FortranContainer.print_error, which runs in the middle of a parse that may still fail, therefore describes the entity by its attributes - it formats
    neither the entity itself (`str(self)` computes the URL, which asks the selector for a name) nor `ident` / `anchor` / `get_url()` / `full_url`."""
    import ast
    from harness import loader
    from harness.core import OR, PROVED, REFUTED
    fn = loader.find_def("ford.sourceform", "FortranContainer.print_error")
    bad = []
    for n in ast.walk(fn):
        if isinstance(n, ast.FormattedValue) and isinstance(n.value, ast.Name) and n.value.id == "self":
            bad.append((n.lineno, "{self}"))
        if isinstance(n, ast.Call) and isinstance(n.func, ast.Name) and n.func.id in ("str", "repr") and n.args and isinstance(n.args[0], ast.Name) and n.args[0].id == "self":
            bad.append((n.lineno, ast.unparse(n)))
        if isinstance(n, ast.Attribute) and n.attr in ("ident", "anchor", "full_url", "get_url") and isinstance(n.value, ast.Name) and n.value.id == "self":
            bad.append((n.lineno, ast.unparse(n)))
    r = OR(id=f"{prop}.S.FortranContainer.print_error.describes_the_entity_without_allocating_a_name", status=REFUTED if bad else PROVED, kind="S", role="frame", backend="ast",
           target="ford.sourceform.FortranContainer.print_error", desc="print_error formats attributes of the entity (obj, name, filename), never the entity itself or its identifier / URL")
    if bad:
        r.witness = {"sites": bad}
        r.detail = f"line {bad[0][0]}: `{bad[0][1]}` asks the name selector for an output name while the file may still be rejected: a valid file read later gets `name~2`"
        if replay:
            r.replay = replay()
    return [r]

"""Structural / Engine A obligations for C20: a file that cannot be parsed leaves no trace in the project."""
from __future__ import annotations
import ast
from harness.core import OR, PROVED, REFUTED, UNKNOWN
from harness import loader


def obligations(prop="C20"):
    out = []
    # 1. exceptional frame of Project._fortran_file: every registration of the new file's entities follows the (possibly raising) constructor
    ff = loader.find_def("ford.fortran_project", "Project._fortran_file")
    body = ff.body
    ctor = [i for i, st in enumerate(body) if isinstance(st, ast.Assign) and "FortranSourceFile(" in ast.unparse(st.value)]
    if len(ctor) != 1:
        out.append(OR(id=f"{prop}.S._fortran_file.anchor", status=UNKNOWN, kind="S", target="ford.fortran_project.Project._fortran_file", detail="constructor statement not found"))
    else:
        c = ctor[0]
        writes_before = []
        for st in body[:c]:
            for n in ast.walk(st):
                if isinstance(n, ast.Call) and isinstance(n.func, ast.Attribute) and n.func.attr in ("append", "extend", "add", "update", "insert") and ast.unparse(n.func.value).startswith("self."):
                    writes_before.append(ast.unparse(n)[:60])
                if isinstance(n, (ast.Assign, ast.AugAssign)) and any(ast.unparse(t).startswith("self.") for t in (n.targets if isinstance(n, ast.Assign) else [n.target])):
                    writes_before.append(ast.unparse(n)[:60])
        out.append(OR(id=f"{prop}.S._fortran_file.nothing_registered_before_the_parse", status=PROVED if not writes_before else REFUTED, kind="S", role="frame", backend="ast",
                      target="ford.fortran_project.Project._fortran_file",
                      desc="exceptional frame: if FortranSourceFile(...) raises, no project list has been touched (no write to self.* precedes the constructor call)",
                      detail=repr(writes_before)))
        in_try = any(isinstance(n, ast.Try) for n in ast.walk(ff))
        out.append(OR(id=f"{prop}.S._fortran_file.does_not_swallow_the_error", status=PROVED if not in_try else REFUTED, kind="S", role="post", backend="ast",
                      target="ford.fortran_project.Project._fortran_file", desc="_fortran_file itself has no try/except: a parse error reaches the per-file handler in Project.__init__ untouched"))
    # 2. the per-file handler of Project.__init__
    init = loader.find_def("ford.fortran_project", "Project.__init__")
    loops = [n for n in ast.walk(init) if isinstance(n, ast.For) and "find_all_files" in ast.unparse(n.iter)]
    ok_handler = ok_scope = False
    detail = ""
    if len(loops) == 1:
        tries = [n for n in loops[0].body if isinstance(n, ast.Try)]
        if len(tries) == 1 and len(tries[0].handlers) == 1:
            h = tries[0].handlers[0]
            src = [ast.unparse(s) for s in h.body]
            catches = ast.unparse(h.type) == "Exception" if h.type is not None else False
            reraise_iff_not_dbg = any(s.replace(" ", "").startswith("ifnotsettings.dbg:") and "raise" in s for s in src)
            names_file = any(s.startswith("warn(") and "relative_path" in s for s in src)
            continues = src and src[-1] == "continue"
            ok_handler = catches and reraise_iff_not_dbg and names_file and continues
            detail = f"catches Exception: {catches}; re-raises iff not dbg: {reraise_iff_not_dbg}; names the file: {names_file}; continues: {continues}"
            ok_scope = any("_fortran_file(" in ast.unparse(s) for s in tries[0].body)
    out.append(OR(id=f"{prop}.S.__init__.per_file_handler", status=PROVED if ok_handler else REFUTED, kind="S", role="post", backend="ast", target="ford.fortran_project.Project.__init__",
                  desc="with dbg (the default) any Exception raised while parsing one file is caught, reported with the file's path and the loop continues with the next file",
                  detail=detail))
    out.append(OR(id=f"{prop}.S.__init__.handler_wraps_the_parse", status=PROVED if ok_scope else REFUTED, kind="S", role="pre", backend="ast", target="ford.fortran_project.Project.__init__",
                  desc="the try block contains the call of _fortran_file"))
    # 3. nesting errors: end of input inside a container raises
    ci = loader.find_def("ford.sourceform", "FortranContainer.__init__")
    last = ci.body[-1]
    ok = isinstance(last, ast.If) and "isinstance(self, FortranSourceFile)" in ast.unparse(last.test) and any(isinstance(s, ast.Raise) for s in last.body)
    out.append(OR(id=f"{prop}.S.FortranContainer.__init__.eof_inside_container_raises", status=PROVED if ok else REFUTED, kind="S", role="post", backend="ast",
                  target="ford.sourceform.FortranContainer.__init__", desc="when the source runs out inside any container other than the file itself an exception is raised"))
    # 4. reader errors name the offending line
    nx = loader.find_def("ford.reader", "FortranReader.__next__")
    raises = [n for n in ast.walk(nx) if isinstance(n, ast.Raise) and n.exc is not None]
    named = [r for r in raises if "line" in ast.unparse(r.exc)]
    out.append(OR(id=f"{prop}.S.FortranReader.__next__.errors_quote_the_line", status=PROVED if raises and len(named) == len(raises) else REFUTED, kind="S", role="post", backend="ast",
                  target="ford.reader.FortranReader.__next__", desc=f"each of the {len(raises)} error exits of the reader quotes the offending line"))
    return out

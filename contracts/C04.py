"""C04 - accessibility of every entity follows Fortran's PUBLIC/PRIVATE rules.  DESIGN.md section 6, C04."""
from __future__ import annotations
import time
from harness.core import Task, OR, PROVED, REFUTED
from contracts import access
from contracts.common import *

PROP = "C04"


def bounded_task():
    def run():
        from bounded import c04
        t0 = time.time()
        hit = c04.search()
        nm, nt = c04.count_cases()
        r = OR(id=f"{PROP}.Bd.parser.access_product", status=REFUTED if hit else PROVED, kind="Bd", role="bounded", target="ford.sourceform.FortranSourceFile (real parser)",
               desc="scope default {none, public, private; early} x declaration attribute x access statement {before, after} x 8 module-level entity kinds, and for types: "
                    "component default x binding default x component attribute x binding attribute x type attribute (single-name, multi-name and generic bindings)",
               bound=f"exhaustive over the stated product: {nm} module cells x 8 kinds + {nt} type cells (late bare access statements are the known finding, checked separately)",
               cases=nm + nt, seconds=time.time() - t0, backend="enumeration")
        if hit:
            r.replay, r.witness = hit, hit["input"]
        kc = c04.known_late_default()
        k = OR(id=f"{PROP}.Bd.parser.late_default", status=REFUTED if kc else PROVED, kind="Bd", role="bounded", target="ford.sourceform.FortranContainer.__init__",
               desc="a bare PRIVATE after the declarations applies to the entities declared before it", bound="1 case", cases=1, backend="enumeration", known="C04-late-default")
        if kc:
            k.replay, k.witness = kc, kc["input"]
        return [r, k]
    return Task(f"{PROP}.Bd.parser", PROP, "real parser", run)


def _constructor():
    from bounded import c04
    c = access.constructor_block(PROP)
    c.search_fn = c04.constructor_cases
    return c


_constructor.__name__ = "constructor_block"


def build(tier, seed):
    set_tier(tier)
    tasks = [standin_task(PROP, "parser.spelling_equivalence", lambda: __import__("bounded.c01", fromlist=["x"]).search(), "ford.sourceform (real parser)",
                          "the two spellings of a declaration (attributes on the declaration / attribute statements, typed / implicitly typed common members) give the same entities, "
                          "accessibility included", "model programs of C01", 1),
             Task(f"{PROP}.S.filter_public", PROP, "FortranCodeUnit.correlate", lambda: __import__("contracts.useassoc", fromlist=["x"]).filter_public_obligation(PROP, lambda: __import__("bounded.c06", fromlist=["x"]).search())),
             a_task(PROP, access.is_interface_procedure), a_task(PROP, access.permission_getter), a_task(PROP, access.access_tracking),
             a_task(PROP, access.process_attribs_item), a_task(PROP, _constructor),
             Task(f"{PROP}.S.constructors", PROP, "FortranContainer.__init__", lambda: access.constructor_call_sites(PROP) + access.initial_default(PROP)),
             Task(f"{PROP}.S.elementwise", PROP, "attribute loops", lambda: __import__("contracts.elementwise", fromlist=["x"]).obligations(PROP, replay=lambda: __import__("bounded.c04", fromlist=["x"]).search())),
             Task(f"{PROP}.S.casefold", PROP, "keyword tests on captured text", lambda: __import__("contracts.casefold", fromlist=["x"]).obligations(PROP, "ford.sourceform", lambda: __import__("bounded.c04", fromlist=["x"]).search())),
             Task(f"{PROP}.S.correlate_frame", PROP, "FortranCodeUnit.correlate", lambda: access.correlate_keeps_accessibility(PROP, lambda: __import__("bounded.c04", fromlist=["x"]).submodule_cases())),
             Task(f"{PROP}.S.casefold.flow", PROP, "keyword tests on local names", lambda: __import__("contracts.casefold", fromlist=["x"]).flow_obligations(PROP, replay=lambda: __import__("bounded.c04", fromlist=["x"]).search())),
             Task(f"{PROP}.S.casefold.prefix", PROP, "keyword prefix tests", lambda: __import__("contracts.casefold", fromlist=["x"]).prefix_obligations(PROP, replay=lambda: __import__("bounded.c04", fromlist=["x"]).same_name_cases())),
             bounded_task()]
    meta = {
        "trusted_base": TRUSTED_BASE,
        "assumptions": PYVC_ASSUMPTIONS + [
            "heap model of contracts/heapmodel.py; `permission` written through the property setter is modelled as a field write",
            "collections.defaultdict(list): a missing key is inserted with a new empty list",
            "oracle: explicit attribute on the declaration, else the last access statement naming the entity, else the scope default; a type keeps separate defaults for its "
            "components and (after CONTAINS) its bindings and its own accessibility is not touched by them",
        ],
        "functions_under_contract": fn_meta([("ford.sourceform", "FortranProcedure.is_interface_procedure", None), ("ford.sourceform", "FortranProcedure.permission", None),
                                             ("ford.sourceform", "FortranContainer.__init__", "block contract: the CONTAINS branch and the bare access-statement branch of the dispatch chain"),
                                             ("ford.sourceform", "FortranCodeUnit.process_attribs", "block contract: body of the first loop (one entity and the statements recorded for its name)")]) +
        [{"call_sites": "child constructors in FortranContainer.__init__ (permission argument)"}],
        "unverified_surroundings": ["attribute parsing on declarations (line_to_variables, FortranType._initialize, FortranBoundProcedure._initialize): bounded product only",
                                    "the variables loop of process_attribs and public_list", "that the tracked default reaches entities declared BEFORE a late bare access statement (known finding)"],
        "explanation": "The default-accessibility state machine of the parser, the per-entity merge of access statements, the interface-procedure rule and the permission argument "
                       "of every child constructor are under contract.",
    }
    return tasks, meta

"""Option plumbing and object-state obligations added in wave 6 (structural, read from the current source on every run)."""
from __future__ import annotations
import ast, os
from contracts import astform
from harness.core import OR, PROVED, REFUTED, UNKNOWN
from harness import loader


def sourcefile_gets_incl_src(prop="C11", replay=None):
    """Project._fortran_file builds each FortranSourceFile with `incl_src=settings.incl_src`: the file's `visible` flag says whether its page is written, and a [[file]]
    reference is a link only to a visible file (convert_link, C09/C11).  A constructor call that drops the keyword leaves every file visible (kwargs.get default)."""
    oid = f"{prop}.S.Project._fortran_file.source_file_knows_whether_its_page_is_written"
    try:
        fn = loader.find_def("ford.fortran_project", "Project._fortran_file")
    except loader.TargetMissing as e:
        return [OR(id=oid, status=UNKNOWN, kind="S", target="ford.fortran_project.Project._fortran_file", detail=str(e))]
    calls = [c for c in ast.walk(fn) if isinstance(c, ast.Call) and ast.unparse(c.func).endswith("FortranSourceFile")]
    if len(calls) != 1:
        return [OR(id=oid, status=UNKNOWN, kind="S", target="ford.fortran_project.Project._fortran_file", detail=f"{len(calls)} FortranSourceFile constructions")]
    kw = {k.arg: ast.unparse(k.value) for k in calls[0].keywords}
    ok = kw.get("incl_src") in ("settings.incl_src", "self.settings.incl_src")
    r = OR(id=oid, status=PROVED if ok else REFUTED, kind="S", role="pre", backend="ast", target="ford.fortran_project.Project._fortran_file",
           desc=f"FortranSourceFile(...) receives incl_src=settings.incl_src (keywords: {sorted(kw)})")
    if not ok:
        r.witness = {"call": ast.unparse(calls[0])[:300]}
        r.detail = "source files are marked visible whatever incl_src says: [[file]] references link to pages that are not written"
        if replay:
            r.replay = replay()
    return [r]


def lower_after_masking(prop="C18", replay=None):
    """FortranContainer.__init__ statement loop: the `lower` option lower-cases the *code* of a statement; character literals were cut out into self.strings before and are put
    back verbatim.  So the statement that applies the option must come after the literal-masking loop (the `while ... QUOTES_RE.search(line[search_from:])` that appends to
    self.strings), and nothing before that loop may lower-case `line`."""
    oid = f"{prop}.S.FortranContainer.__init__.lower_option_applied_after_the_literals_were_cut_out"
    fn = loader.find_def("ford.sourceform", "FortranContainer.__init__")
    loops = [n for n in fn.body if isinstance(n, ast.For) and ast.unparse(n.iter) == "source"]
    if len(loops) != 1:
        return [OR(id=oid, status=UNKNOWN, kind="S", target="ford.sourceform.FortranContainer.__init__", detail="statement loop not found")]
    body = loops[0].body
    mask = next((i for i, st in enumerate(body) if isinstance(st, ast.While) and "QUOTES_RE.search(line" in ast.unparse(st.test) and "self.strings.append" in ast.unparse(st)), None)
    if mask is None:
        return [OR(id=oid, status=UNKNOWN, kind="S", target="ford.sourceform.FortranContainer.__init__", detail="literal-masking loop not found")]
    lowering = [i for i, st in enumerate(body) for n in ast.walk(st) if isinstance(n, ast.Assign) and any(ast.unparse(t) == "line" for t in n.targets)
                and ("lower()" in ast.unparse(n.value) or ast.unparse(n.value) == "line_lower")]
    ok = bool(lowering) and all(i > mask for i in lowering)
    r = OR(id=oid, status=PROVED if ok else REFUTED, kind="S", role="pre", backend="ast", target="ford.sourceform.FortranContainer.__init__",
           desc="every assignment that lower-cases `line` stands after the loop that replaces the character literals by placeholders")
    if not ok:
        r.witness = {"masking_loop_at_statement": mask, "lower_casing_at_statements": lowering}
        r.detail = "with `lower: true` the literals kept in self.strings are lower-cased: initial values, PARAMETER values and bind names are shown in lower case"
        if replay:
            r.replay = replay()
    return [r]


def graphs_saved_only_into_graph_dir(prop="C19", replay=None):
    """Documentation.__init__ creates the GraphManager with `save_graphs` true exactly when the `graph_dir` option is set: the truth value must be taken of the option's value
    (a string or None), not of a pathlib.Path built from it - Path("") is the current directory and is always true, so graphs would be written into the working directory."""
    oid = f"{prop}.S.output.Documentation.__init__.graphs_are_saved_only_when_graph_dir_is_set"
    fn = loader.find_def("ford.output", "Documentation.__init__")
    calls = [c for c in ast.walk(fn) if isinstance(c, ast.Call) and ast.unparse(c.func).endswith("GraphManager")]
    if len(calls) != 1:
        return [OR(id=oid, status=UNKNOWN, kind="S", target="ford.output.Documentation.__init__", detail=f"{len(calls)} GraphManager constructions")]
    kw = {k.arg: k.value for k in calls[0].keywords}
    sg = kw.get("save_graphs")
    paths = {n.targets[0].id for n in ast.walk(fn) if isinstance(n, ast.Assign) and len(n.targets) == 1 and isinstance(n.targets[0], ast.Name) and "Path(" in ast.unparse(n.value)}
    txt = ast.unparse(sg) if sg is not None else ""
    ok = sg is not None and "graph_dir" in txt and "Path(" not in txt and not any(isinstance(n, ast.Name) and n.id in paths for n in ast.walk(sg))
    r = OR(id=oid, status=PROVED if ok else REFUTED, kind="S", role="pre", backend="ast", target="ford.output.Documentation.__init__",
           desc=f"GraphManager(..., save_graphs={txt[:60]}): the truth value of the graph_dir option itself")
    if not ok:
        r.witness = {"save_graphs": txt, "path_valued_names": sorted(paths)}
        r.detail = "save_graphs is true although no graph_dir is configured: graph files are written into the current working directory"
        if replay:
            r.replay = replay()
    return [r]


MUTATORS = {"append", "extend", "insert", "pop", "remove", "clear", "update", "add", "discard", "setdefault", "popitem", "sort", "reverse"}


def no_shared_mutable_state(prop="C20", modules=("ford.reader", "ford.sourceform", "ford.fortran_project"), replay=None):
    """one file's failure must not leak into the next file: the buffers of a reader / parser object belong to the instance.  For every class of the parsing modules: an attribute
    that holds a mutable container at class level ([], {}, set(), list(), dict(), defaultdict(..)) and is mutated through `self.<attr>.<mutator>(...)` (or `self.<attr>[..] = ..`)
    in one of the class's methods must be re-bound in __init__ (or _initialize) first - otherwise all instances share one container."""
    out = []
    for module in modules:
        _, tree = loader.module_source(module)
        for cls in [n for n in tree.body if isinstance(n, ast.ClassDef)]:
            shared = {}
            for st in cls.body:
                tgt, val = (st.targets[0], st.value) if isinstance(st, ast.Assign) and len(st.targets) == 1 else ((st.target, st.value) if isinstance(st, ast.AnnAssign) else (None, None))
                if isinstance(tgt, ast.Name) and val is not None and (isinstance(val, (ast.List, ast.Dict, ast.Set)) or
                                                                      (isinstance(val, ast.Call) and ast.unparse(val.func).split(".")[-1] in ("list", "dict", "set", "defaultdict", "OrderedDict", "deque"))):
                    shared[tgt.id] = st.lineno
            if not shared:
                continue
            rebound = set()
            for m in cls.body:
                if isinstance(m, ast.FunctionDef) and m.name in ("__init__", "_initialize", "_common_initialize"):
                    for n in ast.walk(m):
                        tg = n.targets if isinstance(n, ast.Assign) else [n.target] if isinstance(n, ast.AnnAssign) and n.value is not None else []
                        for t in tg:
                            if isinstance(t, ast.Attribute) and isinstance(t.value, ast.Name) and t.value.id == "self":
                                rebound.add(t.attr)
            for name, line in shared.items():
                mutated = False
                for m in [x for x in cls.body if isinstance(x, ast.FunctionDef)]:
                    for n in ast.walk(m):
                        if isinstance(n, ast.Call) and isinstance(n.func, ast.Attribute) and n.func.attr in MUTATORS and ast.unparse(n.func.value) == f"self.{name}":
                            mutated = True
                        if isinstance(n, (ast.Assign, ast.AugAssign)):
                            for t in (n.targets if isinstance(n, ast.Assign) else [n.target]):
                                if isinstance(t, ast.Subscript) and ast.unparse(t.value) == f"self.{name}":
                                    mutated = True
                if not mutated:
                    continue
                ok = name in rebound
                r = OR(id=f"{prop}.S.{module.split('.')[-1]}.{cls.name}.{name}.per_instance_container", status=PROVED if ok else REFUTED, kind="S", role="invariant", backend="ast",
                       target=f"{module}.{cls.name}", desc=f"class attribute `{name}` (line {line}) holds a mutable container that methods mutate: it is re-bound per instance in the initialiser")
                if not ok:
                    r.detail = "all instances share one container: what an aborted parse leaves in it is handed to the next file"
                    if replay:
                        r.replay = replay()
                out.append(r)
    if not out:
        out.append(OR(id=f"{prop}.S.per_instance_containers", status=PROVED, kind="S", role="invariant", backend="ast", target=", ".join(modules),
                      desc="no class of the parsing modules keeps a mutable container at class level that its methods mutate"))
    return out


COPIERS = ("copy", "deepcopy", "list", "dict", "set", "tuple", "sorted")


def mutable_defaults_not_shared(prop, modules=("ford.sourceform",), replay=None):
    """a default argument is evaluated once: a parameter whose default is a mutable container ([], {}, set(), ...) is one object shared by every call that omits it.  For every
    such parameter in the current source: the function does not keep a reference to it (`self.x = p`, `obj.x = p`, put into a container, returned) and does not mutate it
    (`p.append(..)`, `p[..] = ..`, `p += ..`); keeping a copy (`copy.copy(p)`, `list(p)`, `p[:]`, `p or []`) is fine.  Otherwise what one entity receives (an attribute from an
    attribute statement, say) shows up on every other entity built with the default."""
    out = []
    for module in modules:
        _, tree = loader.module_source(module)
        for fn in [x for x in ast.walk(tree) if isinstance(x, (ast.FunctionDef, ast.AsyncFunctionDef))]:
            a = fn.args
            pos = a.posonlyargs + a.args
            pairs = list(zip(pos[len(pos) - len(a.defaults):], a.defaults)) + [(k, d) for k, d in zip(a.kwonlyargs, a.kw_defaults) if d is not None]
            for arg, d in pairs:
                if not (isinstance(d, (ast.List, ast.Dict, ast.Set)) or (isinstance(d, ast.Call) and ast.unparse(d.func).split(".")[-1] in ("list", "dict", "set", "defaultdict", "OrderedDict", "deque"))):
                    continue
                p, bad = arg.arg, None
                is_p = lambda e: isinstance(e, ast.Name) and e.id == p
                for n in ast.walk(fn):
                    if isinstance(n, ast.Call) and isinstance(n.func, ast.Attribute) and n.func.attr in MUTATORS and is_p(n.func.value):
                        bad = bad or (n.lineno, f"`{ast.unparse(n)[:60]}` mutates the shared default")
                    if isinstance(n, ast.AugAssign) and is_p(n.target):
                        bad = bad or (n.lineno, f"`{ast.unparse(n)[:60]}` mutates the shared default")
                    if isinstance(n, (ast.Assign, ast.AnnAssign)):
                        tg = n.targets if isinstance(n, ast.Assign) else [n.target]
                        if any(isinstance(t, ast.Subscript) and is_p(t.value) for t in tg):
                            bad = bad or (n.lineno, f"`{ast.unparse(n)[:60]}` mutates the shared default")
                        v = n.value
                        # `x = p`, `x = p or []` keeps the object itself (the `or` only replaces an *empty* one - which is the shared default, so that form is fine)
                        if v is not None and is_p(v) and any(not isinstance(t, ast.Name) for t in tg):
                            bad = bad or (n.lineno, f"`{ast.unparse(n)[:60]}` keeps a reference to the shared default")
                    if isinstance(n, ast.Return) and n.value is not None and is_p(n.value):
                        bad = bad or (n.lineno, "the shared default is returned")
                r = OR(id=f"{prop}.S.{module.split('.')[-1]}.{fn.name}.{p}.default_not_shared", status=REFUTED if bad else PROVED, kind="S", role="frame", backend="ast", target=f"{module}.{fn.name}",
                       desc=f"parameter `{p}` of {fn.name} (line {fn.lineno}) has a mutable default: the function neither keeps a reference to it nor mutates it")
                if bad:
                    r.witness = {"line": bad[0], "what": bad[1]}
                    r.detail = f"line {bad[0]}: {bad[1]}: every object built without this argument shares one container"
                    if replay:
                        r.replay = replay()
                out.append(r)
    if not out:
        out.append(OR(id=f"{prop}.S.default_not_shared", status=PROVED, kind="S", role="frame", backend="ast", target=", ".join(modules), desc="no parameter with a mutable default"))
    return out


def source_copies(prop="C09", replay=None):
    """every page of an entity links to the raw source it was read from: `{{ base_url }}/src/{{ entity.filename }}` (macros.html), entity.filename being the name of the source
    file object.  Documentation.writeout must therefore copy *every* file that gets such pages (project.allfiles: Fortran files and files of the extra file types) under exactly
    that name:  `for src in self.project.allfiles: shutil.copy(src.path, out_dir / "src" / src.name)`."""
    oid = f"{prop}.S.output.Documentation.writeout.every_source_is_copied_under_the_name_its_pages_link_to"
    fn = loader.find_def("ford.output", "Documentation.writeout")
    loops = [n for n in ast.walk(fn) if isinstance(n, ast.For) and any(isinstance(c, ast.Call) and ast.unparse(c.func) == "shutil.copy" and "'src'" in astform.text(fn, c) for c in ast.walk(n))]
    if len(loops) != 1 or not isinstance(loops[0].target, ast.Name):
        return [OR(id=oid, status=UNKNOWN, kind="S", target="ford.output.Documentation.writeout", detail=f"source copy loop: {len(loops)} matches")]
    l, v = loops[0], loops[0].target.id
    call = [c for c in ast.walk(l) if isinstance(c, ast.Call) and ast.unparse(c.func) == "shutil.copy"][0]
    dest = astform.text(fn, call.args[1]) if len(call.args) > 1 else ""
    prop_fn = loader.find_def("ford.sourceform", "FortranBase.filename")
    link_name = [ast.unparse(r.value) for r in ast.walk(prop_fn) if isinstance(r, ast.Return)]
    tdir = os.path.join(os.path.dirname(loader.module_path("ford.output")), "templates")
    macros = open(os.path.join(tdir, "macros.html"), encoding="utf-8").read()
    link_ok = "/src/{{ entity.filename }}" in macros and link_name == ["self.source_file.name"]
    ok = astform.text(fn, l.iter) == "self.project.allfiles" and dest.endswith(f"/ 'src' / {v}.name") and astform.text(fn, call.args[0]) == f"{v}.path" and link_ok
    r = OR(id=oid, status=PROVED, kind="S", role="post", backend="ast", target="ford.output.Documentation.writeout",
           desc=f"`for {v} in {ast.unparse(l.iter)}: shutil.copy({ast.unparse(call.args[0])}, {dest})` copies every file with pages under the name `entity.filename` the Source File links use")
    if not ok:
        r.witness = {"iterates": ast.unparse(l.iter), "destination": dest, "link": "/src/{{ entity.filename }}" if link_ok else "changed"}
        r.detail = "the Source File link of some page may name a file that is not written under that name"
    return [astform.decide(r, ok, replay)]


def include_before_every_statement(prop="C02", replay=None):
    """an INCLUDE line is a statement like any other as far as layout goes: first on its line or after a `;`.  FortranReader.include() expands `pending[0]` if it is an INCLUDE
    line, so it has to be called before *every* `return self.pending.pop(0)` of __next__ - the branch that returns a statement queued earlier included."""
    oid = f"{prop}.S.FortranReader.__next__.include_is_expanded_before_every_statement_that_is_handed_out"
    fn = loader.find_def("ford.reader", "FortranReader.__next__")
    pops = []
    for parent in ast.walk(fn):
        for field in ("body", "orelse", "finalbody"):
            block = getattr(parent, field, None)
            if not isinstance(block, list):
                continue
            for i, st in enumerate(block):
                if isinstance(st, ast.Return) and st.value is not None and ast.unparse(st.value) == "self.pending.pop(0)":
                    before = [ast.unparse(b) for b in block[:i]]
                    pops.append((st.lineno, "self.include()" in before))
    if not pops:
        return [OR(id=oid, status=UNKNOWN, kind="S", target="ford.reader.FortranReader.__next__", detail="no `return self.pending.pop(0)` found")]
    ok = all(p[1] for p in pops)
    r = OR(id=oid, status=PROVED if ok else REFUTED, kind="S", role="pre", backend="ast", target="ford.reader.FortranReader.__next__",
           desc=f"each of the {len(pops)} `return self.pending.pop(0)` of __next__ has `self.include()` before it in its block")
    if not ok:
        r.witness = {"returns": pops}
        r.detail = "an INCLUDE line that is not the first statement of its source line reaches the parser as text: what the include file declares is lost"
        if replay:
            r.replay = replay()
    return [r]


def doc_lines_before_masking(prop="C02", replay=None):
    """FortranContainer.__init__ statement loop: a documentation line that reaches the loop (after `use`, `implicit none`, an executable statement ...) is taken as it is - the
    `if line.startswith("!" + docmark)` test stands before the loop that replaces character literals by placeholders (quotes in a comment are not literals)."""
    oid = f"{prop}.S.FortranContainer.__init__.doc_lines_are_taken_before_the_literals_are_cut_out"
    fn = loader.find_def("ford.sourceform", "FortranContainer.__init__")
    loops = [n for n in fn.body if isinstance(n, ast.For) and ast.unparse(n.iter) == "source"]
    if len(loops) != 1:
        return [OR(id=oid, status=UNKNOWN, kind="S", target="ford.sourceform.FortranContainer.__init__", detail="statement loop not found")]
    body = loops[0].body
    mask = next((i for i, st in enumerate(body) if isinstance(st, ast.While) and "QUOTES_RE.search(line" in ast.unparse(st.test) and "self.strings.append" in ast.unparse(st)), None)
    doc = next((i for i, st in enumerate(body) if isinstance(st, ast.If) and "line.startswith('!' + self.settings.docmark)" in ast.unparse(st.test) and any(isinstance(b, ast.Continue) for b in st.body)), None)
    if mask is None or doc is None:
        return [OR(id=oid, status=UNKNOWN, kind="S", target="ford.sourceform.FortranContainer.__init__", detail=f"masking loop at {mask}, doc-line test at {doc}")]
    ok = doc < mask
    r = OR(id=oid, status=PROVED if ok else REFUTED, kind="S", role="pre", backend="ast", target="ford.sourceform.FortranContainer.__init__",
           desc="the doc-line test (with its `continue`) stands before the literal-masking loop of the statement loop")
    if not ok:
        r.detail = "quoted words of a documentation line are replaced by placeholders and never put back"
        if replay:
            r.replay = replay()
    return [r]


def file_dependencies_by_identity(prop="C13", replay=None):
    """FileNode.__init__ skips a dependency that lies in the same *file object*: source files are compared by identity (`dep.source_file == obj` / `is`), never by name - `name` is
    the base name, which two files in different directories can share."""
    oid = f"{prop}.S.graphs.FileNode.__init__.same_file_means_the_same_file_object"
    fn = loader.find_def("ford.graphs", "FileNode.__init__")
    cmps = [c for c in ast.walk(fn) if isinstance(c, ast.Compare)]
    named = [ast.unparse(c) for c in cmps if any(isinstance(a, ast.Attribute) and a.attr in ("name", "filename", "ident") for x in [c.left] + c.comparators for a in ast.walk(x))]
    ident = [ast.unparse(c) for c in cmps if ast.unparse(c).replace(" is ", " == ") in ("dep.source_file == obj", "obj == dep.source_file")]
    ok = bool(ident) and not named
    r = OR(id=oid, status=PROVED, kind="S", role="pre", backend="ast", target="ford.graphs.FileNode.__init__",
           desc=f"the same-file test is `{ident[0] if ident else '?'}`; comparisons of names in the function: {named}")
    if not ok:
        r.detail = "files may be told apart by their base name: a dependency between two equally named files of different directories would be dropped"
    return [astform.decide(r, ok, replay)]


def blank_lines_stay_blank(prop="C14", replay=None):
    """fixed2free2.FortranLine.__convert: only a comment line (column-1 `C`, `c`, `*`, `!` ...) is turned into a `!` line; a blank line stays blank - for the reader a blank line ends a
    block of alternate-marker documentation, a `!` line continues it.  Recognised form: the branch that writes `"!" + line[1:]` is guarded by `self.isComment` alone."""
    oid = f"{prop}.S.fixed2free2.FortranLine.__convert.only_comment_lines_become_comment_lines"
    try:
        fn = loader.find_def("ford.fixed2free2", "FortranLine._FortranLine__convert")
    except loader.TargetMissing:
        try:
            fn = loader.find_def("ford.fixed2free2", "FortranLine.__convert")
        except loader.TargetMissing as e:
            return [OR(id=oid, status=UNKNOWN, kind="S", target="ford.fixed2free2.FortranLine.__convert", detail=str(e))]
    sites = [n for n in ast.walk(fn) if isinstance(n, ast.If) and any(isinstance(b, ast.Assign) and ast.unparse(b.value).replace('"', "'") == "'!' + line[1:]" for b in n.body)]
    if len(sites) != 1:
        return [OR(id=oid, status=UNKNOWN, kind="S", target="ford.fixed2free2.FortranLine.__convert", detail=f"{len(sites)} branches write '!' + line[1:]")]
    ok = astform.text(fn, sites[0].test) == "self.isComment"
    r = OR(id=oid, status=PROVED, kind="S", role="pre", backend="ast", target="ford.fixed2free2.FortranLine.__convert",
           desc=f"`if {ast.unparse(sites[0].test)}: self.line_conv = '!' + line[1:]`: the only lines that become `!` lines are comment lines")
    if not ok:
        r.detail = "other lines (blank ones) may be rendered as comment lines: an alternate documentation block would run on across them"
    return [astform.decide(r, ok, replay)]


def favicon_copy(prop="C09", replay=None):
    """every page links the icon as `{{ project_url }}/favicon.png` (base.html); Documentation.writeout copies the configured icon - whatever its file name - to exactly
    `out_dir / "favicon.png"`."""
    oid = f"{prop}.S.output.Documentation.writeout.icon_is_copied_to_the_name_the_pages_link"
    fn = loader.find_def("ford.output", "Documentation.writeout")
    calls = [c for c in ast.walk(fn) if isinstance(c, ast.Call) and ast.unparse(c.func).startswith("shutil.copy") and "favicon" in ast.unparse(c)]
    tdir = os.path.join(os.path.dirname(loader.module_path("ford.output")), "templates")
    link_ok = "{{ project_url }}/favicon.png" in open(os.path.join(tdir, "base.html"), encoding="utf-8").read()
    ok = len(calls) == 1 and len(calls[0].args) == 2 and astform.text(fn, calls[0].args[1]).replace('"', "'") == "out_dir / 'favicon.png'" and link_ok
    r = OR(id=oid, status=PROVED, kind="S", role="post", backend="ast", target="ford.output.Documentation.writeout",
           desc=f"`{ast.unparse(calls[0])[:80] if calls else '?'}` and base.html links `{{{{ project_url }}}}/favicon.png`: {link_ok}")
    if not ok:
        r.detail = "with a custom icon the link of every page may point to a file that is not written"
    return [astform.decide(r, ok, replay)]

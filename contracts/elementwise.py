"""Per-element loops decide on the element (C04, C01).

FORD splits an attribute list / operand list into its items and then classifies each item in a loop:

    items = <...split...>(text)
    for item in items:
        if RE.search(item): ... elif item.lower() in (...): ...

Inside such a loop a test on the *whole* text instead of the item makes every item take the branch of whichever item matches (an access attribute next to
EXTENDS is lost, ...).  Obligation, generated for every loop of this shape found in the current source of the module: the loop body does not read the text the
list was split from (nor the list itself)."""
from __future__ import annotations
import ast
from harness.core import OR, PROVED, REFUTED, UNKNOWN
from harness import loader


def _split_source(val):
    """`X.split(S)` / `paren_split(sep, S)` / `re.split(p, S)` -> name of S when it is a plain local name"""
    for c in ast.walk(val):
        if isinstance(c, ast.Call) and isinstance(c.func, ast.Attribute) and c.func.attr in ("split", "paren_split"):
            for a in list(c.args)[-1:]:
                for n in ast.walk(a):
                    if isinstance(n, ast.Name):
                        return n.id
    return None


def obligations(prop, module="ford.sourceform", functions=None, replay=None):
    _, tree = loader.module_source(module)
    out = []
    for fn in [x for x in ast.walk(tree) if isinstance(x, ast.FunctionDef)]:
        if functions and fn.name not in functions:
            continue
        lists = {}
        for n in ast.walk(fn):
            if isinstance(n, ast.Assign) and len(n.targets) == 1 and isinstance(n.targets[0], ast.Name):
                src = _split_source(n.value)
                if src and src != n.targets[0].id:
                    lists[n.targets[0].id] = src
        k = 0
        for loop in [n for n in ast.walk(fn) if isinstance(n, ast.For)]:
            it = loop.iter
            lname = it.id if isinstance(it, ast.Name) else None
            if lname not in lists or not isinstance(loop.target, ast.Name):
                continue
            whole = lists[lname]
            reads = sorted({n.id for st in loop.body for n in ast.walk(st) if isinstance(n, ast.Name) and isinstance(n.ctx, ast.Load) and n.id in (whole, lname)})
            # (the list may be re-read for its length or position; only tests / searches on it count)
            bad = [r for r in reads if r == whole]
            r = OR(id=f"{prop}.S.elementwise.{fn.name}.loop{k}", status=REFUTED if bad else PROVED, kind="S", role="invariant", backend="ast", target=f"{module}.{fn.name}",
                   desc=f"`for {loop.target.id} in {lname}` (line {loop.lineno}; {lname} = split of `{whole}`): the body classifies the item, it does not read `{whole}`")
            if bad:
                r.witness = {"loop_line": loop.lineno, "reads_of_the_whole_text": [ast.unparse(n)[:80] for st in loop.body for n in ast.walk(st)
                                                                                     if isinstance(n, (ast.Call, ast.Compare)) and any(isinstance(x, ast.Name) and x.id == whole for x in ast.walk(n))][:3]}
                r.detail = f"a test inside the loop reads the whole text `{whole}`: every item takes the branch of the item that matches"
                if replay:
                    r.replay = replay()
            out.append(r)
            k += 1
    if not out:
        out.append(OR(id=f"{prop}.S.elementwise.anchor", status=UNKNOWN, kind="S", target=module, detail="no split-then-classify loop found (code restructured?)"))
    return out

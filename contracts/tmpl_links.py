"""Hard-coded entity links in the templates are guarded by the visibility of what they link to (C05).

Most links are produced by FortranBase.__str__ (under contract: a link only for a visible entity).  A few template sites build the link themselves,
`<a href="../{{ E.get_url() }}">`, and bypass it.  For every such site found in the current templates (jinja2 AST):

    E is the page's own entity (`self`), or an element of a project-level list (those hold displayed entities only: Project.correlate builds them after prune)
    or the site lies under `{% if ... %}` tests whose conjuncts include  E.visible            (E has a page of its own)
                                                                     or  E.parent.visible     (E is described on its parent's page: `#anchor` links)

Otherwise the page links to a page that is not written for an entity the display options exclude."""
from __future__ import annotations
import os, re
from harness import loader
from harness.core import OR, PROVED, REFUTED, UNKNOWN


def _txt(n):
    import jinja2.nodes as N
    if isinstance(n, N.Name):
        return n.name
    if isinstance(n, N.Getattr):
        return f"{_txt(n.node)}.{n.attr}"
    if isinstance(n, N.Getitem):
        return f"{_txt(n.node)}[{_txt(n.arg)}]"
    if isinstance(n, N.Const):
        return repr(n.value)
    if isinstance(n, N.Call):
        return f"{_txt(n.node)}()"
    return type(n).__name__


def _conjuncts(t):
    import jinja2.nodes as N
    if isinstance(t, N.And):
        return _conjuncts(t.left) + _conjuncts(t.right)
    return [t]


def sites():
    """[(template, line, E as text, [guard conjuncts as text])]"""
    import jinja2, jinja2.nodes as N
    env = jinja2.Environment()
    tdir = os.path.join(os.path.dirname(loader.module_path("ford.output")), "templates")
    out = []
    for name in sorted(os.listdir(tdir)):
        if not name.endswith(".html"):
            continue
        tree = env.parse(open(os.path.join(tdir, name), encoding="utf-8").read())

        def visit(node, cond):
            if isinstance(node, N.If):
                pos = _conjuncts(node.test)
                for b in node.body:
                    visit(b, cond + [_txt(c) for c in pos])
                for e in node.elif_:
                    for b in e.body:
                        visit(b, cond + [_txt(c) for c in _conjuncts(e.test)])
                for b in node.else_:
                    visit(b, cond)
                return
            if isinstance(node, N.Output):
                for i, ch in enumerate(node.nodes):
                    if i and isinstance(node.nodes[i - 1], N.TemplateData) and re.search(r'href="(?:\.\./)?$', node.nodes[i - 1].data):
                        calls = [c for c in [ch] + list(ch.find_all(N.Call)) if isinstance(c, N.Call) and isinstance(c.node, N.Getattr) and c.node.attr == "get_url"]
                        if calls:
                            out.append((name, ch.lineno, _txt(calls[0].node.node), list(cond)))
            for c in node.iter_child_nodes():
                visit(c, cond)
        visit(tree, [])
    return out


def obligations(prop="C05", replay=None):
    try:
        found = sites()
    except Exception as e:
        return [OR(id=f"{prop}.S.templates.entity_links", status=UNKNOWN, kind="S", target="ford/templates", detail=f"{type(e).__name__}: {e}")]
    out = []
    for name, line, ent, cond in found:
        if ent == "self" or re.match(r"^project\.\w+\[0\]$", ent):
            why, ok = "the page's own entity / first element of a project list of displayed entities", True
        else:
            ok = f"{ent}.visible" in cond or f"{ent}.parent.visible" in cond
            why = f"guards: {cond}"
        r = OR(id=f"{prop}.S.templates.{name}.L{line}.link_to_{ent.replace('.', '_')}_is_guarded_by_visibility", status=PROVED if ok else REFUTED, kind="S", role="pre", backend="jinja2-ast",
               target=f"ford/templates/{name}", desc=f'`href="../{{{{ {ent}.get_url() }}}}"` (line {line}) is emitted only when the linked entity is displayed ({why})')
        if not ok:
            r.witness = {"template": name, "line": line, "entity": ent, "guards": cond}
            r.detail = f"no `{ent}.visible` / `{ent}.parent.visible` among the enclosing conditions"
            if replay:
                r.replay = replay(name, line)
        out.append(r)
    if len([1 for _, _, e, _ in found if e != "self"]) < 2:
        out.append(OR(id=f"{prop}.S.templates.entity_links.anchor", status=UNKNOWN, kind="S", target="ford/templates", detail=f"expected the hard-coded entity links of macros.html, found {found}"))
    return out


def summary_obligations(prop="C05", replay=None):
    """macro `docstring` of macros.html prints the documentation of procedures shown on another entity's page (specifics of a generic interface, targets of bindings).  The
    summary form ends in a "Read more" link to the procedure's own page (FortranBase.markdown), so it may be printed only for an entity that has one: the site
    `{{ entity | meta("summary") }}` lies in the else-branch of a test with the disjunct `not entity.visible` (or under a test with the conjunct `entity.visible`)."""
    import jinja2, jinja2.nodes as N
    oid = f"{prop}.S.templates.macros.docstring.summary_only_for_an_entity_with_a_page"
    tdir = os.path.join(os.path.dirname(loader.module_path("ford.output")), "templates")
    try:
        tree = jinja2.Environment().parse(open(os.path.join(tdir, "macros.html"), encoding="utf-8").read())
    except Exception as e:
        return [OR(id=oid, status=UNKNOWN, kind="S", target="ford/templates/macros.html", detail=f"{type(e).__name__}: {e}")]
    macro = [m for m in tree.find_all(N.Macro) if m.name == "docstring"]
    if len(macro) != 1:
        return [OR(id=oid, status=UNKNOWN, kind="S", target="ford/templates/macros.html", detail="macro `docstring` not found")]
    ent = macro[0].args[0].name if macro[0].args else "entity"

    def disjuncts(t):
        return disjuncts(t.left) + disjuncts(t.right) if isinstance(t, N.Or) else [t]
    is_vis = lambda t: isinstance(t, N.Getattr) and t.attr == "visible" and _txt(t.node) == ent
    is_not_vis = lambda t: isinstance(t, N.Not) and is_vis(t.node)
    found = []

    def visit(node, guarded):
        if isinstance(node, N.If):
            pos = any(is_vis(c) for c in _conjuncts(node.test))
            neg = any(is_not_vis(d) for d in disjuncts(node.test))
            for b in node.body:
                visit(b, guarded or pos)
            g = guarded or neg
            for e in node.elif_:
                for b in e.body:
                    visit(b, g or any(is_vis(c) for c in _conjuncts(e.test)))
                g = g or any(is_not_vis(d) for d in disjuncts(e.test))
            for b in node.else_:
                visit(b, g)
            return
        if isinstance(node, N.Filter) and node.name == "meta" and node.args and isinstance(node.args[0], N.Const) and node.args[0].value == "summary":
            found.append((node.lineno, guarded))
        for c in node.iter_child_nodes():
            visit(c, guarded)
    for b in macro[0].body:
        visit(b, False)
    ok = bool(found) and all(g for _, g in found)
    r = OR(id=oid, status=PROVED if ok else (UNKNOWN if not found else REFUTED), kind="S", role="pre", backend="jinja2-ast", target="ford/templates/macros.html",
           desc=f"macro docstring: `{{{{ {ent} | meta('summary') }}}}` (with its Read-more link) is printed only when `{ent}.visible`; a procedure without a page is shown with its full documentation")
    if not found:
        r.detail = "no summary output in macro docstring (restructured?)"
    elif not ok:
        r.witness = {"sites": found}
        r.detail = "the summary of a procedure that has no page is printed: its Read-more link leads to a page that is not written and the rest of its documentation is lost"
        if replay:
            r.replay = replay()
    return [r]

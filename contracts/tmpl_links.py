"""Hard-coded entity links in the templates are guarded by the visibility of what they link to (C05).

Most links are produced by FortranBase.__str__ (under contract: a link only for a visible entity).  A few template sites build the link themselves,
`<a href="../{{ E.get_url() }}">`, and bypass it.  For every such site found in the current templates (jinja2 AST):

    E is the page's own entity (`self`), or an element of a project-level list (those hold displayed entities only: Project.correlate builds them after prune)
    or the site lies under `{% if ... %}` tests whose conjuncts include  E.visible            (E has a page of its own)
                                                                     or  E.parent.visible     (E is described on its parent's page: `#anchor` links)

Otherwise the page links to a page that is not written for an entity the display options exclude."""
from __future__ import annotations
import os, re
from harness import loader
from harness.core import OR, PROVED, REFUTED, UNKNOWN


def _txt(n):
    import jinja2.nodes as N
    if isinstance(n, N.Name):
        return n.name
    if isinstance(n, N.Getattr):
        return f"{_txt(n.node)}.{n.attr}"
    if isinstance(n, N.Getitem):
        return f"{_txt(n.node)}[{_txt(n.arg)}]"
    if isinstance(n, N.Const):
        return repr(n.value)
    if isinstance(n, N.Call):
        return f"{_txt(n.node)}()"
    return type(n).__name__


def _conjuncts(t):
    import jinja2.nodes as N
    if isinstance(t, N.And):
        return _conjuncts(t.left) + _conjuncts(t.right)
    return [t]


def _roots(n):
    """the names an expression is built from"""
    import jinja2.nodes as N
    return {x.name for x in ([n] if isinstance(n, N.Name) else []) + list(n.find_all(N.Name))}


def sites():
    """[(template, line, E as text, [guard conjuncts as text], origin of E)]: origin is None, or ("for", iterable node, macro name or None, macro parameter names)"""
    import jinja2, jinja2.nodes as N
    env = jinja2.Environment()
    tdir = os.path.join(os.path.dirname(loader.module_path("ford.output")), "templates")
    out, trees = [], {}
    for name in sorted(os.listdir(tdir)):
        if name.endswith(".html"):
            trees[name] = env.parse(open(os.path.join(tdir, name), encoding="utf-8").read())
    for name, tree in trees.items():
        # `{% set x = <expr> %}`: every expression a name is set to, per template (a link built in a `set` and printed as `href="{{ x }}"` is the same link)
        sets = {}
        for a in tree.find_all(N.Assign):
            if isinstance(a.target, N.Name):
                sets.setdefault(a.target.name, []).append(a.node)

        def resolve(ch, depth=0):
            if isinstance(ch, N.Name) and ch.name in sets and depth < 3:
                return [y for x in sets[ch.name] for y in resolve(x, depth + 1)]
            return [ch]

        def visit(node, cond, loops, macro):
            if isinstance(node, N.Macro):
                for b in node.body:
                    visit(b, cond, loops, (node.name, [a.name for a in node.args]))
                return
            if isinstance(node, N.For):
                l2 = dict(loops)
                if isinstance(node.target, N.Name):
                    l2[node.target.name] = node.iter
                for b in node.body:
                    visit(b, cond, l2, macro)
                for b in node.else_:
                    visit(b, cond, loops, macro)
                return
            if isinstance(node, N.If):
                pos = _conjuncts(node.test)
                for b in node.body:
                    visit(b, cond + [_txt(c) for c in pos], loops, macro)
                for e in node.elif_:
                    for b in e.body:
                        visit(b, cond + [_txt(c) for c in _conjuncts(e.test)], loops, macro)
                for b in node.else_:
                    visit(b, cond, loops, macro)
                return
            if isinstance(node, N.Output):
                for i, ch in enumerate(node.nodes):
                    if i and isinstance(node.nodes[i - 1], N.TemplateData) and re.search(r'href="(?:\.\./)?$', node.nodes[i - 1].data):
                        seen = set()
                        for ex in resolve(ch):
                            for c in [ex] + list(ex.find_all(N.Call)):
                                if isinstance(c, N.Call) and isinstance(c.node, N.Getattr) and c.node.attr == "get_url":
                                    ent = _txt(c.node.node)
                                    if ent in seen:
                                        continue
                                    seen.add(ent)
                                    origin = ("for", loops[ent], macro[0] if macro else None, macro[1] if macro else []) if ent in loops else None
                                    out.append((name, ch.lineno, ent, list(cond), origin))
                                    break
                            if seen:
                                break
            for c in node.iter_child_nodes():
                visit(c, cond, loops, macro)
        visit(tree, [], {}, None)
    sites.trees = trees
    return out


def _own_list(origin, trees):
    """E runs over lists of the page's own entity (`self.<list>`, pruned to the displayed entities: C05.A.prune) - directly, or through a macro parameter to which every
    call in the templates passes an expression built from `self` alone"""
    import jinja2.nodes as N
    if not origin:
        return False, ""
    _, it, macro, params = origin
    roots = _roots(it)
    if roots == {"self"}:
        return True, f"`{_txt(it)}`: a list of the page's own entity"
    if macro and isinstance(it, N.Name) and it.name in params:
        k = params.index(it.name)
        args = []
        for t in trees.values():
            for c in t.find_all(N.Call):
                callee = c.node.name if isinstance(c.node, N.Name) else c.node.attr if isinstance(c.node, N.Getattr) else None
                if callee == macro:
                    a = next((kw.value for kw in c.kwargs if kw.key == it.name), c.args[k] if k < len(c.args) else None)
                    if a is None:
                        return False, f"a call of {macro} does not pass `{it.name}`"
                    args.append(a)
        if args and all(_roots(a) == {"self"} for a in args):
            return True, f"macro parameter `{it.name}` of {macro}: each of the {len(args)} calls passes a list of the page's own entity"
        return False, f"macro parameter `{it.name}` of {macro}: calls pass {[_txt(a) for a in args if _roots(a) != {'self'}][:3]}"
    return False, f"loop over `{_txt(it)}`"


def obligations(prop="C05", replay=None):
    try:
        found = sites()
    except Exception as e:
        return [OR(id=f"{prop}.S.templates.entity_links", status=UNKNOWN, kind="S", target="ford/templates", detail=f"{type(e).__name__}: {e}")]
    from contracts import astform
    out, memo = [], {}
    for name, line, ent, cond, origin in found:
        if ent == "self" or re.match(r"^project\.\w+\[0\]$", ent):
            why, ok = "the page's own entity / first element of a project list of displayed entities", True
        else:
            ok = f"{ent}.visible" in cond or f"{ent}.parent.visible" in cond
            why = f"guards: {cond}"
            if not ok:
                ok, w2 = _own_list(origin, sites.trees)
                why = w2 or why
        r = OR(id=f"{prop}.S.templates.{name}.L{line}.link_to_{ent.replace('.', '_')}_is_guarded_by_visibility", status=PROVED, kind="S", role="pre", backend="jinja2-ast",
               target=f"ford/templates/{name}", desc=f'`href="../{{{{ {ent}.get_url() }}}}"` (line {line}) is emitted only when the linked entity is displayed ({why})')
        if not ok:
            r.witness = {"template": name, "line": line, "entity": ent, "guards": cond}
            r.detail = f"no `{ent}.visible` / `{ent}.parent.visible` among the enclosing conditions, and `{ent}` does not run over a list of the page's own entity"

        def _rp(name=name, line=line):
            if "hit" not in memo:
                memo["hit"] = replay(name, line) if replay else None
            return memo["hit"]
        out.append(astform.decide(r, ok, _rp))
    if len([1 for _, _, e, _, _ in found if e != "self"]) < 2:
        out.append(OR(id=f"{prop}.S.templates.entity_links.anchor", status=UNKNOWN, kind="S", target="ford/templates", detail=f"expected the hard-coded entity links of macros.html, found {found}"))
    return out


def summary_obligations(prop="C05", replay=None):
    """macro `docstring` of macros.html prints the documentation of procedures shown on another entity's page (specifics of a generic interface, targets of bindings).  The
    summary form ends in a "Read more" link to the procedure's own page (FortranBase.markdown), so it may be printed only for an entity that has one: the site
    `{{ entity | meta("summary") }}` lies in the else-branch of a test with the disjunct `not entity.visible` (or under a test with the conjunct `entity.visible`)."""
    import jinja2, jinja2.nodes as N
    oid = f"{prop}.S.templates.macros.docstring.summary_only_for_an_entity_with_a_page"
    tdir = os.path.join(os.path.dirname(loader.module_path("ford.output")), "templates")
    try:
        tree = jinja2.Environment().parse(open(os.path.join(tdir, "macros.html"), encoding="utf-8").read())
    except Exception as e:
        return [OR(id=oid, status=UNKNOWN, kind="S", target="ford/templates/macros.html", detail=f"{type(e).__name__}: {e}")]
    macro = [m for m in tree.find_all(N.Macro) if m.name == "docstring"]
    if len(macro) != 1:
        return [OR(id=oid, status=UNKNOWN, kind="S", target="ford/templates/macros.html", detail="macro `docstring` not found")]
    ent = macro[0].args[0].name if macro[0].args else "entity"

    def disjuncts(t):
        return disjuncts(t.left) + disjuncts(t.right) if isinstance(t, N.Or) else [t]
    is_vis = lambda t: isinstance(t, N.Getattr) and t.attr == "visible" and _txt(t.node) == ent
    is_not_vis = lambda t: isinstance(t, N.Not) and is_vis(t.node)
    found = []

    def visit(node, guarded):
        if isinstance(node, N.If):
            pos = any(is_vis(c) for c in _conjuncts(node.test))
            neg = any(is_not_vis(d) for d in disjuncts(node.test))
            for b in node.body:
                visit(b, guarded or pos)
            g = guarded or neg
            for e in node.elif_:
                for b in e.body:
                    visit(b, g or any(is_vis(c) for c in _conjuncts(e.test)))
                g = g or any(is_not_vis(d) for d in disjuncts(e.test))
            for b in node.else_:
                visit(b, g)
            return
        if isinstance(node, N.Filter) and node.name == "meta" and node.args and isinstance(node.args[0], N.Const) and node.args[0].value == "summary":
            found.append((node.lineno, guarded))
        for c in node.iter_child_nodes():
            visit(c, guarded)
    for b in macro[0].body:
        visit(b, False)
    ok = bool(found) and all(g for _, g in found)
    r = OR(id=oid, status=PROVED if ok else (UNKNOWN if not found else REFUTED), kind="S", role="pre", backend="jinja2-ast", target="ford/templates/macros.html",
           desc=f"macro docstring: `{{{{ {ent} | meta('summary') }}}}` (with its Read-more link) is printed only when `{ent}.visible`; a procedure without a page is shown with its full documentation")
    if not found:
        r.detail = "no summary output in macro docstring (restructured?)"
    elif not ok:
        r.witness = {"sites": found}
        r.detail = "the summary of a procedure that has no page is printed: its Read-more link leads to a page that is not written and the rest of its documentation is lost"
        if replay:
            r.replay = replay()
    return [r]

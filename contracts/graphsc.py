"""Engine A / structural contracts for the graph builders (C13)."""
from __future__ import annotations
import ast
import z3
from pyvc.contract import *
from pyvc.values import *
from harness.core import OR, PROVED, REFUTED, UNKNOWN
from harness import loader
from contracts.display import H, sel

I = z3.IntSort()
GFIELDS = {"added": "set", "max_nodes": "int", "hop_nodes": "opaque:nodes", "hop_edges": "opaque:edges", "truncated": "int", "dot": "opaque:dot", "attribs": "opaque:attribs",
           "ident": "str", "root": "list:ref", "meta": "ref", "graph": "bool", "data": "ref", "graph_objs": "list:ref"}


def add_to_graph(prop="C13"):
    c = Contract("ford.graphs", "FortranGraph.add_to_graph", prop)
    c.fields = dict(GFIELDS)
    c.param("self", TRef("FortranGraph"))

    class TSet(T):
        def fresh(self, eng, path, name):
            i = fresh(name, z3.IntSort())
            path.assume(z3.And(i > 0, i < path.heap.alloc0))
            return SSet(i)
    c.param("nodes", TSet())
    c.param("edges", TList("ref"))
    c.param("nesting", TInt())
    # graphviz calls are effects outside the model
    c.methods["node"] = lambda eng, path, e, args, recv: SNone()
    c.methods["edge"] = lambda eng, path, e, args, recv: SNone()
    c.methods["items"] = lambda eng, path, e, args, recv: SOpaque("items")
    c.assumed.append("self.dot.node(...) / self.dot.edge(...) (graphviz) have no effect on the graph object's own fields")
    added = lambda v: v.heap.set_get(SSet(sel(H(v, "added"), v.self)))
    nodes = lambda v: v.heap.set_get(v.val("nodes"))
    E = lambda v: V(v._e, v._e.entry)
    frame = lambda v: z3.And(added(v) == added(E(v)), nodes(v) == nodes(E(v)), H(v, "truncated") == H(E(v), "truncated"), H(v, "added") == H(E(v), "added"),
                             H(v, "max_nodes") == H(E(v), "max_nodes"))
    c.loop(0, invariants=[("frame", frame)], variant=lambda v: z3.Length(v.it.seq) - v.k)
    c.loop(1, invariants=[("frame", frame)], variant=lambda v: z3.Length(v.it.seq) - v.k)
    c.requires("distinct_sets", lambda v: sel(H(v, "added"), v.self) != v.val("nodes").id)
    over = lambda v0: CARD(nodes(v0)) + CARD(added(v0)) > sel(H(v0, "max_nodes"), v0.self)

    def post(v0, res, v1):
        return z3.And(res.t == z3.Not(over(v0)),
                      z3.Implies(over(v0), z3.And(added(v1) == added(v0), sel(H(v1, "truncated"), v1.self) == v0.nesting)),        # nothing is added beyond the node limit
                      z3.Implies(z3.Not(over(v0)), z3.And(added(v1) == map_or_(added(v0), nodes(v0)), sel(H(v1, "truncated"), v1.self) == sel(H(v0, "truncated"), v0.self))))
    from pyvc.engine import map_or as map_or_
    c.ensures("extends_the_graph_iff_the_node_limit_allows_it", post)
    c.no_raise = True
    return c


def register(prop="C13"):
    c = Contract("ford.graphs", "GraphManager.register", prop)
    c.fields = dict(GFIELDS)
    c.param("self", TRef("GraphManager"))
    c.param("obj", TRef("FortranContainer"))
    REG = z3.Function("GRAPHDATA_REGISTERED", I, I, z3.BoolSort())
    state = {"called": z3.BoolVal(False)}

    def call_register(eng, path, e, args, recv):
        path.env["_registered"] = SBool(z3.BoolVal(True))
        return SNone()
    c.methods["register"] = call_register
    c.extra_setup.append(lambda eng, path: path.env.__setitem__("_registered", SBool(z3.BoolVal(False))))
    objs = lambda v: v.heap.list_get(SList(sel(H(v, "graph_objs"), v.self), "ref"))
    wants = lambda v0: sel(H(v0, "graph"), sel(H(v0, "meta"), v0.obj))
    c.ensures("registered_iff_graph_metadata_is_on",
              lambda v0, res, v1: z3.And(v1._registered == wants(v0),
                                         objs(v1) == z3.If(wants(v0), z3.Concat(objs(v0), z3.Unit(v0.obj)), objs(v0))))
    c.no_raise = True
    return c


# ---------------------------------------------------------------- structural obligations on the add_node methods and node constructors
INVERSE_GRAPHS = [("UsesGraph", "UsedByGraph"), ("InheritsGraph", "InheritedByGraph"), ("CallsGraph", "CalledByGraph"), ("EfferentGraph", "AfferentGraph")]
INVERSE_ATTRS = {"uses": "used_by", "ancestor": "children", "calls": "called_by", "interfaces": "interfaced_by", "comp_types": "comp_of", "efferent": "afferent"}
INVERSE_ATTRS.update({v: k for k, v in list(INVERSE_ATTRS.items())})


def _edge_sites(fn):
    """(append call, edge src expr, edge dst expr, enclosing loop/if body) for hop_edges.append(_x_edge(a, b, ...))"""
    out = []
    for n in ast.walk(fn):
        if isinstance(n, ast.Call) and isinstance(n.func, ast.Attribute) and n.func.attr == "append" and ast.unparse(n.func.value) == "hop_edges" and n.args and \
                isinstance(n.args[0], ast.Call) and len(n.args[0].args) >= 2:
            out.append((n, n.args[0].args[0], n.args[0].args[1]))
    return out


def _guarded(fn, call, x):
    """`if X not in self.added: hop_nodes.add(X)` (or `if X not in hop_nodes: hop_nodes.add(X)`) stands, in the same block, before the statement that holds the append"""
    xs = ast.unparse(x)
    for blk in [n for n in ast.walk(fn) if hasattr(n, "body") and isinstance(getattr(n, "body"), list)]:
        for body in (blk.body, getattr(blk, "orelse", [])):
            for i, st in enumerate(body):
                if any(c is call for c in ast.walk(st)):
                    for prev in body[:i]:
                        if isinstance(prev, ast.If) and ast.unparse(prev.test) in (f"{xs} not in self.added", f"{xs} not in hop_nodes") and len(prev.body) == 1 and \
                                ast.unparse(prev.body[0]) == f"hop_nodes.add({xs})" and not prev.orelse:
                            return True
    return False


def add_node_obligations(prop="C13"):
    _, tree = loader.module_source("ford.graphs")
    out = []
    classes = {n.name: n for n in tree.body if isinstance(n, ast.ClassDef)}
    iterated = {}
    for cname, cls in classes.items():
        for m in cls.body:
            if isinstance(m, ast.FunctionDef) and m.name == "add_node":
                sites = _edge_sites(m)
                attrs = []
                for k, (call, a, b) in enumerate(sites):
                    other = b if ast.unparse(a) == "node" else (a if ast.unparse(b) == "node" else None)
                    ok = other is not None and _guarded(m, call, other)
                    out.append(OR(id=f"{prop}.S.{cname}.add_node.edge{k}.no_dangling_endpoint", status=PROVED if ok else REFUTED, kind="S", role="post", backend="ast",
                                  target=f"ford.graphs.{cname}.add_node",
                                  desc=f"edge `{ast.unparse(call.args[0])[:60]}` joins `node` and a node that is already drawn or has just been put into this hop's node set"))
                    direction = "out" if ast.unparse(a) == "node" else "in"
                    # which adjacency attribute does the enclosing loop run over?
                    src = None
                    for lp in ast.walk(m):
                        if isinstance(lp, ast.For) and call in [c for c in ast.walk(lp)]:
                            src = ast.unparse(lp.iter)
                    if src is None and other is not None:
                        src = ast.unparse(other)
                    attrs.append((direction, src))
                iterated[cname] = attrs
                if not sites and cname != "FortranGraph":
                    out.append(OR(id=f"{prop}.S.{cname}.add_node.anchor", status=UNKNOWN, kind="S", target=f"ford.graphs.{cname}.add_node", detail="no edge site"))
    # hop_nodes only grows inside add_node (so a guarded endpoint stays in the set until add_to_graph)
    shrink = [n for n in ast.walk(tree) if isinstance(n, ast.Call) and isinstance(n.func, ast.Attribute) and n.func.attr in ("remove", "discard", "pop", "clear")
              and ast.unparse(n.func.value) == "hop_nodes"]
    out.append(OR(id=f"{prop}.S.graphs.hop_nodes_only_grow", status=PROVED if not shrink else REFUTED, kind="S", role="frame", backend="ast", target="ford.graphs",
                  desc="nothing removes a node from a hop's node set"))

    def attrname(src):
        for a in INVERSE_ATTRS:
            if src and (f".{a}" in src or f"'{a}'" in src):
                return a
        return None
    for fwd, inv in INVERSE_GRAPHS:
        if fwd not in iterated or inv not in iterated:
            out.append(OR(id=f"{prop}.S.inverse.{fwd}.{inv}", status=UNKNOWN, kind="S", target=f"ford.graphs.{inv}", detail="add_node not found"))
            continue
        f = sorted({(d, attrname(s)) for d, s in iterated[fwd]})
        g = sorted({("in" if d == "out" else "out", INVERSE_ATTRS.get(attrname(s))) for d, s in iterated[inv]})
        ok = f == g and all(a is not None for _, a in f)
        if not f or not g or any(a is None for _, a in f + g):
            # the edges are not drawn where this obligation reads them (directly in add_node, in a loop over one adjacency attribute): undecided, not violated
            out.append(OR(id=f"{prop}.S.inverse.{fwd}.{inv}", status=UNKNOWN, kind="S", role="post", backend="ast", target=f"ford.graphs.{inv}.add_node",
                          detail=f"edge sites of the recognised form: {f} in {fwd}.add_node, {g} in {inv}.add_node"))
            continue
        out.append(OR(id=f"{prop}.S.inverse.{fwd}.{inv}", status=PROVED if ok else REFUTED, kind="S", role="post", backend="ast", target=f"ford.graphs.{inv}.add_node",
                      desc=f"{inv}.add_node walks exactly the inverse adjacency of {fwd}.add_node with the edge direction flipped ({f} vs {g})"))
    return out


def adjacency_obligations(prop="C13"):
    """node constructors register both directions of each relation in the same loop iteration"""
    _, tree = loader.module_source("ford.graphs")
    out = []
    for cls in [n for n in tree.body if isinstance(n, ast.ClassDef) and n.name.endswith("Node")]:
        init = [m for m in cls.body if isinstance(m, ast.FunctionDef) and m.name == "__init__"]
        if not init:
            continue
        k = 0
        for blk in [n for n in ast.walk(init[0]) if isinstance(n, (ast.For, ast.If, ast.FunctionDef))]:
            body = blk.body
            adds = []
            for st in body:
                if isinstance(st, ast.Expr) and isinstance(st.value, ast.Call) and isinstance(st.value.func, ast.Attribute) and st.value.func.attr == "add" and \
                        isinstance(st.value.func.value, ast.Attribute):
                    recv = ast.unparse(st.value.func.value.value)
                    attr = st.value.func.value.attr
                    arg = ast.unparse(st.value.args[0])
                    adds.append((recv, attr, arg))
            for recv, attr, arg in adds:
                if attr not in INVERSE_ATTRS:
                    continue
                inv = INVERSE_ATTRS[attr]
                ok = (arg, inv, recv) in adds or (recv == "self" and hasattr_assign(body, arg, inv)) or (arg == "self" and hasattr_assign(body, recv, inv))
                if not ok and recv == f"{arg}.{inv}":
                    # single-valued inverse: `arg.inv` is the receiver itself (self.ancestor.children.add(self) with self.ancestor assigned in this constructor)
                    ok = any(isinstance(n, ast.Assign) and len(n.targets) == 1 and ast.unparse(n.targets[0]) == recv for n in ast.walk(init[0]))
                out.append(OR(id=f"{prop}.S.{cls.name}.__init__.adj{k}.{attr}", status=PROVED if ok else REFUTED, kind="S", role="post", backend="ast",
                              target=f"ford.graphs.{cls.name}.__init__", desc=f"`{recv}.{attr}.add({arg})` is paired with `{arg}.{inv}.add({recv})` in the same block: "
                              f"b in a.{attr} <=> a in b.{inv}"))
                k += 1
    if not out:
        out.append(OR(id=f"{prop}.S.adjacency.anchor", status=UNKNOWN, kind="S", target="ford.graphs", detail="no adjacency registration found"))
    return out


def hasattr_assign(body, recv, attr):
    """`recv.attr = other` style registration (single-valued relations such as ancestor)"""
    for st in body:
        if isinstance(st, ast.Assign) and len(st.targets) == 1 and ast.unparse(st.targets[0]) == f"{recv}.{attr}":
            return True
    return False


def local_variables_obligations(prop="C13"):
    """TypeNode draws the composition edges of a type from `obj.local_variables` - the components the type declares itself.  FortranType.correlate binds that name to the
    component list *before* the inherited components are put in front; from then on `self.variables` may only be re-bound to a new list, never changed in place (slice /
    item assignment, insert / extend / append, +=): both names would see the inherited components, and every descendant would get its ancestors' composition edges."""
    import ast
    from harness import loader
    from harness.core import OR, PROVED, REFUTED, UNKNOWN
    oid = f"{prop}.S.FortranType.correlate.local_variables_keep_the_declared_components"
    try:
        fn = loader.find_def("ford.sourceform", "FortranType.correlate")
    except loader.TargetMissing as e:
        return [OR(id=oid, status=UNKNOWN, kind="S", target="ford.sourceform.FortranType.correlate", detail=str(e))]
    binds = [n for n in ast.walk(fn) if isinstance(n, ast.Assign) and any(ast.unparse(t) == "self.local_variables" for t in n.targets)]
    if len(binds) != 1 or ast.unparse(binds[0].value) != "self.variables":
        return [OR(id=oid, status=UNKNOWN, kind="S", target="ford.sourceform.FortranType.correlate", detail=f"expected one `self.local_variables = self.variables`, found {[ast.unparse(b) for b in binds]}")]
    line = binds[0].lineno
    bad = []
    for n in ast.walk(fn):
        if getattr(n, "lineno", 0) <= line:
            continue
        if isinstance(n, (ast.Assign, ast.AugAssign, ast.Delete)):
            tg = n.targets if isinstance(n, (ast.Assign, ast.Delete)) else [n.target]
            for t in tg:
                if isinstance(t, ast.Subscript) and ast.unparse(t.value) in ("self.variables", "self.local_variables"):
                    bad.append(ast.unparse(n))
                if isinstance(n, ast.AugAssign) and ast.unparse(t) in ("self.variables", "self.local_variables"):
                    bad.append(ast.unparse(n))
        if isinstance(n, ast.Call) and isinstance(n.func, ast.Attribute) and n.func.attr in ("insert", "extend", "append", "remove", "pop", "clear", "sort", "reverse") \
                and ast.unparse(n.func.value) in ("self.variables", "self.local_variables"):
            bad.append(ast.unparse(n))
    r = OR(id=oid, status=REFUTED if bad else PROVED, kind="S", role="frame", backend="ast", target="ford.sourceform.FortranType.correlate",
           desc="after `self.local_variables = self.variables` the shared list is not changed in place: the inherited components go into a new list")
    if bad:
        from bounded import c13
        r.witness = {"in_place_changes": bad}
        r.detail = "local_variables aliases the list that now also holds the inherited components"
        r.replay = c13.search()
    return [r]


def add_nested_nodes(prop="C13"):
    """FortranGraph._add_nested_nodes(hop_nodes, nesting): the next hop is drawn (add_nodes with nesting + 1) exactly when there is something to draw and the hop just drawn
    is still below `max_nesting` (= graph_maxdepth); otherwise the graph is marked truncated at this hop and nothing more is added.  The recursive call is recorded in a ghost list."""
    c = Contract("ford.graphs", "FortranGraph._add_nested_nodes", prop)
    c.fields = dict(GFIELDS)
    c.fields["max_nesting"] = "int"
    c.param("self", TRef("FortranGraph"))

    class TSet(T):
        def fresh(self, eng, path, name):
            i = fresh(name, z3.IntSort())
            path.assume(z3.And(i > 0, i < path.heap.alloc0))
            return SSet(i)
    c.param("hop_nodes", TSet())
    c.param("nesting", TInt())
    c.param("ghost_next", TList("int"))            # ghost: the `nesting` arguments of the add_nodes calls made
    gl = lambda v: v.heap.list_get(v.val("ghost_next"))
    c.requires("ghost_starts_empty", lambda v: z3.Length(gl(v)) == 0)

    def add_nodes(eng, path, e, args, recv):
        kw = {k.arg: eng.ev(path, k.value) for k in e.keywords}
        n = kw.get("nesting", args[1] if len(args) > 1 else None)
        if n is None:
            raise EngineError("add_nodes called without a nesting level")
        g = path.env["ghost_next"]
        path.heap.list_set(g, z3.Concat(path.heap.list_get(g), z3.Unit(n.t)))
        return SNone()
    c.methods["add_nodes"] = add_nodes
    c.assumed.append("self.add_nodes(...) (the recursion into the next hop) is recorded, not executed: its own effect on `added` is the subject of add_to_graph's contract")
    nodes = lambda v: v.heap.set_get(v.val("hop_nodes"))
    mx = lambda v: sel(H(v, "max_nesting"), v.self)

    def post(v0, res, v1):
        more = z3.And(CARD(nodes(v0)) > 0, v0.nesting < mx(v0))
        return z3.And(z3.Implies(more, z3.And(z3.Length(gl(v1)) == 1, gl(v1)[0] == v0.nesting + 1, sel(H(v1, "truncated"), v0.self) == sel(H(v0, "truncated"), v0.self))),
                      z3.Implies(z3.Not(more), z3.Length(gl(v1)) == 0),
                      z3.Implies(z3.And(CARD(nodes(v0)) > 0, v0.nesting >= mx(v0)), sel(H(v1, "truncated"), v0.self) == v0.nesting))
    c.ensures("next_hop_iff_nodes_left_and_below_the_depth_limit_else_truncated_here", post)
    c.no_raise = True
    return c


PROJECT_WIDE_GRAPHS = ("ModuleGraph", "TypeGraph", "CallGraph")


def project_graphs_respect_graph_false(prop="C13", replay=None):
    """`graph: false` in an entity's metadata removes its node from the project-wide graphs (BaseNode.in_project_graphs).  In the add_node method of each project-wide graph
    class (ModuleGraph, TypeGraph, CallGraph) every neighbour X that is put into the graph - `hop_nodes.add(X)` or an edge to / from X appended to hop_edges - stands behind a
    test of `X.in_project_graphs`: a leading `if not X.in_project_graphs: continue` of the loop over the neighbours, or an enclosing `if ... and X.in_project_graphs`."""
    import ast
    from harness import loader
    from harness.core import OR, PROVED, REFUTED, UNKNOWN
    _, tree = loader.module_source("ford.graphs")
    out = []
    for cname in PROJECT_WIDE_GRAPHS:
        cls = [c for c in tree.body if isinstance(c, ast.ClassDef) and c.name == cname]
        fn = [m for c in cls for m in c.body if isinstance(m, ast.FunctionDef) and m.name == "add_node"]
        oid = f"{prop}.S.graphs.{cname}.add_node.neighbours_with_graph_false_stay_out"
        if len(fn) != 1:
            out.append(OR(id=oid, status=UNKNOWN, kind="S", target=f"ford.graphs.{cname}.add_node", detail="method not found"))
            continue
        fn = fn[0]
        node_param = fn.args.args[3].arg if len(fn.args.args) > 3 else "node"
        sites, bad = 0, []

        def visit(stmts, guarded):
            nonlocal sites
            g = set(guarded)
            for st in stmts:
                if isinstance(st, ast.If) and isinstance(st.test, ast.UnaryOp) and isinstance(st.test.op, ast.Not) and ast.unparse(st.test.operand).endswith(".in_project_graphs") \
                        and st.body and isinstance(st.body[-1], (ast.Continue, ast.Return)) and not st.orelse:
                    g.add(ast.unparse(st.test.operand)[:-len(".in_project_graphs")])
                    continue
                if isinstance(st, ast.If):
                    conj = st.test.values if isinstance(st.test, ast.BoolOp) and isinstance(st.test.op, ast.And) else [st.test]
                    pos = {ast.unparse(c)[:-len(".in_project_graphs")] for c in conj if ast.unparse(c).endswith(".in_project_graphs")}
                    visit(st.body, g | pos)
                    visit(st.orelse, g)
                    continue
                if isinstance(st, ast.For):
                    visit(st.body, g)
                    continue
                for c in ast.walk(st):
                    if isinstance(c, ast.Call) and isinstance(c.func, ast.Attribute) and c.func.attr in ("add", "append") and isinstance(c.func.value, ast.Name) and c.func.value.id in ("hop_nodes", "hop_edges"):
                        args = c.args[0].args[:2] if c.func.attr == "append" and isinstance(c.args[0], ast.Call) else c.args[:1]
                        for a in args:
                            x = ast.unparse(a)
                            if x == node_param:
                                continue
                            sites += 1
                            if x not in g:
                                bad.append((c.lineno, ast.unparse(c)[:70], x))
        visit(fn.body, set())
        r = OR(id=oid, status=(REFUTED if bad else PROVED) if sites else UNKNOWN, kind="S", role="post", backend="ast", target=f"ford.graphs.{cname}.add_node",
               desc=f"{cname}.add_node: each of the {sites} places that put a neighbour into the project-wide graph is reached only if `<neighbour>.in_project_graphs`")
        if bad:
            r.witness = {"sites": bad}
            r.detail = f"line {bad[0][0]}: `{bad[0][1]}` adds `{bad[0][2]}` without looking at its `graph` setting: an entity with `graph: false` comes back through its neighbour"
            if replay:
                r.replay = replay()
        out.append(r)
    return out

"""C12 - output is a deterministic function of the inputs (narrow: ordering discipline).  DESIGN.md section 6, C12."""
from __future__ import annotations
import time
from harness.core import Task, OR, PROVED, REFUTED
from contracts import ordering
from contracts.common import *

PROP = "C12"


def _with_replay(fn):
    def run():
        res = fn(PROP)
        bad = [r for r in res if r.status == REFUTED and r.replay is None]
        if bad:
            from bounded import c12
            hit = c12.search() or c12.hashseed_pages((0, 1, 2))
            for r in bad:
                r.replay = hit
        return res
    return run


def bounded_task():
    def run():
        from bounded import c12
        t0 = time.time()
        hit = c12.search()
        r = OR(id=f"{PROP}.Bd.build.seeds_and_orders", status=REFUTED if hit else PROVED, kind="Bd", role="bounded", target="Project(...).correlate() + GraphManager.graph_all() (real)",
               desc="an 11-file project with four equally named procedures, a type with six extensions, a module with four submodules and a driver program, built under 5 values of "
                    "PYTHONHASHSEED and 4 file enumeration orders: identifiers (output file names), descendant listings and the DOT source of every graph must be identical",
               bound=f"{c12.count_cases()} builds in separate interpreters; rendered pages are compared in C12.Bd.site.pages_under_hash_seeds; no parallel > 0", cases=c12.count_cases(), seconds=time.time() - t0, backend="enumeration")
        if hit:
            r.replay, r.witness = hit, hit["input"]
        return [r]
    return Task(f"{PROP}.Bd.build", PROP, "real build", run)


def _templates():
    res = ordering.template_obligations(PROP) + ordering.run_time_values_obligation(PROP)
    if any(r.status == REFUTED for r in res):
        from bounded import c12
        hit = c12.hashseed_pages()
        for r in res:
            if r.status == REFUTED:
                r.replay = hit
    return res


def pages_task():
    def run():
        from bounded import c12
        t0 = time.time()
        hit = c12.hashseed_pages()
        r = OR(id=f"{PROP}.Bd.site.pages_under_hash_seeds", status=REFUTED if hit else PROVED, kind="Bd", role="bounded", target="ford.main (full runs)",
               desc="the 11-file project with USE statements of known and unknown modules, rendered under 5 values of PYTHONHASHSEED (graphs off, fixed creation date): every "
                    "written page and the search index are byte-identical", bound="5 full runs", cases=5, seconds=time.time() - t0, backend="enumeration")
        if hit:
            r.replay, r.witness = hit, hit["input"]
        return [r]
    return Task(f"{PROP}.Bd.pages", PROP, "full runs", run)


def rerun_task():
    def run():
        from bounded import c12
        t0 = time.time()
        hit = c12.rerun_cases()
        r = OR(id=f"{PROP}.Bd.site.second_run_into_the_same_output", status=REFUTED if hit else PROVED, kind="Bd", role="bounded", target="ford.main (full runs)",
               desc="a project whose source directory contains the output directory, run twice (a media directory holding a Fortran file with the user's own exclude_dir; "
                    "the output directory given with -o): the second run writes the same set of files", bound=f"{len(c12.RERUN)} projects x 2 runs", cases=len(c12.RERUN),
               seconds=time.time() - t0, backend="enumeration")
        if hit:
            r.replay, r.witness = hit, hit["input"]
        return [r]
    return Task(f"{PROP}.Bd.rerun", PROP, "full runs", run)


def workers_task():
    def run():
        import ast
        from bounded import c12
        t0 = time.time()
        hit = c12.command_line_workers()
        r = OR(id=f"{PROP}.Bd.cli.graphs_with_worker_processes", status=REFUTED if hit else PROVED, kind="Bd", role="bounded", target="python -m ford (real command line)",
               desc="`python -m ford proj.md` with graph: true and a graph_dir, serial and with two worker processes: both runs succeed and write the same graph files",
               bound="1 project x 2 runs", cases=2, seconds=time.time() - t0, backend="enumeration")
        if hit:
            r.replay, r.witness = hit, hit["input"]
        # what travels to the worker processes is the settings object (through every entity): only declared settings are put on it
        fn = loader.find_def("ford.settings", "convert_types_from_commandarguments")
        sets = [c for c in ast.walk(fn) if isinstance(c, ast.Call) and isinstance(c.func, ast.Name) and c.func.id == "setattr"]

        hints = {t.id for n in ast.walk(fn) if isinstance(n, ast.Assign) and "get_type_hints(" in ast.unparse(n.value) for t in n.targets if isinstance(t, ast.Name)}

        def guarded(call):
            # under an `if` whose test has the conjunct `<key> in <the table of declared settings>` (whatever the table's local name)
            for n in ast.walk(fn):
                if isinstance(n, ast.If) and any(x is call for b in n.body for x in ast.walk(b)):
                    for c in ast.walk(n.test):
                        if isinstance(c, ast.Compare) and len(c.ops) == 1 and isinstance(c.ops[0], ast.In) and isinstance(c.comparators[0], ast.Name) and c.comparators[0].id in hints:
                            return True
            # ... or after an early exit `if <..> or <key> not in <table>: continue` in the same block
            for blk in ast.walk(fn):
                for fld in ("body", "orelse"):
                    b = getattr(blk, fld, None)
                    if not isinstance(b, list):
                        continue
                    idx = next((i for i, st in enumerate(b) if any(x is call for x in ast.walk(st))), None)
                    if idx is None:
                        continue
                    for st in b[:idx]:
                        if isinstance(st, ast.If) and st.body and isinstance(st.body[-1], (ast.Continue, ast.Return, ast.Raise)) and not st.orelse:
                            disj = st.test.values if isinstance(st.test, ast.BoolOp) and isinstance(st.test.op, ast.Or) else [st.test]
                            if any(isinstance(c, ast.Compare) and len(c.ops) == 1 and isinstance(c.ops[0], ast.NotIn) and isinstance(c.comparators[0], ast.Name) and c.comparators[0].id in hints for c in disj):
                                return True
            return False
        ok = bool(sets) and all(guarded(c) for c in sets)
        r2 = OR(id=f"{PROP}.S.settings.convert_types_from_commandarguments.only_declared_settings_are_set", status=PROVED, kind="S", role="frame", backend="ast",
                target="ford.settings.convert_types_from_commandarguments",
                desc=f"each of the {len(sets)} `setattr(settings, key, ..)` of the function stands under `key in field_types`: nothing else of the argparse namespace (the open project file) lands on "
                     "the settings object that is pickled for the worker processes")
        if not ok:
            r2.detail = "entries of the command-line namespace that are not settings may be copied onto the settings object (it could then no longer be sent to a worker process)"
        from contracts import astform
        return [r, astform.decide(r2, ok, lambda: hit)]
    return Task(f"{PROP}.Bd.workers", PROP, "command line", run)


def build(tier, seed):
    set_tier(tier)
    tasks = [Task(f"{PROP}.S.ordering", PROP, "unordered iteration", _with_replay(ordering.obligations)), Task(f"{PROP}.A.lt", PROP, "__lt__", lambda: ordering.lt_contracts(PROP)),
             Task(f"{PROP}.S.structural", PROP, "toposort / writeout / allocation", _with_replay(ordering.structural)),
             Task(f"{PROP}.S.templates", PROP, "template loops over sets", _templates),
             Task(f"{PROP}.S.workers", PROP, "GraphManager.output_graphs", lambda: ordering.serial_parallel_agreement(PROP)),
             Task(f"{PROP}.S.graph_ident", PROP, "FortranGraph.__init__", lambda: __import__("contracts.names", fromlist=["x"]).graph_ident_obligation(PROP, lambda: __import__("bounded.c10", fromlist=["x"]).graph_files())),
             Task(f"{PROP}.S.stale_output", PROP, "output directory excluded from discovery", lambda: __import__("contracts.confine", fromlist=["x"]).output_dir_excluded(PROP, lambda: __import__("bounded.c12", fromlist=["x"]).rerun_cases())),
             bounded_task(), rerun_task(), workers_task(), pages_task()]
    meta = {
        "trusted_base": TRUSTED_BASE + ["the ordering analysis of contracts/ordering.py: which expressions are unordered collections, which loop bodies are order-insensitive"],
        "assumptions": PYVC_ASSUMPTIONS + [
            "semantics assumed: iterating a set, a glob or a directory listing yields an arbitrary permutation; sorted() with an injective key (idents, C10) yields one order",
            "accepted order-insensitive loop bodies: set additions, counters, constant flags, local bindings from idempotent node lookups (get_*_node: one node per entity), "
            "writes of distinct files (create_svg, touch), appends to a list that a graph constructor sorts",
            "toposort_flatten(sort=True) is deterministic given a deterministic __lt__ (library contract)",
            "not addressed: timestamps, hash-seed effects inside libraries (markdown, jinja, pygments, graphviz), worker scheduling with parallel > 0, byte comparison of the HTML",
        ],
        "functions_under_contract": fn_meta([("ford.sourceform", "FortranBase.__lt__", None), ("ford.graphs", "BaseNode.__lt__", None)]) +
        [{"loops": "every for / comprehension over an unordered collection in fortran_project, graphs, sourceform, output, settings, pagetree, external_project"},
         {"call_sites": "toposort_flatten; Documentation.writeout first effects; Project._fortran_file name allocation"}],
        "unverified_surroundings": ["rendered bytes", "parallel graph writing", "libraries"],
        "explanation": "Narrow claim: every iteration over an unordered collection is sorted by an identifier order or has an order-insensitive body; the comparison used for sorting is "
                       "the identifier order; names are allocated in source order; stale output is removed first.",
    }
    return tasks, meta

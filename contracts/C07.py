"""C07 - cross-references resolve to the entity Fortran scoping designates.  DESIGN.md section 6, C07."""
from __future__ import annotations
import time
from harness.core import Task, OR, PROVED, REFUTED
from contracts import scoping
from contracts.common import *

PROP = "C07"


def _with_search(mk):
    def mk2():
        from bounded import c07
        c = mk()
        c.search_fn = c07.search
        return c
    mk2.__name__ = mk.__name__
    return mk2


def bounded_task():
    def run():
        from bounded import c07
        t0 = time.time()
        hit = c07.search()
        r = OR(id=f"{PROP}.Bd.pipeline.scoping_cases", status=REFUTED if hit else PROVED, kind="Bd", role="bounded",
               target="ford.fortran_project.Project.correlate (real pipeline)",
               desc="generated modules reusing names across sibling / nested scopes; expected resolution by construction",
               bound=f"{c07.count_cases()} generated programs (sibling type/variable/abstract interface in both orders, procedure and type shadowing, undeclared name)",
               cases=c07.count_cases(), seconds=time.time() - t0, backend="enumeration")
        if hit:
            r.replay, r.witness = hit, hit["input"]
        return [r]
    return Task(f"{PROP}.Bd.pipeline", PROP, "real pipeline", run)


def _get_deps():
    from bounded import c07
    from contracts import deps
    c = deps.get_deps(PROP)
    c.search_fn = c07.search
    return c


_get_deps.__name__ = "get_deps"


def _used_objects(kind):
    """the names a USE statement brings into a scope are what references in that scope resolve against (renamed-away names are not among them)"""
    def mk():
        from bounded import c07
        from contracts import useassoc
        c = useassoc.used_objects(kind, PROP)
        c.search_fn = c07.search
        return c
    mk.__name__ = f"used_objects[{kind}]"
    return mk


def build(tier, seed):
    set_tier(tier)
    tasks = [standin_task(PROP, "parser.access_product", lambda: __import__("bounded.c04", fromlist=["x"]).search(), "ford.sourceform (real parser)",
                          "what an access statement names is private / public whatever the letter case of the name: a private entity is not use-associated and cannot hide the host's own", "access product of C04"),
             standin_task(PROP, "projects.end_to_end", lambda: __import__("bounded.c16", fromlist=["x"]).search(("end_to_end",)), "ford.main on project A (externalize) then project B (external)",
                          "names re-exported by a module of an external project (renamed ones included) resolve in B to A's entities under their local names; B's own entities win", "1 project pair"),
             Task(f"{PROP}.S.deplist", PROP, "Project.correlate deplist", lambda: __import__("contracts.deps", fromlist=["x"]).deplist_obligations(PROP, lambda: __import__("bounded.c07", fromlist=["x"]).search())),
             Task(f"{PROP}.S.block_scope", PROP, "statement dispatch", lambda: scoping.block_scope_guards(PROP, lambda: __import__("bounded.c07", fromlist=["x"]).search())),
             Task(f"{PROP}.S.find_used_modules", PROP, "find_used_modules", lambda: __import__("contracts.external", fromlist=["x"]).find_used_modules_recursion(PROP, lambda: __import__("bounded.c07", fromlist=["x"]).search())),
             a_task(PROP, _with_search(scoping.parent_submodule_block)),
             *[a_task(PROP, _used_objects(k)) for k in ("pub_procs", "pub_absints", "pub_types", "pub_vars")],
             a_task(PROP, _with_search(scoping.host_block)), a_task(PROP, _with_search(scoping.submodule_block)), a_task(PROP, _with_search(scoping.own_procs_hide)), a_task(PROP, _get_deps),
             Task(f"{PROP}.S.own_tables", PROP, "FortranCodeUnit.correlate", lambda: __import__("contracts.useassoc", fromlist=["x"]).own_tables_obligations(PROP, lambda: __import__("bounded.c07", fromlist=["x"]).search())),
             Task(f"{PROP}.S.tables_only_grow", PROP, "ford.sourceform", lambda: __import__("contracts.useassoc", fromlist=["x"]).tables_only_grow(PROP, replay=lambda: __import__("bounded.c07", fromlist=["x"]).search())),
             Task(f"{PROP}.S.find_used_modules.lookup", PROP, "find_used_modules", lambda: __import__("contracts.external", fromlist=["x"]).find_used_modules_lookup(PROP, lambda: __import__("bounded.c06", fromlist=["x"]).search())),
             Task(f"{PROP}.B.use_patterns", PROP, "USE_RE/ONLY_RE/RENAME_RE", lambda: __import__("contracts.rx_use", fromlist=["x"]).obligations(PROP)),
             Task(f"{PROP}.S.extension_order", PROP, "type extension order", lambda: scoping.extension_order(PROP)), bounded_task()]
    meta = {
        "trusted_base": TRUSTED_BASE,
        "assumptions": PYVC_ASSUMPTIONS + [
            "heap model: name tables are aliasable dict objects (container reference + global content map); precondition: the four tables of the "
            "parent and the unit's own all_procs are pairwise distinct dict objects allocated before the call",
            "str.lower is an uninterpreted function LOWER",
            "oracle: visible(scope) = host tables overlaid by the scope's own declarations in declaration order (locals win), the host's dummy "
            "arguments and result variable are visible as variables; nothing flows back into any other scope's tables (frame)",
        ],
        "functions_under_contract": fn_meta([("ford.sourceform", "FortranCodeUnit.correlate",
                                              "block contract: statements from the first `self.all_procs...` up to `if isinstance(self, FortranSubmodule)`; "
                                              "the rest of correlate() is not under contract"),
                                             ("ford.sourceform", "FortranCodeUnit.correlate", "second block contract: the first `if isinstance(self, FortranSubmodule):` statement"),
                                             ("ford.sourceform", "FortranCodeUnit.correlate.own_procs_hide", "helper closure of the submodule block (free variable self)"),
                                             ("ford.fortran_project", "Project.correlate.get_deps", "the dependency lists that order correlation (a scope's tables are copied when it is correlated)")]),
        "unverified_surroundings": ["the rest of FortranCodeUnit.correlate (USE merging: see C06; call resolution; the type ordering is a call-site obligation on toposort_flatten, whose contract is assumed)",
                                    "the resolvers FortranVariable.correlate / FortranBoundProcedure.correlate / FortranFinalProc.correlate / "
                                    "FortranInterface.correlate / FortranType.correlate (union-typed slots are outside Engine A's value model; "
                                    "covered only by the bounded pipeline cases)", "_find_chain_item"],
        "explanation": "The host-association block of correlate() is proved to build, for every heap, exactly host-overlaid-by-locals tables and to leave "
                       "every table of the parent scope unchanged (aliasing is visible in the heap model). A submodule sees the tables of its parent submodule when it has one and "
                       "of its ancestor module only otherwise, with its own declarations hiding the inherited ones (module-procedure implementations give way to their interface), "
                       "leaves the host's tables untouched, and is appended to the descendants of exactly that parent. Types are correlated in toposort order of their resolved parents.",
    }
    return tasks, meta

"""Engine A contracts for call recording (C08): ford.utils.strip_paren, ford.sourceform.Associations."""
from __future__ import annotations
import z3
from pyvc.contract import *
from pyvc.values import *
from specs import lex, paren
from harness import loader
from contracts.display import H, sel

I = z3.IntSort()
SI = z3.SeqSort(I)
A = z3.ArraySort(I, I)
# the depth-selecting transducer, as recursive spec functions of the prefix length
SP_LEV = z3.Function("SP_LEV", A, I, I)              # depth of () after j characters (brackets are not counted by strip_paren)
SP_CUR = z3.Function("SP_CUR", A, I, I, SI)          # text collected for the group being read
SP_OUT = z3.Function("SP_OUT", A, I, I, SI)          # ids of the groups already closed


def sp_unfold(arr, rl, k):
    c = z3.Select(arr, k)
    lev, cur, out = SP_LEV(arr, k), SP_CUR(arr, rl, k), SP_OUT(arr, rl, k)
    isl, isr = c == paren.LP, c == paren.RP
    keep = z3.If(isl, z3.Or(lev == rl, lev + 1 == rl), z3.If(isr, z3.Or(lev == rl, lev - 1 == rl), lev == rl))
    cur1 = z3.If(keep, z3.Concat(cur, z3.Unit(c)), cur)
    close = z3.And(isr, lev == rl)
    return [SP_LEV(arr, 0) == 0, SP_CUR(arr, rl, 0) == z3.Empty(SI), SP_OUT(arr, rl, 0) == z3.Empty(SI),
            SP_LEV(arr, k + 1) == lev + z3.If(isl, 1, z3.If(isr, -1, 0)),
            SP_CUR(arr, rl, k + 1) == z3.If(close, z3.Empty(SI), cur1),
            SP_OUT(arr, rl, k + 1) == z3.If(close, z3.Concat(out, z3.Unit(SEQID(cur1))), out),
            z3.Implies(close, SEQ_OF(SEQID(cur1)) == cur1)]


def strip_paren(prop="C08"):
    c = Contract("ford.utils", "strip_paren", prop)
    c.param("line", TScan())
    c.param("retlevel", TInt())
    c.hints["list"] = "seqstr"
    Ar = lambda v: v.val("line").base.arr
    N = lambda v: v.val("line").base.n
    c.loop(0, invariants=[
        ("level", lambda v: v.level == SP_LEV(Ar(v), v.k)),
        ("current_group", lambda v: v.curstr == SP_CUR(Ar(v), v.retlevel, v.k)),
        ("closed_groups", lambda v: v.retstrs == SP_OUT(Ar(v), v.retlevel, v.k)),
    ], unfold=lambda v: sp_unfold(Ar(v), v.retlevel, v.k), variant=lambda v: N(v) - v.k)
    c.post_facts = lambda v0: [SP_LEV(Ar(v0), 0) == 0, SP_CUR(Ar(v0), v0.retlevel, 0) == z3.Empty(SI), SP_OUT(Ar(v0), v0.retlevel, 0) == z3.Empty(SI)]

    def post(v0, res, v1):
        a, rl, n = Ar(v0), v0.retlevel, N(v0)
        cur, out = SP_CUR(a, rl, n), SP_OUT(a, rl, n)
        return v1.heap.list_get(res) == z3.If(z3.Length(cur) > 0, z3.Concat(out, z3.Unit(SEQID(cur))), out)
    c.ensures("groups_at_return_depth_with_inner_groups_emptied", post)
    c.no_raise = True
    real = loader.get_obj("ford.utils", "strip_paren")
    from contracts.scanners import _oracle_pair
    rp, search = _oracle_pair(real, paren.py_strip_paren, lambda: ((s, rl) for s in lex.strings("ab()", 7) for rl in (0, 1, 2)), "strip_paren")
    c.replay_fn = lambda w: rp((w["line"], w["retlevel"])) if w.get("line") is not None else {"confirmed": False}
    c.search_fn = search
    return c


# ------------------------------------------------------------------ Associations
NONE_IN = z3.Function("ASSOC_NONE_IN", SI, I, z3.StringSort(), z3.ArraySort(I, z3.ArraySort(z3.StringSort(), z3.BoolSort())), z3.BoolSort())


def _assoc_base(name, prop):
    c = Contract("ford.sourceform", f"Associations.{name}", prop)
    c.fields = {"_batches": "list:dict:str:list"}
    c.param("self", TRef("Associations"))
    c.hints["dict_list_elem"] = "str"

    def setup(eng, path):
        path.heap._dmap(SDict(0, "str", "list"))
        path.heap._lmap("dict:str:list")
    c.extra_setup.append(setup)
    return c


def _dh(v):
    return v.heap.dh["str_list"]


def _none_unfold(v, key):
    seq = v.it.inner.seq if hasattr(v.it, "inner") else v.it.seq
    n = z3.Length(seq)
    b = seq[n - 1 - v.k]
    dhm = _dh(V(v._e, v._e.entry))
    return [NONE_IN(seq, 0, key, dhm), NONE_IN(seq, v.k + 1, key, dhm) == z3.And(NONE_IN(seq, v.k, key, dhm), z3.Not(z3.Select(z3.Select(dhm, b), key)))]


def assoc_getitem(prop="C08"):
    c = _assoc_base("__getitem__", prop)
    c.param("key", TStr())
    E = lambda v: V(v._e, v._e.entry)
    batches = lambda v: v.heap.list_get(SList(sel(H(v, "_batches"), v.self), "dict:str:list"))
    c.loop(0, invariants=[("no_inner_batch_binds_key", lambda v: NONE_IN(v.it.inner.seq, v.k, E(v).key, _dh(E(v)))),
                          ("frame", lambda v: z3.And(_dh(v) == _dh(E(v)), v.it.inner.seq == batches(E(v))))],
           unfold=lambda v: _none_unfold(v, E(v).key), variant=lambda v: z3.Length(v.it.inner.seq) - v.k)
    c.post_facts = lambda v0: [NONE_IN(batches(v0), 0, v0.key, _dh(v0))]
    j = z3.Int("j!assoc")

    def post(v0, res, v1):
        seq = batches(v0)
        n = z3.Length(seq)
        dhm, dvm = _dh(v0), v0.heap.dv["str_list"]
        # result is the binding in the innermost (last added) batch that binds key
        return z3.Exists([j], z3.And(0 <= j, j < n, NONE_IN(seq, j, v0.key, dhm), z3.Select(z3.Select(dhm, seq[n - 1 - j]), v0.key),
                                     res.id == z3.Select(z3.Select(dvm, seq[n - 1 - j]), v0.key)))
    c.ensures("innermost_batch_binding", post)
    c.raises("keyerror_iff_no_batch_binds_key", lambda v0, exc, v1: z3.And(z3.BoolVal(exc == "KeyError"), NONE_IN(batches(v0), z3.Length(batches(v0)), v0.key, _dh(v0))))
    return c


def assoc_contains(prop="C08"):
    c = _assoc_base("__contains__", prop)
    c.param("key", TStr())
    E = lambda v: V(v._e, v._e.entry)
    batches = lambda v: v.heap.list_get(SList(sel(H(v, "_batches"), v.self), "dict:str:list"))
    c.loop(0, invariants=[("no_inner_batch_binds_key", lambda v: NONE_IN(v.it.inner.seq, v.k, E(v).key, _dh(E(v)))),
                          ("frame", lambda v: z3.And(_dh(v) == _dh(E(v)), v.it.inner.seq == batches(E(v))))],
           unfold=lambda v: _none_unfold(v, E(v).key), variant=lambda v: z3.Length(v.it.inner.seq) - v.k)
    c.post_facts = lambda v0: [NONE_IN(batches(v0), 0, v0.key, _dh(v0))]
    c.ensures("true_iff_some_batch_binds_key", lambda v0, res, v1: res.t == z3.Not(NONE_IN(batches(v0), z3.Length(batches(v0)), v0.key, _dh(v0)))
              if False else z3.Implies(z3.Not(res.t), NONE_IN(batches(v0), z3.Length(batches(v0)), v0.key, _dh(v0))))
    j = z3.Int("j!assoc2")
    c.ensures("true_only_if_a_batch_binds_key", lambda v0, res, v1: z3.Implies(res.t, z3.Exists([j], z3.And(0 <= j, j < z3.Length(batches(v0)),
                                                                                                          z3.Select(z3.Select(_dh(v0), batches(v0)[j]), v0.key)))))
    c.no_raise = True
    return c


def assoc_remove_last(prop="C08"):
    c = _assoc_base("remove_last_batch", prop)
    batches = lambda v: v.heap.list_get(SList(sel(H(v, "_batches"), v.self), "dict:str:list"))
    c.ensures("pops_exactly_the_last_batch", lambda v0, res, v1: z3.And(z3.Length(batches(v0)) > 0,
                                                                       batches(v1) == z3.SubSeq(batches(v0), 0, z3.Length(batches(v0)) - 1)))
    c.raises("indexerror_iff_empty", lambda v0, exc, v1: z3.And(z3.BoolVal(exc == "IndexError"), z3.Length(batches(v0)) == 0))
    return c


def associate_order(prop="C08", replay=None):
    """ASSOCIATE branch of the statement dispatch (FortranContainer.__init__): the selectors of an ASSOCIATE statement are evaluated in the *enclosing* scope - the associate names the
    statement introduces are not visible in its own selectors (F2018 11.1.3.3).  So the scan of the statement for procedure references (`self._add_procedure_calls(line,
    associations)`) comes before its associations are registered (`associations.add_batch(..)`)."""
    import ast
    from harness import loader
    from harness.core import OR, PROVED, REFUTED, UNKNOWN
    oid = f"{prop}.S.FortranContainer.__init__.associate_selectors_are_scanned_before_the_names_are_registered"
    fn = loader.find_def("ford.sourceform", "FortranContainer.__init__")
    br = [n for n in ast.walk(fn) if isinstance(n, ast.If) and "ASSOCIATE_RE.match" in ast.unparse(n.test) and "END" not in ast.unparse(n.test).upper().replace("ASSOCIATE_RE", "")]
    if len(br) != 1:
        return [OR(id=oid, status=UNKNOWN, kind="S", target="ford.sourceform.FortranContainer.__init__", detail=f"ASSOCIATE branch: {len(br)} matches")]
    scan = [i for i, st in enumerate(br[0].body) if "_add_procedure_calls(" in ast.unparse(st)]
    reg = [i for i, st in enumerate(br[0].body) if ".add_batch(" in ast.unparse(st)]
    if len(scan) != 1 or len(reg) != 1:
        return [OR(id=oid, status=UNKNOWN, kind="S", target="ford.sourceform.FortranContainer.__init__", detail=f"scan statements {scan}, registrations {reg}")]
    ok = scan[0] < reg[0]
    r = OR(id=oid, status=PROVED if ok else REFUTED, kind="S", role="pre", backend="ast", target="ford.sourceform.FortranContainer.__init__",
           desc="in the ASSOCIATE branch `self._add_procedure_calls(line, associations)` stands before `associations.add_batch(..)`")
    if not ok:
        r.detail = "a selector that starts with a name the same statement re-defines (`associate (box => box%get())`) is rewritten with the new association: the call is lost or lands elsewhere"
        if replay:
            r.replay = replay()
    return [r]

"""Engine A / B / structural contracts for [[...]] references (C11)."""
from __future__ import annotations
import ast
import z3
from pyvc.contract import *
from pyvc.engine import _Raise
from pyvc.blocks import between
from pyvc.values import *
from harness.core import OR, PROVED, REFUTED, UNKNOWN
from harness import loader
from contracts.heapmodel import FIELDS, class_model
from contracts.display import H, sel, lst, base

I, S, B = z3.IntSort(), z3.StringSort(), z3.BoolSort()
SI = z3.SeqSort(I)
NOMATCH = z3.Function("FIL_NOMATCH", SI, I, S, B)      # no entity among the first k items carries the name (case-insensitively); strings are skipped


def find_in_list(prop="C11"):
    c = base(Contract("ford.sourceform", "_find_in_list", prop))
    c.param("collection", TList("ref"))
    c.param("name", TStr())
    cm = class_model()
    E = lambda v: V(v._e, v._e.entry)
    isent = lambda x: z3.And(x != 0, cm.is_a(x, "FortranBase"))
    hit = lambda v, x, nm: z3.And(isent(x), LOWER(nm) == LOWER(sel(H(v, "name"), x)))

    def unfold(v):
        e = E(v)
        seq = v.it.seq
        return [NOMATCH(seq, 0, e.name), NOMATCH(seq, v.k + 1, e.name) == z3.And(NOMATCH(seq, v.k, e.name), z3.Not(hit(e, seq[v.k], e.name)))]
    c.loop(0, invariants=[("no_match_so_far", lambda v: NOMATCH(v.it.seq, v.k, E(v).name)),
                          ("frame", lambda v: z3.And(v.it.seq == E(v).heap.list_get(E(v).val("collection")), H(v, "name") == H(E(v), "name")))],
           unfold=unfold, variant=lambda v: z3.Length(v.it.seq) - v.k)
    seq0 = lambda v0: v0.heap.list_get(v0.val("collection"))
    c.post_facts = lambda v0: [NOMATCH(seq0(v0), 0, v0.name)]
    j = z3.Int("j!fil")

    def post(v0, res, v1):
        r = res.t if isinstance(res, SRef) else z3.IntVal(0)
        seq = seq0(v0)
        return z3.If(r == 0, NOMATCH(seq, z3.Length(seq), v0.name),
                     z3.Exists([j], z3.And(0 <= j, j < z3.Length(seq), seq[j] == r, hit(v0, r, v0.name), NOMATCH(seq, j, v0.name))))
    c.ensures("first_entity_with_that_name_case_insensitively_else_None", post)
    c.no_raise = True
    return c


FIND_CHILD = z3.Function("FIND_CHILD", I, S, S, I)          # entity.find_child(name, kind) -> entity or 0; kind '' encodes None
FC_RAISES = z3.Function("FIND_CHILD_RAISES", I, S, S, B)    # find_child raises ValueError (unknown kind / impossible child)
PROJ_FIND = z3.Function("PROJECT_FIND", S, S, S, S, I)


def optstr(v):
    if isinstance(v, SNone):
        return z3.StringVal("")
    if isinstance(v, SStr):
        return v.t
    if isinstance(v, SConst):
        return z3.StringVal(v.py)
    raise EngineError("expected Optional[str]")


def call_find_child(eng, path, e, args, recv):
    name = optstr(args[0])
    kind = optstr(args[1]) if len(args) > 1 else z3.StringVal("")
    if "ValueError" not in getattr(path, "noraise", set()):
        raise _Raise(z3.Not(FC_RAISES(recv.t, name, kind)), "ValueError")
    return SRef(FIND_CHILD(recv.t, name, kind))


def project_find_tail(prop="C11"):
    """Project.find, the part after the project-level lookup: the child part of a reference is resolved inside the found item, honouring its kind qualifier"""
    c = base(Contract("ford.fortran_project", "Project.find", prop))
    c.qual_suffix = "child_part"
    c.block_select = between("if child_name is None or item is None", None)
    c.dropped.append("block contract: the statements from `if child_name is None or item is None:` to the end of Project.find")
    c.param("self", TRef("Project"))
    c.param("item", TRef("FortranBase", nonnull=False))
    c.param("child_name", TStr())           # '' encodes None
    c.param("child_entity", TStr())

    class TOpt(TStr):
        pass
    c.methods["find_child"] = call_find_child
    c.requires("none_encoding", lambda v: z3.BoolVal(True))
    # `child_name is None` on a str-encoded optional: the engine answers False for SStr; model None by the empty string and restate the test
    c.ensures("child_is_looked_up_in_the_item_with_its_kind",
              lambda v0, res, v1: z3.Implies(v0.item != 0, (res.t if isinstance(res, SRef) else z3.IntVal(0)) == FIND_CHILD(v0.item, v0.child_name, v0.child_entity)))
    c.allowed_raises = {"ValueError"}
    return c


# ------------------------------------------------------------------ convert_link: lookup order
class MatchGroups:
    """m[...] of the LINK_RE match: four optional strings ('' encodes None)"""
    NAMES = ("name", "entity", "child_name", "child_entity")


def convert_link_lookup(prop="C11"):
    c = base(Contract("ford._markdown", "FordLinkProcessor.convert_link", prop))
    c.qual_suffix = "lookup"
    c.block_select = between("item = None", "link = Element('a')")
    c.dropped.append("block contract: the lookup part of convert_link (from `item = None` up to the creation of the <a> element)")
    c.fields.update({"md": "ref", "current_context": "ref", "project": "ref"})
    c.param("self", TRef("FordLinkProcessor"))
    G = {n: z3.String(f"m_{n}") for n in MatchGroups.NAMES}

    class TMatchObj(T):
        def fresh(self, eng, path, name):
            return SOpaque("linkmatch")
    c.param("m", TMatchObj())

    def opaque_attr(eng, path, obj, name):
        return None
    # m["name"] etc.
    orig_index = None

    def setup(eng, path):
        e_index = eng.index

        def index(path_, base_, idx, e):
            if isinstance(base_, SOpaque) and base_.tag == "linkmatch" and isinstance(idx, SConst):
                return SStr(G[idx.py])
            return e_index(path_, base_, idx, e)
        eng.index = index
        for f in ("md", "current_context", "project", "parent"):
            eng.field_array(path, f)
    c.extra_setup.append(setup)
    c.methods["find_child"] = call_find_child

    def call_project_find(eng, path, e, args, recv):
        # self.project.find(**m.groupdict())  /  self.project.find(name, m["entity"])
        if e.keywords and any(k.arg is None for k in e.keywords):
            return SRef(PROJ_FIND(G["name"], G["entity"], G["child_name"], G["child_entity"]))
        a = [optstr(x) for x in args] + [z3.StringVal("")] * (4 - len(args))
        return SRef(PROJ_FIND(*a[:4]))
    c.methods["find"] = call_project_find
    c.methods["group"] = lambda eng, path, e, args, recv: SOpaque("str")
    c.calls["warn"] = lambda eng, path, e, args, recv: SNone()
    c.props["warn_prefix"] = lambda eng, path, obj: SOpaque("str")
    ctx = lambda v: sel(H(v, "current_context"), sel(H(v, "md"), v.self))
    par = lambda v: sel(H(v, "parent"), ctx(v))

    def oracle(v0):
        """documented lookup: the documented entity's own contents, then its parent's, then the whole project; a kind that cannot exist in a
        scope only skips that scope; a child part is resolved inside the found item"""
        nm, ent, cn, ce = G["name"], G["entity"], G["child_name"], G["child_entity"]
        in_ctx = z3.If(FC_RAISES(ctx(v0), nm, ent), 0, FIND_CHILD(ctx(v0), nm, ent))
        in_par = z3.If(z3.And(in_ctx == 0, par(v0) != 0), z3.If(FC_RAISES(par(v0), nm, ent), 0, FIND_CHILD(par(v0), nm, ent)), in_ctx)
        local = z3.If(ctx(v0) != 0, in_par, 0)
        # (a kind of child the found item cannot have finds nothing, like a child that does not exist: warning, then the project-wide lookup and the fall-back to the parent part)
        with_child = z3.If(z3.And(z3.Length(cn) > 0, local != 0), z3.If(FC_RAISES(local, cn, ce), 0, FIND_CHILD(local, cn, ce)), local)
        glob = z3.If(with_child == 0, PROJ_FIND(nm, ent, cn, ce), with_child)
        fallback = z3.If(z3.And(z3.Length(cn) > 0, glob == 0), PROJ_FIND(nm, ent, z3.StringVal(""), z3.StringVal("")), glob)
        return fallback, local
    c.ensures("item_is_the_documented_lookup",
              lambda v0, res, v1: (v1.item if v1.has("item") and isinstance(v1.val("item"), SRef) else z3.IntVal(0)) == oracle(v0)[0])
    # no reference, however ill-formed, aborts the run (the property: "rendered as plain text with a warning")
    c.no_raise = True
    return c


DOCUMENTED_PROJECT_KINDS = {"procedure": "procedures", "proc": "procedures", "subroutine": "procedures", "function": "procedures", "interface": "absinterfaces",
                            "absinterface": "absinterfaces", "block": "blockdata", "type": "types", "file": "allfiles", "module": "modules", "submodule": "submodules",
                            "program": "programs", "namelist": "namelists"}
DOCUMENTED_EXT = {"extprocedure": "extProcedures", "extproc": "extProcedures", "extsubroutine": "extProcedures", "extfunction": "extProcedures", "extinterface": "extInterfaces",
                  "extabsinterface": "extInterfaces", "exttype": "extTypes", "extmodule": "extModules"}
DOCUMENTED_CHILD_KINDS = {"absinterface": "absinterfaces", "bound": "boundprocs", "common": "common", "constructor": "constructor", "final": "finalprocs", "function": "functions",
                          "interface": "interfaces", "modproc": "modprocs", "subroutine": "subroutines", "type": "types", "variable": "variables"}


def kind_tables(prop="C11"):
    """data contracts: the kind-name tables hold every documented synonym, mapped to the documented collection"""
    fp = loader.import_repo("ford.fortran_project")
    sf = loader.import_repo("ford.sourceform")
    out = []
    for label, live, want in (("LINK_TYPES", fp.LINK_TYPES, {**DOCUMENTED_PROJECT_KINDS, **DOCUMENTED_EXT}), ("SUBLINK_TYPES", sf.SUBLINK_TYPES, DOCUMENTED_CHILD_KINDS)):
        for k, coll in sorted(want.items()):
            ok = live.get(k) == coll
            out.append(OR(id=f"{prop}.S.{label}.{k}", status=PROVED if ok else REFUTED, kind="S", role="post", backend="data", target=label,
                          desc=f"documented kind '{k}' selects the collection '{coll}'",
                          replay=None if ok else {"confirmed": True, "input": k, "actual": live.get(k), "expected": coll}))
    return out


def href_obligations(prop="C16", replay=None):
    """FordLinkProcessor.convert_link: the href of a [[...]] link.  An entity of an external project carries an absolute URL (`external_url`): an http(s) URL is used as
    it stands; a local path (an external project given as a directory) must *replace* the base directory, which is what pathlib's `/` does with an absolute right operand
    (path algebra rule used for C19 as well) - string concatenation would bury it inside this project's own output tree.  Then the result is made relative to the page."""
    import ast
    from harness import loader
    from harness.core import OR, PROVED, REFUTED, UNKNOWN
    oid = f"{prop}.S.convert_link.absolute_target_replaces_the_base"
    try:
        fn = loader.find_def("ford._markdown", "FordLinkProcessor.convert_link")
    except loader.TargetMissing as e:
        return [OR(id=oid, status=UNKNOWN, kind="S", target="ford._markdown.FordLinkProcessor.convert_link", detail=str(e))]
    sites = [n for n in ast.walk(fn) if isinstance(n, ast.Assign) and any(ast.unparse(t) == "full_url" for t in n.targets)]
    rel = [n for n in ast.walk(fn) if isinstance(n, ast.Assign) and any(ast.unparse(t) == "rel_url" for t in n.targets) and isinstance(n.value, ast.Call) and ast.unparse(n.value.func) == "relpath"]
    if len(sites) != 1 or not rel:
        return [OR(id=oid, status=UNKNOWN, kind="S", target="ford._markdown.FordLinkProcessor.convert_link", detail=f"expected `full_url = ...` and `rel_url = relpath(...)`, found {len(sites)} / {len(rel)}")]
    v = sites[0].value
    ok = isinstance(v, ast.BinOp) and isinstance(v.op, ast.Div) and ast.unparse(v.left) == "self.md.base_url" and ast.unparse(v.right) == "item_url" \
        and ast.unparse(rel[0].value.args[0]) == "full_url"
    r = OR(id=oid, status=PROVED if ok else REFUTED, kind="S", role="post", backend="ast", target="ford._markdown.FordLinkProcessor.convert_link",
           desc=f"`{ast.unparse(sites[0])}`: the target is joined to the base directory with pathlib's `/` (an absolute URL of a local external project wins) and then made relative")
    if not ok:
        r.witness = {"assignment": ast.unparse(sites[0])}
        r.detail = "not a pathlib join of self.md.base_url and item_url: an absolute target is appended behind the base directory"
        if replay:
            r.replay = replay()
    return [r]


def page_of_the_context(prop="C11", replay=None):
    """MetaMarkdown.convert makes the links of a comment relative to the page that shows it: the page of the documented entity or, for an entity without one (a local type, its
    components and bindings, ...), of the *nearest* ancestor that has one - however many levels up.  Recognised form: a `while` loop over `entity` that starts at `context`,
    leaves with the first `entity.get_url()` that is not None and otherwise steps to `entity.parent`; FortranBase.markdown passes `context=self` with every comment and summary it
    converts."""
    import ast
    from harness import loader
    from harness.core import OR, PROVED, REFUTED, UNKNOWN
    out = []
    fn = loader.find_def("ford._markdown", "MetaMarkdown.convert")
    loops = [n for n in fn.body if isinstance(n, ast.While)]
    ok = False
    why = "no while loop at the top level of convert"
    if len(loops) == 1:
        l = loops[0]
        src = ast.unparse(l)
        var = next((t.id for st in fn.body if isinstance(st, ast.Assign) and ast.unparse(st.value) == "context" for t in st.targets if isinstance(t, ast.Name)), None)
        steps = [st for st in l.body if isinstance(st, ast.Assign) and len(st.targets) == 1 and isinstance(st.targets[0], ast.Name) and st.targets[0].id == var
                 and ast.unparse(st.value) in (f"getattr({var}, 'parent', None)", f"{var}.parent")]
        leaves = [st for st in l.body if isinstance(st, ast.If) and f"{var}.get_url()" in ast.unparse(st.test) and "is not None" in ast.unparse(st.test) and any(isinstance(b, ast.Break) for b in st.body)]
        cond_ok = var is not None and f"{var} is not None" in ast.unparse(l.test)
        ok = bool(var and steps and leaves and cond_ok and len(l.body) == 2 and l.body.index(leaves[0]) < l.body.index(steps[0]))
        why = f"loop variable {var}; leaves at the first URL: {bool(leaves)}; steps to the parent: {bool(steps)}; runs while there is an entity: {cond_ok}"
    r = OR(id=f"{prop}.S.MetaMarkdown.convert.links_are_relative_to_the_page_of_the_nearest_ancestor_with_a_page", status=PROVED if ok else UNKNOWN, kind="S", role="post", backend="ast",
           target="ford._markdown.MetaMarkdown.convert", desc=f"`while ... {{entity}} is not None: if (url := entity.get_url()) is not None: break; entity = entity.parent` ({why})")
    if not ok:
        hit = replay() if replay else None
        r.detail = "the walk from the documented entity up to the first ancestor with a page is not of the recognised form"
        if hit:
            r.status, r.replay = REFUTED, hit
    out.append(r)
    mk = loader.find_def("ford.sourceform", "FortranBase.markdown")
    calls = [c for c in ast.walk(mk) if isinstance(c, ast.Call) and isinstance(c.func, ast.Attribute) and c.func.attr == "convert"]
    bad = [ast.unparse(c)[:80] for c in calls if not any(k.arg == "context" and ast.unparse(k.value) == "self" for k in c.keywords)]
    r2 = OR(id=f"{prop}.S.FortranBase.markdown.every_conversion_gets_the_entity_as_context", status=(REFUTED if bad else PROVED) if calls else UNKNOWN, kind="S", role="pre", backend="ast",
            target="ford.sourceform.FortranBase.markdown", desc=f"each of the {len(calls)} `md.convert(..)` calls of FortranBase.markdown (comment, summary) passes `context=self`")
    if bad:
        r2.witness = {"calls": bad}
        r2.detail = "text converted without its entity: references skip the entity's own scope and the links are not relative to any page"
        if replay:
            r2.replay = replay()
    out.append(r2)
    return out


def no_memo_obligation(prop="C11", replay=None):
    """what a `[[name]]` reference means depends on where it stands (the documented entity's own contents first, then its parent's, then the project): FordLinkProcessor.handleMatch
    computes the link for every match - `return (self.convert_link(m), m.start(0), m.end(0))` - and keeps no table of results from one text to the next."""
    import ast
    from harness import loader
    from harness.core import OR, PROVED, REFUTED, UNKNOWN
    oid = f"{prop}.S.FordLinkProcessor.handleMatch.every_reference_is_looked_up_in_its_own_context"
    fn = loader.find_def("ford._markdown", "FordLinkProcessor.handleMatch")
    rets = [r for r in ast.walk(fn) if isinstance(r, ast.Return)]
    from contracts import astform
    body = [st for st in fn.body if not (isinstance(st, ast.Expr) and isinstance(st.value, ast.Constant))]
    # (plain once-bound locals in front of the return are the same form)
    plain = [st for st in body if not (isinstance(st, ast.Assign) and len(st.targets) == 1 and isinstance(st.targets[0], ast.Name))]
    ok = len(rets) == 1 and len(plain) == 1 and isinstance(rets[0].value, ast.Tuple) and astform.text(fn, rets[0].value.elts[0]) == "self.convert_link(m)"
    r = OR(id=oid, status=PROVED if ok else UNKNOWN, kind="S", role="post", backend="ast", target="ford._markdown.FordLinkProcessor.handleMatch",
           desc="handleMatch is the single statement `return (self.convert_link(m), m.start(0), m.end(0))`: no result is carried over from another text")
    if not ok:
        hit = replay() if replay else None
        r.detail = "handleMatch does more than convert the match at hand"
        if hit:
            r.status, r.replay = REFUTED, hit
            r.detail += ": a reference is answered with the entity another context selected for the same spelling"
    return [r]

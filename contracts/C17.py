"""C17 - static pages mirror the page directory.  Narrow claim: the directory walk and the output path under contract; aliases, relative links,
copying and the navigation templates by bounded real runs."""
from __future__ import annotations
import time
from harness.core import Task, OR, PROVED, REFUTED
from contracts import pages
from contracts.common import *

PROP = "C17"


def _walk():
    from bounded import c17
    c = pages.get_page_tree_walk(PROP)
    c.search_fn = lambda: c17.search(nrandom=3)
    return c


def _path():
    from bounded import c17
    c = pages.page_path(PROP)
    c.search_fn = lambda: c17.search(nrandom=0, names=("dotted names", "three levels"))
    return c


def _writeout():
    from bounded import c17
    c = pages.writeout_copies(PROP)
    c.search_fn = lambda: c17.search(nrandom=0, names=("copy_subdir in metadata", "project-level copy_subdir", "basic"))
    return c


_walk.__name__, _path.__name__, _writeout.__name__ = "get_page_tree_walk", "PageNode_path", "writeout_copies"


def bd_task(names, label, seed, nrandom=0):
    def run():
        from bounded import c17
        t0 = time.time()
        hit = c17.search(seed=seed, nrandom=nrandom, names=names)
        n = (len(names) if names else 0) + nrandom
        r = OR(id=f"{PROP}.Bd.site.{label}", status=REFUTED if hit else PROVED, kind="Bd", role="bounded", target="ford.main with page_dir (whole site)",
               desc="pages written = titled Markdown files at the same relative path; files and copy_subdir directories copied next to their pages; navigation in the documented "
                    "order on every page; every link and image of the static pages resolves (aliases |page| |media| |url|, relative links, [[...]])",
               bound=f"{n} page directories" + (f" ({nrandom} random, seed {seed})" if nrandom else ""), cases=n, seconds=time.time() - t0, backend="enumeration")
        if hit:
            r.replay, r.witness = hit, hit["input"]
        return [r]
    return Task(f"{PROP}.Bd.{label}", PROP, label, run)


def build(tier, seed):
    from bounded import c17
    set_tier(tier)
    names = list(c17.TREES)
    nrand = 6 if tier == "quick" else 40
    def _meta():
        from contracts import metadata
        return metadata.meta_preprocessor(PROP)
    _meta.__name__ = "meta_preprocessor"
    tasks = [a_task(PROP, _meta), a_task(PROP, _walk), a_task(PROP, _path), a_task(PROP, _writeout), Task(f"{PROP}.S.structural", PROP, "structural", lambda: pages.structural(PROP)),
             Task(f"{PROP}.S.template_globals", PROP, "BasePage.template", lambda: pages.template_globals_obligation(PROP, lambda: __import__("bounded.c17", fromlist=["x"]).search(nrandom=0, names=("three levels",)))),
             Task(f"{PROP}.S.location", PROP, "PageNode.__init__", lambda: pages.location_obligation(PROP, lambda: __import__("bounded.c17", fromlist=["x"]).search(nrandom=0, names=("three levels",)))),
             Task(f"{PROP}.S.encoding", PROP, "get_page_tree", lambda: pages.encoding_forwarded_obligation(PROP, lambda: __import__("bounded.c17", fromlist=["x"]).search(nrandom=0, names=("latin-1 pages",)))),
             Task(f"{PROP}.S.alias_priority", PROP, "AliasExtension.extendMarkdown", lambda: pages.alias_priority_obligation(PROP, lambda: __import__("bounded.c17", fromlist=["x"]).search(nrandom=0, names=("aliases in raw html",))))]
    tasks += [bd_task((n,), n.replace(" ", "_").replace("-", "_"), seed) for n in names]

    def rnd(i):
        def run():
            from bounded import c17
            import random
            t0 = time.time()
            rng = random.Random(seed * 1000 + i)
            tree = c17.random_tree(rng)
            bad = c17.check_tree(f"random #{i}", tree, "")
            r = OR(id=f"{PROP}.Bd.site.random_{i}", status=REFUTED if bad else PROVED, kind="Bd", role="bounded", target="ford.main with page_dir (whole site)",
                   desc="random page directory (seeded): same checks", bound=f"1 tree, seed {seed * 1000 + i}", cases=1, seconds=time.time() - t0, backend="enumeration")
            if bad:
                r.replay = {"confirmed": True, "input": {"page_dir": tree}, "actual": bad[:5], "expected": "documented page rules", "how": "real end-to-end run"}
                r.witness = r.replay["input"]
            return [r]
        return Task(f"{PROP}.Bd.random_{i}", PROP, f"random_{i}", run)
    tasks += [rnd(i) for i in range(nrand)]
    meta = {
        "trusted_base": TRUSTED_BASE,
        "assumptions": PYVC_ASSUMPTIONS + [
            "get_page_tree walk: exists / is_dir / suffix are pure functions of the path; the recursive call and PageNode(...) return fresh objects and leave the node's lists alone; "
            "PageNode raises only ValueError; entry names are non-empty (os.listdir guarantees it, an empty ordered_subpage value is not excluded by any contract); progress is None",
            "dict.fromkeys keeps first occurrences in insertion order (language guarantee) - the merge itself is recognised structurally, not proved",
            "PageNode.path: pathlib's `/` is a pure function of string forms",
        ],
        "functions_under_contract": fn_meta([("ford.pagetree", "get_page_tree", "block contract: the loop over mergedfilelist; progress reporting"), ("ford.pagetree", "PageNode.path", None),
                                             ("ford.output", "PagetreePage.writeout", "mkdir and super().writeout() are opaque calls; ghost lists record the copies carried out")]),
        "unverified_surroundings": ["PageNode.__init__ (metadata, Markdown conversion)", "shutil.copy / copytree themselves (what a copy does on disk) - bounded only", "AliasPreprocessor, RelativeLinksTreeProcessor - bounded only",
                                    "info_page.html navigation - bounded only"],
        "explanation": "Proved for every directory listing: after the walk node.subpages and node.files are exactly the entry-by-entry fold of the merged list (hidden and backup "
                       "names contribute nothing; a directory contributes its sub-tree unless it has none; a .md file contributes its page unless it has no title; any other file "
                       "is recorded for copying), in list order, and the only exception that escapes is the ValueError for a listed entry that does not exist. A page's output path "
                       "is <location>/<stem>.html. writeout hands every copy_subdir entry that stays inside the page's directory to copytree and every other file to "
                       "shutil.copy, for index and non-index pages alike (ghost lists = folds over the two lists).",
    }
    return tasks, meta
